//! Shared plumbing of the conformance harness.
//!
//! Every model has one binary in `src/bin/<model>.rs` with two sub-commands:
//!
//! * `exec <behaviours.ndjson> <trace.ndjson>` — execute op sequences (produced by TLC from the
//!   model's state graph, or taken from a replay file) against the real contracts;
//! * `drive <seed> <runs> <len> <trace.ndjson>` — seeded random driver with state feedback.
//!
//! Both write the same ndjson trace: one `reset` event per run followed by one event per call
//! with the op as given, the observed result and the projection of the abstract state through
//! public getters. TLC (spec/Trace_<model>.tla) is the only judge of these traces.
#![allow(clippy::too_many_arguments)]

use std::{
    collections::BTreeMap,
    fs::File,
    io::{BufRead, BufReader, BufWriter, Write},
};

pub use rand::{rngs::StdRng, Rng, SeedableRng};
pub use serde_json::{json, Map as JMap, Value};
use soroban_sdk::{
    testutils::{Address as _, Ledger as _, MockAuth, MockAuthInvoke},
    Address, Env, IntoVal, Val, Vec as SVec,
};

// ---------------------------------------------------------------------------------------------
// command line
// ---------------------------------------------------------------------------------------------

pub enum Mode {
    Exec { input: String, output: String },
    Drive { seed: u64, runs: usize, len: usize, output: String },
}

pub fn cli() -> Mode {
    let a: Vec<String> = std::env::args().collect();
    match a.get(1).map(|s| s.as_str()) {
        Some("exec") if a.len() == 4 => Mode::Exec { input: a[2].clone(), output: a[3].clone() },
        Some("drive") if a.len() == 6 => Mode::Drive {
            seed: a[2].parse().expect("seed"),
            runs: a[3].parse().expect("runs"),
            len: a[4].parse().expect("len"),
            output: a[5].clone(),
        },
        _ => {
            eprintln!("usage: {} exec <in.ndjson> <out.ndjson> | drive <seed> <runs> <len> <out.ndjson>", a[0]);
            std::process::exit(2);
        }
    }
}

// ---------------------------------------------------------------------------------------------
// behaviours in, traces out
// ---------------------------------------------------------------------------------------------

/// One behaviour = one JSON line: either an array of ops, or an object with an `ops` array
/// (and optionally `cfg`, an object handed to the model's reset).
pub struct Behaviour {
    pub cfg: Value,
    pub ops: Vec<Value>,
}

pub fn read_behaviours(path: &str) -> Vec<Behaviour> {
    let f = BufReader::new(File::open(path).unwrap_or_else(|e| panic!("open {path}: {e}")));
    let mut out = Vec::new();
    for line in f.lines() {
        let line = line.unwrap();
        let t = line.trim();
        if t.is_empty() {
            continue;
        }
        let v: Value = serde_json::from_str(t).unwrap_or_else(|e| panic!("bad json {t}: {e}"));
        match v {
            Value::Array(ops) => out.push(Behaviour { cfg: json!({}), ops }),
            Value::Object(mut m) => {
                let ops = match m.remove("ops") {
                    Some(Value::Array(o)) => o,
                    _ => panic!("behaviour without ops: {t}"),
                };
                let cfg = m.remove("cfg").unwrap_or(json!({}));
                out.push(Behaviour { cfg, ops });
            }
            _ => panic!("bad behaviour line {t}"),
        }
    }
    out
}

pub struct Trace {
    w: BufWriter<File>,
    pub run: u64,
    pub i: u64,
    pub events: u64,
}

impl Trace {
    pub fn create(path: &str) -> Self {
        Trace {
            w: BufWriter::new(File::create(path).unwrap_or_else(|e| panic!("create {path}: {e}"))),
            run: 0,
            i: 0,
            events: 0,
        }
    }

    /// Starts a new run; `ev` is the reset event body (must contain at least `op`).
    pub fn reset(&mut self, mut ev: Value) {
        LONG_JUMP_USED.store(false, std::sync::atomic::Ordering::Relaxed);
        self.run += 1;
        self.i = 0;
        ev["run"] = json!(self.run);
        ev["i"] = json!(0);
        self.line(&ev);
    }

    pub fn step(&mut self, mut ev: Value) {
        self.i += 1;
        ev["run"] = json!(self.run);
        ev["i"] = json!(self.i);
        self.line(&ev);
    }

    fn line(&mut self, v: &Value) {
        self.events += 1;
        serde_json::to_writer(&mut self.w, v).unwrap();
        self.w.write_all(b"\n").unwrap();
    }

    pub fn finish(mut self) {
        self.w.flush().unwrap();
    }
}

// ---------------------------------------------------------------------------------------------
// environment
// ---------------------------------------------------------------------------------------------

pub struct LedgerCfg {
    pub seq: u32,
    pub min_temp: u32,
    pub min_persistent: u32,
    pub max_ttl: u32,
}

impl Default for LedgerCfg {
    fn default() -> Self {
        LedgerCfg { seq: 10, min_temp: 16, min_persistent: 1_000_000, max_ttl: 6_000_000 }
    }
}

pub fn new_env(c: &LedgerCfg) -> Env {
    let e = Env::new_with_config(soroban_sdk::testutils::EnvTestConfig {
        capture_snapshot_at_drop: false,
    });
    e.ledger().with_mut(|l| {
        l.sequence_number = c.seq;
        l.timestamp = 1_700_000_000;
        l.min_temp_entry_ttl = c.min_temp;
        l.min_persistent_entry_ttl = c.min_persistent;
        l.max_entry_ttl = c.max_ttl;
    });
    e.cost_estimate().budget().reset_unlimited();
    e
}

pub fn set_seq(e: &Env, seq: u32) {
    e.ledger().with_mut(|l| l.sequence_number = seq);
}

pub fn seq(e: &Env) -> u32 {
    e.ledger().sequence()
}

/// Model names ("a", "b", …) ↦ generated addresses, stable within a run.
pub struct Names {
    pub fwd: BTreeMap<String, Address>,
}

impl Names {
    pub fn new(e: &Env, names: &[&str]) -> Self {
        let mut fwd = BTreeMap::new();
        for n in names {
            fwd.insert(n.to_string(), Address::generate(e));
        }
        Names { fwd }
    }
    pub fn insert(&mut self, n: &str, a: Address) {
        self.fwd.insert(n.to_string(), a);
    }
    pub fn get(&self, n: &str) -> Address {
        self.fwd.get(n).unwrap_or_else(|| panic!("unknown name {n}")).clone()
    }
    pub fn name_of(&self, a: &Address) -> String {
        for (k, v) in &self.fwd {
            if v == a {
                return k.clone();
            }
        }
        "?".to_string()
    }
    pub fn opt_name(&self, a: &Option<Address>) -> String {
        match a {
            Some(a) => self.name_of(a),
            None => "none".to_string(),
        }
    }
}

// ---------------------------------------------------------------------------------------------
// authorization: exactly the given set of addresses authorizes exactly this invocation tree
// ---------------------------------------------------------------------------------------------

/// Owned description of an invocation (contract, function, args, sub-invocations).
#[derive(Clone)]
pub struct Inv {
    pub contract: Address,
    pub fn_name: String,
    pub args: SVec<Val>,
    pub subs: Vec<Inv>,
}

impl Inv {
    pub fn new(contract: &Address, fn_name: &str, args: SVec<Val>) -> Self {
        Inv { contract: contract.clone(), fn_name: fn_name.to_string(), args, subs: vec![] }
    }
    pub fn with_subs(mut self, subs: Vec<Inv>) -> Self {
        self.subs = subs;
        self
    }
}

fn with_mock_invoke<R>(inv: &Inv, f: &mut dyn FnMut(&MockAuthInvoke) -> R) -> R {
    // builds the borrowed MockAuthInvoke tree recursively
    fn go<R>(
        inv: &Inv,
        subs_done: &mut Vec<MockAuthInvoke<'_>>,
        idx: usize,
        f: &mut dyn FnMut(&MockAuthInvoke) -> R,
    ) -> R {
        if idx == inv.subs.len() {
            let m = MockAuthInvoke {
                contract: &inv.contract,
                fn_name: &inv.fn_name,
                args: inv.args.clone(),
                sub_invokes: unsafe { std::mem::transmute::<&[MockAuthInvoke<'_>], &[MockAuthInvoke<'_>]>(subs_done.as_slice()) },
            };
            return f(&m);
        }
        // build sub idx, then continue
        let sub = &inv.subs[idx];
        let mut result: Option<R> = None;
        let mut inner = |m: &MockAuthInvoke| {
            // SAFETY: `m` outlives the continuation below, which runs inside this closure.
            let m2: MockAuthInvoke<'_> = MockAuthInvoke {
                contract: m.contract,
                fn_name: m.fn_name,
                args: m.args.clone(),
                sub_invokes: m.sub_invokes,
            };
            let m2: MockAuthInvoke<'static> = unsafe { std::mem::transmute(m2) };
            subs_done.push(m2);
            result = Some(go(inv, subs_done, idx + 1, f));
            subs_done.pop();
        };
        with_mock_invoke(sub, &mut inner);
        result.unwrap()
    }
    let mut v: Vec<MockAuthInvoke<'_>> = Vec::new();
    go(inv, &mut v, 0, f)
}

/// Installs mock authorizations: each `(address, invocation tree)` pair is authorized, nothing else.
/// Passing an empty list clears all authorizations.
pub fn set_auths(e: &Env, auths: &[(Address, Inv)]) {
    fn rec(e: &Env, auths: &[(Address, Inv)], idx: usize, acc: &mut Vec<MockAuth<'static>>) {
        if idx == auths.len() {
            e.mock_auths(acc.as_slice());
            return;
        }
        let (addr, inv) = &auths[idx];
        let mut k = |m: &MockAuthInvoke| {
            let ma = MockAuth { address: addr, invoke: m };
            let ma: MockAuth<'static> = unsafe { std::mem::transmute(ma) };
            acc.push(ma);
            rec(e, auths, idx + 1, acc);
            acc.pop();
        };
        with_mock_invoke(inv, &mut k);
    }
    let mut acc = Vec::new();
    rec(e, auths, 0, &mut acc);
}

/// Every address in `who` authorizes the same invocation.
pub fn set_auth_same(e: &Env, who: &[Address], inv: &Inv) {
    let v: Vec<(Address, Inv)> = who.iter().map(|a| (a.clone(), inv.clone())).collect();
    set_auths(e, &v);
}

pub fn no_auth(e: &Env) {
    e.mock_auths(&[]);
}

pub fn args<T: IntoVal<Env, SVec<Val>>>(e: &Env, t: T) -> SVec<Val> {
    t.into_val(e)
}

// ---------------------------------------------------------------------------------------------
// JSON helpers for ops
// ---------------------------------------------------------------------------------------------

pub fn s<'a>(op: &'a Value, k: &str) -> &'a str {
    op.get(k).and_then(|v| v.as_str()).unwrap_or_else(|| panic!("op field {k} (string) missing in {op}"))
}

pub fn n(op: &Value, k: &str) -> i64 {
    op.get(k).and_then(|v| v.as_i64()).unwrap_or_else(|| panic!("op field {k} (int) missing in {op}"))
}

pub fn strs(op: &Value, k: &str) -> Vec<String> {
    op.get(k)
        .and_then(|v| v.as_array())
        .unwrap_or_else(|| panic!("op field {k} (array) missing in {op}"))
        .iter()
        .map(|x| x.as_str().expect("string").to_string())
        .collect()
}

pub fn auth_addrs(op: &Value, names: &Names) -> Vec<Address> {
    strs(op, "auth").iter().map(|n| names.get(n)).collect()
}

/// Result classification of a `try_` client call: "ok" or "fail" (+ error code when a contract
/// error was raised).  A panic inside the code under test is data, never a harness failure.
pub fn res_of<T, E1: core::fmt::Debug, E2: core::fmt::Debug>(
    r: &Result<Result<T, E1>, Result<soroban_sdk::Error, E2>>,
) -> (&'static str, i64) {
    match r {
        Ok(Ok(_)) => ("ok", 0),
        Ok(Err(_)) => ("fail", -2),
        Err(Ok(err)) => {
            let code = if err.is_type(soroban_sdk::xdr::ScErrorType::Contract) { err.get_code() as i64 } else { -1 };
            ("fail", code)
        }
        Err(Err(_)) => ("fail", -3),
    }
}

/// i128 → JSON.  Small values as numbers, anything beyond ±2^30 as decimal strings.
pub fn jint(v: i128) -> Value {
    if v.abs() < (1 << 30) {
        json!(v as i64)
    } else {
        json!(v.to_string())
    }
}

/// The i128-edge amount regime: the model number n * FINE + m (|m| < FINE / 2) stands for n * 2^124 + m, an
/// embedding that preserves order and sums as long as the small parts stay below FINE / 2 in absolute value;
/// i128::MAX = 2^127 - 1 is AMAX = 8 * FINE - 1.
pub const FINE: i64 = 1000;
pub const AMAX: i64 = 8 * FINE - 1;
pub fn fine_amount(units: i64) -> i128 {
    let n = (units + FINE / 2).div_euclid(FINE);
    let m = (units + FINE / 2).rem_euclid(FINE) - FINE / 2;
    ((n as i128) << 124).wrapping_add(m as i128)
}
/// the same embedding for unsigned 128-bit values (voting units): u128::MAX = 16 * FINE - 1
pub fn fine_amount_u(units: i64) -> u128 {
    let n = (units + FINE / 2).div_euclid(FINE);
    let m = (units + FINE / 2).rem_euclid(FINE) - FINE / 2;
    ((n as u128).wrapping_shl(124) * if n >= 16 { 0 } else { 1 }).wrapping_add(m as i128 as u128)
}
pub fn fine_units_u(v: u128, bad: i64) -> Value {
    let n = (v >> 124) + ((v >> 123) & 1);
    let base = if n >= 16 { 0u128 } else { n << 124 };
    let m = v.wrapping_sub(base) as i128;
    if m.abs() < (FINE / 2) as i128 {
        json!(n as i64 * FINE + m as i64)
    } else {
        json!(bad)
    }
}

/// distance of a model number of the i128-edge regime from the nearest whole unit; a driver ends a run in which
/// this grows (the embedding is exact only while small parts stay far below FINE / 2)
pub fn fine_small_part(x: i64) -> i64 {
    ((x + FINE / 2).rem_euclid(FINE) - FINE / 2).abs()
}

/// inverse of `fine_amount`; values off the lattice are logged as `bad`
pub fn fine_units(v: i128, bad: i64) -> Value {
    let n = (v >> 124) + ((v >> 123) & 1);
    let m = v.wrapping_sub(n.wrapping_mul(1i128 << 124));
    if m.abs() < (FINE / 2) as i128 {
        json!(n as i64 * FINE + m as i64)
    } else {
        json!(bad)
    }
}

/// Picks a random element.
pub fn pick<'a, T>(r: &mut StdRng, xs: &'a [T]) -> &'a T {
    &xs[r.gen_range(0..xs.len())]
}

/// Random subset of the given names.
pub fn subset(r: &mut StdRng, xs: &[&str]) -> Vec<String> {
    xs.iter().filter(|_| r.gen_bool(0.5)).map(|x| x.to_string()).collect()
}

// ---------------------------------------------------------------------------------------------
// events and ScVal → JSON (added for the token models; purely additive)
// ---------------------------------------------------------------------------------------------
use soroban_sdk::{testutils::Events as _, xdr, TryFromVal};

fn parts_to_i128(hi: i64, lo: u64) -> i128 {
    ((hi as i128) << 64) | (lo as i128)
}

/// Generic ScVal → JSON: addresses become model names (or "?"), integers go through `conv`
/// (so that a model can divide by its amount scale), maps become objects keyed by symbol/string.
pub fn scval_json(e: &Env, names: &Names, v: &xdr::ScVal, conv: &dyn Fn(i128) -> Value) -> Value {
    use xdr::ScVal::*;
    match v {
        Bool(b) => json!(b),
        Void => Value::Null,
        U32(x) => json!(x),
        I32(x) => json!(x),
        U64(x) => json!(x),
        I64(x) => json!(x),
        U128(p) => conv(((p.hi as u128) << 64 | p.lo as u128) as i128),
        I128(p) => conv(parts_to_i128(p.hi, p.lo)),
        Symbol(s) => json!(s.to_utf8_string_lossy()),
        String(s) => json!(s.to_utf8_string_lossy()),
        Bytes(b) => json!(b.iter().map(|x| format!("{x:02x}")).collect::<std::string::String>()),
        Address(_) => {
            let a = soroban_sdk::Address::try_from_val(e, v).unwrap();
            json!(names.name_of(&a))
        }
        Vec(Some(xs)) => Value::Array(xs.iter().map(|x| scval_json(e, names, x, conv)).collect()),
        Vec(None) => json!([]),
        Map(Some(m)) => {
            let mut o = JMap::new();
            for ent in m.iter() {
                let k = match scval_json(e, names, &ent.key, conv) {
                    Value::String(s) => s,
                    other => other.to_string(),
                };
                o.insert(k, scval_json(e, names, &ent.val, conv));
            }
            Value::Object(o)
        }
        Map(None) => json!({}),
        other => json!(format!("{other:?}")),
    }
}

/// Contract events of the last invocation emitted by `contract`: (topics as JSON, data as JSON).
pub fn events_of(e: &Env, names: &Names, contract: &Address, conv: &dyn Fn(i128) -> Value) -> Vec<(Vec<Value>, Value)> {
    let all = e.events().all();
    let mine = all.filter_by_contract(contract);
    let mut out = std::vec::Vec::new();
    for ev in mine.events() {
        let xdr::ContractEventBody::V0(b) = &ev.body;
        let topics = b.topics.iter().map(|t| scval_json(e, names, t, conv)).collect();
        out.push((topics, scval_json(e, names, &b.data, conv)));
    }
    out
}


/// Lets time pass between two calls of a random history (models whose properties do not mention time): a value
/// that a change moved from persistent / instance storage into an expiring temporary entry is gone afterwards,
/// and the getters judged after the next call reveal it.  `by` stays far below the harness's persistent TTLs.
static LONG_JUMP_USED: std::sync::atomic::AtomicBool = std::sync::atomic::AtomicBool::new(false);

/// At most once per run (about one run in three for runs of 40-60 calls): 600 000 ledgers - more than the 30 days
/// (518 400 ledgers) to which the library extends its entries - pass between two calls.  A value that must stay
/// for good but was given a long-lived *temporary* entry is gone afterwards.  Persistent and instance entries of
/// the harness environments start with 1 000 000 ledgers and survive one such jump (a second one would archive
/// them, which is outside the model).
pub fn time_passes_long(e: &Env, r: &mut StdRng) {
    if !LONG_JUMP_USED.load(std::sync::atomic::Ordering::Relaxed) && r.gen_ratio(1, 120) {
        LONG_JUMP_USED.store(true, std::sync::atomic::Ordering::Relaxed);
        set_seq(e, seq(e) + 600_000);
    }
}

pub fn time_passes(e: &Env, r: &mut StdRng, by: u32) {
    if r.gen_ratio(1, 20) {
        set_seq(e, seq(e) + by);
    }
}
