//! Binding of spec/TimelockController.tla (C09): the REAL timelock-controller example deployed as
//! its own admin.
//!
//! No authorization is mocked.  Every authorization entry is a genuine
//! `SorobanAuthorizationEntry` installed with `Env::set_auths`:
//! * the controller's own entry carries the crafted `Vec<OperationMeta>` as its signature, so the
//!   host runs the controller's `__check_auth` on it;
//! * accounts p, x, s are instances of an always-yes custom-account contract, n of an always-no one
//!   (both written here); an account "authorizes" a call iff an entry for its address with exactly
//!   that invocation as root is attached.
//! `__check_auth` is also entered directly (`try_invoke_contract_check_auth`) with crafted contexts.
#![allow(dead_code)]
use soroban_sdk::{
    auth::{Context, ContractContext, ContractExecutable, CreateContractHostFnContext},
    testutils::MockAuthInvoke,
    xdr::{ScVal, SorobanAddressCredentials, SorobanAuthorizationEntry, SorobanCredentials},
    Address, BytesN, Env, IntoVal, Symbol, TryFromVal, Val, Vec as SVec,
};
use stellar_governance::timelock::{OperationState, TimelockError};
use verif_harness::*;

#[path = "/repo/examples/timelock-controller/src/contract.rs"]
mod controller;
use controller::{OperationMeta, TimelockController, TimelockControllerClient};

mod accounts {
    use soroban_sdk::{contract, contractimpl, Val};

    /// Custom account that accepts every authorization request made with an attached entry.
    #[contract]
    pub struct YesAccount;
    #[contractimpl]
    impl YesAccount {
        #[allow(non_snake_case)]
        pub fn __check_auth(_signature_payload: Val, _signatures: Val, _auth_context: Val) {}
    }

    /// Custom account that refuses every authorization request.
    #[contract]
    pub struct NoAccount;
    #[contractimpl]
    impl NoAccount {
        #[allow(non_snake_case)]
        pub fn __check_auth(_signature_payload: Val, _signatures: Val, _auth_context: Val) {
            panic!("account refuses")
        }
    }
}

mod target {
    use soroban_sdk::{contract, contractimpl, Env, Symbol};
    #[contract]
    pub struct Target;
    #[contractimpl]
    impl Target {
        pub fn poke(e: &Env, tag: u32, x: u32) -> u32 {
            let k = Symbol::new(e, "n");
            let c: u32 = e.storage().persistent().get(&k).unwrap_or(0) + 1;
            e.storage().persistent().set(&k, &c);
            tag + x
        }
        pub fn update_delay(_e: &Env, _d: u32) {}
    }
}

const NOW0: u32 = 10;
const ACCTS: [&str; 4] = ["p", "x", "n", "s"];
const ROLES: [&str; 3] = ["proposer", "executor", "canceller"];
/// (operation, call, predecessor, salt) — must agree with OpTab of MC_TimelockController.tla; the
/// table is sent with every reset event and the trace specification works from that copy.
const OPTAB: [(&str, &str, &str, u8); 12] = [
    ("U0", "ud0", "none", 0),
    ("U0s", "ud0", "none", 1),
    ("U0p", "ud0", "E", 0),
    ("U3", "ud3", "none", 0),
    ("GX", "grXs", "none", 0),
    ("GP", "grPs", "none", 0),
    ("RX", "rvXx", "none", 0),
    ("RP", "rvPp", "none", 0),
    ("SR", "sra", "none", 0),
    ("TA", "tar", "none", 0),
    ("RN", "rna", "none", 0),
    ("E", "ext", "none", 0),
];
const ADMIN_CALLS: [&str; 9] = ["ud0", "ud3", "grXs", "grPs", "rvXx", "rvPp", "sra", "tar", "rna"];

struct Sys {
    e: Env,
    c: Address,
    target: Address,
    names: Names,
    ids: Vec<(String, BytesN<32>)>,
    nonce: i64,
    selfprop: bool,
    nocancel: bool,
}

fn salt_bytes(e: &Env, s: i64) -> BytesN<32> {
    BytesN::from_array(e, &[s as u8; 32])
}

impl Sys {
    /// `selfprop`: the controller itself is among the proposers (hence cancellers) it is constructed with -
    /// a state an operating controller reaches by a matured self-administration grant_role(controller, ...)
    /// `nocancel`: before the judged history starts the only canceller gives the role up, so that NOBODY holds it
    fn new(execs: &[String], min0: u32, selfprop: bool, nocancel: bool) -> Sys {
        let e = new_env(&LedgerCfg { seq: NOW0, ..Default::default() });
        let mut names = Names { fwd: Default::default() };
        for a in ACCTS {
            let addr = if a == "n" { e.register(accounts::NoAccount, ()) } else { e.register(accounts::YesAccount, ()) };
            names.insert(a, addr);
        }
        let target = e.register(target::Target, ());
        let mut ex = SVec::<Address>::new(&e);
        for a in execs {
            ex.push_back(names.get(a));
        }
        let c = if selfprop {
            use soroban_sdk::testutils::Address as _;
            let at = Address::generate(&e);
            e.register_at(&at, TimelockController, (min0, soroban_sdk::vec![&e, names.get("p"), at.clone()], ex, None::<Address>))
        } else {
            e.register(TimelockController, (min0, soroban_sdk::vec![&e, names.get("p")], ex, None::<Address>))
        };
        names.insert("c", c.clone());
        let mut sys = Sys { e, c, target, names, ids: vec![], nonce: 1, selfprop, nocancel: nocancel && !selfprop };
        if sys.nocancel {
            let (role, p, c2) = (Symbol::new(&sys.e, "canceller"), sys.names.get("p"), sys.c.clone());
            let entry = sys.account_entry("p", &c2, "renounce_role", args(&sys.e, (role.clone(), p.clone())));
            sys.e.set_auths(&[entry]);
            sys.client().renounce_role(&role, &p);
            sys.e.set_auths(&[]);
        }
        // predecessors first
        for pass in 0..2 {
            for (name, _, pred, _) in OPTAB.iter() {
                if (*pred == "none") == (pass == 0) {
                    let id = sys.hash_of(name);
                    sys.ids.push((name.to_string(), id));
                }
            }
        }
        sys
    }

    fn client(&self) -> TimelockControllerClient<'_> {
        TimelockControllerClient::new(&self.e, &self.c)
    }

    fn id(&self, name: &str) -> BytesN<32> {
        self.ids.iter().find(|(n, _)| n == name).unwrap_or_else(|| panic!("unknown op {name}")).1.clone()
    }

    fn pred_bytes(&self, pred: &str) -> BytesN<32> {
        if pred == "none" {
            BytesN::from_array(&self.e, &[0u8; 32])
        } else {
            self.id(pred)
        }
    }

    /// (contract, function, arguments) of a call name
    fn call(&self, k: &str) -> (Address, Symbol, SVec<Val>) {
        let e = &self.e;
        let sym = |s: &str| Symbol::new(e, s);
        let a = |n: &str| self.names.get(n);
        let c = self.c.clone();
        match k {
            "ud0" => (c, sym("update_delay"), args(e, (0u32,))),
            "ud3" => (c, sym("update_delay"), args(e, (3u32,))),
            "grXs" => (c.clone(), sym("grant_role"), args(e, (a("s"), sym("executor"), c))),
            "grPs" => (c.clone(), sym("grant_role"), args(e, (a("s"), sym("proposer"), c))),
            "rvXx" => (c.clone(), sym("revoke_role"), args(e, (a("x"), sym("executor"), c))),
            "rvPp" => (c.clone(), sym("revoke_role"), args(e, (a("p"), sym("proposer"), c))),
            "sra" => (c, sym("set_role_admin"), args(e, (sym("proposer"), sym("canceller")))),
            "tar" => (c, sym("transfer_admin_role"), args(e, (a("s"), 5000u32))),
            "rna" => (c, sym("renounce_admin"), args(e, ())),
            "ext" => (self.target.clone(), sym("poke"), args(e, (7u32, 77u32))),
            // only as a crafted context: the same function on another contract
            "foreign" => (self.target.clone(), sym("update_delay"), args(e, (0u32,))),
            k => panic!("call {k}"),
        }
    }

    fn op_fields(&self, name: &str) -> (Address, Symbol, SVec<Val>, BytesN<32>, BytesN<32>) {
        let (_, k, pred, salt) = OPTAB.iter().find(|o| o.0 == name).unwrap_or_else(|| panic!("unknown op {name}"));
        let (t, f, a) = self.call(k);
        (t, f, a, self.pred_bytes(pred), salt_bytes(&self.e, *salt as i64))
    }

    fn hash_of(&self, name: &str) -> BytesN<32> {
        let (t, f, a, p, s) = self.op_fields(name);
        self.e.set_auths(&[]);
        self.client().hash_operation(&t, &f, &a, &p, &s)
    }

    // -------------------------------------------------------------------------------------
    // genuine authorization entries
    // -------------------------------------------------------------------------------------
    fn entry(&mut self, addr: &Address, signature: ScVal, root: &MockAuthInvoke) -> SorobanAuthorizationEntry {
        self.nonce += 1;
        SorobanAuthorizationEntry {
            root_invocation: root.into(),
            credentials: SorobanCredentials::Address(SorobanAddressCredentials {
                address: addr.try_into().unwrap(),
                nonce: self.nonce,
                signature_expiration_ledger: seq(&self.e) + 1000,
                signature,
            }),
        }
    }

    /// entry by which account `who` authorizes exactly `contract.fn_name(args)`
    fn account_entry(&mut self, who: &str, contract: &Address, fn_name: &str, a: SVec<Val>) -> SorobanAuthorizationEntry {
        let addr = self.names.get(who);
        self.entry(&addr, ScVal::Void, &MockAuthInvoke { contract, fn_name, args: a, sub_invokes: &[] })
    }

    fn metas(&self, op: &Value) -> SVec<OperationMeta> {
        let e = &self.e;
        let mut v = SVec::new(e);
        for m in op["metas"].as_array().expect("metas") {
            let ex = s(m, "exec");
            v.push_back(OperationMeta {
                predecessor: self.pred_bytes(s(m, "pred")),
                salt: salt_bytes(e, n(m, "salt")),
                executor: if ex == "none" { None } else { Some(self.names.get(ex)) },
            });
        }
        v
    }

    /// entries by which every account of `xauth` authorizes the executor tuple of every
    /// (context, descriptor) pair
    fn executor_entries(&mut self, op: &Value, ctxs: &[String]) -> Vec<SorobanAuthorizationEntry> {
        let mut out = vec![];
        let metas = op["metas"].as_array().expect("metas").clone();
        let xskip = n(op, "xskip") as usize;
        for who in strs(op, "xauth") {
            for (idx, (k, m)) in ctxs.iter().zip(metas.iter()).enumerate() {
                if k == "create" || idx + 1 == xskip {
                    continue;
                }
                let (t, f, a) = self.call(k);
                let tuple: SVec<Val> = (
                    Symbol::new(&self.e, "execute_op"),
                    t,
                    f,
                    a,
                    self.pred_bytes(s(m, "pred")),
                    salt_bytes(&self.e, n(m, "salt")),
                )
                    .into_val(&self.e);
                let c = self.c.clone();
                out.push(self.account_entry(&who, &c, "__check_auth", tuple));
            }
        }
        out
    }

    fn obs(&self) -> Value {
        let e = &self.e;
        e.set_auths(&[]);
        let cl = self.client();
        let min = cl.try_get_min_delay().ok().and_then(|r| r.ok()).map(|v| v as i64).unwrap_or(-1);
        let admin = self.names.opt_name(&cl.get_admin());
        let mut roles = vec![];
        for a in ACCTS.iter().chain(["c"].iter()) {
            for r in ROLES {
                if cl.has_role(&self.names.get(a), &Symbol::new(e, r)).is_some() {
                    roles.push(json!([a, r]));
                }
            }
        }
        let mut radm = JMap::new();
        for r in ROLES {
            let ra = cl.get_role_admin(&Symbol::new(e, r));
            let name = match ra {
                None => "none".to_string(),
                Some(sy) => ROLES.iter().find(|x| Symbol::new(e, x) == sy).map(|x| x.to_string()).unwrap_or("?".into()),
            };
            radm.insert(r.to_string(), json!(name));
        }
        let mut ops = JMap::new();
        for (name, id) in &self.ids {
            let st = match cl.try_get_operation_state(id).ok().and_then(|r| r.ok()) {
                Some(OperationState::Unset) => "Unset",
                Some(OperationState::Waiting) => "Waiting",
                Some(OperationState::Ready) => "Ready",
                Some(OperationState::Done) => "Done",
                None => "getter failed",
            };
            ops.insert(name.clone(), json!(st));
        }
        json!({"min": min, "admin": admin, "roles": roles, "radm": Value::Object(radm), "ops": Value::Object(ops)})
    }

    /// ready ledger stored for an operation (public getter), for the driver's state feedback
    fn ledger_of(&self, name: &str) -> i64 {
        self.e.set_auths(&[]);
        self.client().try_get_operation_ledger(&self.id(name)).ok().and_then(|r| r.ok()).map(|v| v as i64).unwrap_or(-1)
    }

    fn step(&mut self, op: &Value) -> Value {
        set_seq(&self.e, seq(&self.e) + n(op, "dt") as u32);
        let now = seq(&self.e);
        let kind = s(op, "op").to_string();
        let c = self.c.clone();
        let (res, code): (&str, i64) = match kind.as_str() {
            "schedule" => {
                let (t, f, a, p, sl) = self.op_fields(s(op, "id"));
                let delay = n(op, "delay") as u32;
                let who = self.names.get(s(op, "who"));
                let mut entries = vec![];
                if op["auth"].as_bool().unwrap() {
                    let av = args(&self.e, (t.clone(), f.clone(), a.clone(), p.clone(), sl.clone(), delay, who.clone()));
                    entries.push(self.account_entry(s(op, "who"), &c, "schedule_op", av));
                }
                self.e.set_auths(&entries);
                res_of(&self.client().try_schedule_op(&t, &f, &a, &p, &sl, &delay, &who))
            }
            "cancel" => {
                let id = self.id(s(op, "id"));
                let who = self.names.get(s(op, "who"));
                let mut entries = vec![];
                if op["auth"].as_bool().unwrap() {
                    let av = args(&self.e, (id.clone(), who.clone()));
                    entries.push(self.account_entry(s(op, "who"), &c, "cancel_op", av));
                }
                self.e.set_auths(&entries);
                res_of(&self.client().try_cancel_op(&id, &who))
            }
            "execute" => {
                let (t, f, a, p, sl) = self.op_fields(s(op, "id"));
                let who: Option<Address> = if s(op, "who") == "none" { None } else { Some(self.names.get(s(op, "who"))) };
                let mut entries = vec![];
                if op["auth"].as_bool().unwrap() && who.is_some() {
                    let av = args(&self.e, (t.clone(), f.clone(), a.clone(), p.clone(), sl.clone(), who.clone()));
                    entries.push(self.account_entry(s(op, "who"), &c, "execute_op", av));
                }
                self.e.set_auths(&entries);
                res_of(&self.client().try_execute_op(&t, &f, &a, &p, &sl, &who))
            }
            "admin" => {
                let k = s(op, "call");
                let (t, _f, a) = self.call(k);
                assert!(t == c, "admin call must target the controller");
                let mut ctxs = vec![k.to_string()];
                if s(op, "sub") != "none" {
                    ctxs.push(s(op, "sub").to_string());
                }
                let mut entries = self.executor_entries(op, &ctxs);
                if op["entry"].as_bool().unwrap() {
                    // the controller's own authorization: root = exactly this invocation, signature =
                    // the attacker-chosen descriptor vector
                    let sig_val: Val = self.metas(op).into_val(&self.e);
                    let sig = ScVal::try_from_val(&self.e, &sig_val).expect("scval");
                    let fname = fn_str(k);
                    let en = if s(op, "sub") != "none" {
                        let (st, _sf, sa) = self.call(s(op, "sub"));
                        let sub = [MockAuthInvoke { contract: &st, fn_name: fn_str(s(op, "sub")), args: sa, sub_invokes: &[] }];
                        self.entry(&c, sig, &MockAuthInvoke { contract: &c, fn_name: fname, args: a.clone(), sub_invokes: &sub })
                    } else {
                        self.entry(&c, sig, &MockAuthInvoke { contract: &c, fn_name: fname, args: a.clone(), sub_invokes: &[] })
                    };
                    entries.push(en);
                }
                self.e.set_auths(&entries);
                // the admin function itself, invoked directly through the contract's public interface
                let cl = self.client();
                let nm = |x: &str| self.names.get(x);
                let sy = |x: &str| Symbol::new(&self.e, x);
                match k {
                    "ud0" => res_of(&cl.try_update_delay(&0)),
                    "ud3" => res_of(&cl.try_update_delay(&3)),
                    "grXs" => res_of(&cl.try_grant_role(&nm("s"), &sy("executor"), &c)),
                    "grPs" => res_of(&cl.try_grant_role(&nm("s"), &sy("proposer"), &c)),
                    "rvXx" => res_of(&cl.try_revoke_role(&nm("x"), &sy("executor"), &c)),
                    "rvPp" => res_of(&cl.try_revoke_role(&nm("p"), &sy("proposer"), &c)),
                    "sra" => res_of(&cl.try_set_role_admin(&sy("proposer"), &sy("canceller"))),
                    "tar" => res_of(&cl.try_transfer_admin_role(&nm("s"), &5000u32)),
                    "rna" => res_of(&cl.try_renounce_admin()),
                    k => panic!("admin call {k}"),
                }
            }
            "chk" => {
                let ctxs = strs(op, "ctxs");
                let entries = self.executor_entries(op, &ctxs);
                let e = &self.e;
                let mut cv: SVec<Context> = SVec::new(e);
                for k in &ctxs {
                    if k == "create" {
                        cv.push_back(Context::CreateContractHostFn(CreateContractHostFnContext {
                            executable: ContractExecutable::Wasm(BytesN::from_array(e, &[7u8; 32])),
                            salt: BytesN::from_array(e, &[0u8; 32]),
                        }));
                    } else {
                        let (t, f, a) = self.call(k);
                        cv.push_back(Context::Contract(ContractContext { contract: t, fn_name: f, args: a }));
                    }
                }
                e.set_auths(&entries);
                let sig: Val = self.metas(op).into_val(e);
                let payload = BytesN::from_array(e, &[(self.nonce % 251) as u8; 32]);
                match e.try_invoke_contract_check_auth::<TimelockError>(&c, &payload, sig, &cv) {
                    Ok(()) => ("ok", 0),
                    Err(Ok(err)) => ("fail", err as i64),
                    Err(Err(_)) => ("fail", -1),
                }
            }
            k => panic!("op {k}"),
        };
        json!({"op": op, "now": now, "res": res, "err": code, "obs": self.obs()})
    }
}

fn fn_str(k: &str) -> &'static str {
    match k {
        "ud0" | "ud3" | "foreign" => "update_delay",
        "grXs" | "grPs" => "grant_role",
        "rvXx" | "rvPp" => "revoke_role",
        "sra" => "set_role_admin",
        "tar" => "transfer_admin_role",
        "rna" => "renounce_admin",
        "ext" => "poke",
        k => panic!("call {k}"),
    }
}

fn reset_event(sys: &Sys, execs: &[String], min0: u32) -> Value {
    let mut optab = JMap::new();
    for (name, call, pred, salt) in OPTAB.iter() {
        optab.insert(name.to_string(), json!({"call": call, "pred": pred, "salt": salt}));
    }
    json!({"op": {"op": "reset", "id": "none", "call": "none", "who": "none", "auth": false, "delay": 0, "entry": false,
                  "metas": [], "sub": "none", "ctxs": [], "xauth": [], "xskip": 0, "dt": 0, "execs": execs, "min0": min0, "selfprop": sys.selfprop, "nocancel": sys.nocancel},
           "optab": Value::Object(optab), "deny": ["n"], "now": NOW0, "res": "ok", "err": 0, "obs": sys.obs()})
}

fn blank(kind: &str, x0: &[String], m0: u32, dt: i64) -> Value {
    json!({"op": kind, "id": "none", "call": "none", "who": "none", "auth": false, "delay": 0, "entry": false,
           "metas": [], "sub": "none", "ctxs": [], "xauth": [], "xskip": 0, "x0": x0, "m0": m0, "dt": dt})
}

fn main() {
    match cli() {
        Mode::Exec { input, output } => {
            let mut t = Trace::create(&output);
            for b in read_behaviours(&input) {
                // configuration: from the replay file, else from the ops themselves (field x0)
                let execs: Vec<String> = match b.cfg.get("execs").and_then(|v| v.as_array()) {
                    Some(a) => a.iter().map(|x| x.as_str().unwrap().to_string()).collect(),
                    None => b.ops.first().map(|o| strs(o, "x0")).unwrap_or_default(),
                };
                let min0 = match b.cfg.get("min0").and_then(|v| v.as_u64()) {
                    Some(m) => m,
                    None => b.ops.first().and_then(|o| o.get("m0")).and_then(|v| v.as_u64()).unwrap_or(1),
                } as u32;
                let selfprop = b.cfg.get("selfprop").and_then(|v| v.as_bool()).unwrap_or(false);
                let nocancel = b.cfg.get("nocancel").and_then(|v| v.as_bool()).unwrap_or(false);
                let mut sys = Sys::new(&execs, min0, selfprop, nocancel);
                t.reset(reset_event(&sys, &execs, min0));
                for op in &b.ops {
                    let ev = sys.step(op);
                    t.step(ev);
                }
            }
            t.finish();
        }
        Mode::Drive { seed, runs, len, output } => {
            let mut t = Trace::create(&output);
            let mut r = StdRng::seed_from_u64(seed);
            for run in 0..runs {
                let execs: Vec<String> = match run % 3 {
                    0 => vec![],
                    1 => vec!["x".into()],
                    _ => vec!["x".into(), "n".into()],
                };
                let min0 = *pick(&mut r, &[0u32, 1, 1, 2]);
                let selfprop = (run / 3) % 4 == 3;
                let mut sys = Sys::new(&execs, min0, selfprop, (run / 3) % 4 == 1);
                let mut last = reset_event(&sys, &execs, min0);
                t.reset(last.clone());
                for _ in 0..len {
                    let obs = last["obs"].clone();
                    let min = obs["min"].as_i64().unwrap_or(0);
                    let state = |name: &str| obs["ops"][name].as_str().unwrap_or("?").to_string();
                    let holders = |role: &str| -> Vec<String> {
                        obs["roles"].as_array().unwrap().iter().filter(|p| p[1] == role).map(|p| p[0].as_str().unwrap().to_string()).collect()
                    };
                    let names: Vec<&str> = OPTAB.iter().map(|o| o.0).collect();
                    let by_state = |st: &str| -> Vec<&str> { names.iter().copied().filter(|x| state(x) == st).collect() };
                    let executors = holders("executor");
                    let dt = if r.gen_ratio(1, 25) { 3000 } else { *pick(&mut r, &[0i64, 0, 1, 1, 2, 3]) };
                    let kind = *pick(&mut r, &["schedule", "schedule", "schedule", "schedule", "cancel", "execute", "admin", "admin", "admin", "admin", "admin", "chk"]);
                    // an admin attempt is most telling when some operation is pending
                    let pend_any = names.iter().any(|x| *x != "E" && (state(x) == "Ready" || state(x) == "Waiting"));
                    let kind = if (kind == "admin" || kind == "chk") && !pend_any && r.gen_bool(0.7) { "schedule" } else { kind };
                    let mut op = blank(kind, &execs, min0, dt);
                    match kind {
                        "schedule" => {
                            let unset = by_state("Unset");
                            op["id"] = json!(if !unset.is_empty() && r.gen_bool(0.85) { *pick(&mut r, &unset) } else { *pick(&mut r, &names) });
                            let props = holders("proposer");
                            op["who"] = json!(if !props.is_empty() && r.gen_bool(0.85) { pick(&mut r, &props).as_str() } else { *pick(&mut r, &ACCTS) });
                            op["auth"] = json!(r.gen_bool(0.85) && op["who"] != "c");
                            op["delay"] = json!(if r.gen_bool(0.8) { min + r.gen_range(0..2) } else { r.gen_range(0..4) });
                        }
                        "cancel" => {
                            let mut pend = by_state("Waiting");
                            pend.extend(by_state("Ready"));
                            op["id"] = json!(if !pend.is_empty() && r.gen_bool(0.8) { *pick(&mut r, &pend) } else { *pick(&mut r, &names) });
                            let cs = holders("canceller");
                            op["who"] = json!(if !cs.is_empty() && r.gen_bool(0.7) { pick(&mut r, &cs).as_str() } else { *pick(&mut r, &ACCTS) });
                            op["auth"] = json!(r.gen_bool(0.8) && op["who"] != "c");
                        }
                        "execute" => {
                            let ready = by_state("Ready");
                            op["id"] = json!(if r.gen_bool(0.6) { "E" } else if !ready.is_empty() { *pick(&mut r, &ready) } else { *pick(&mut r, &names) });
                            op["who"] = json!(if !executors.is_empty() && r.gen_bool(0.7) {
                                pick(&mut r, &executors).as_str()
                            } else {
                                *pick(&mut r, &["none", "none", "p", "x", "n", "s"])
                            });
                            op["auth"] = json!(r.gen_bool(0.8));
                        }
                        _ => {
                            // the honest descriptor of a (preferably ready) operation, then mutated
                            let mut ready: Vec<&str> = by_state("Ready").into_iter().filter(|x| *x != "E").collect();
                            let waiting: Vec<&str> = by_state("Waiting").into_iter().filter(|x| *x != "E").collect();
                            let admin_ops: Vec<&str> = names.iter().copied().filter(|x| *x != "E").collect();
                            if ready.is_empty() && !waiting.is_empty() {
                                // move to ready-1 / ready / ready+1 of a waiting operation (public getter)
                                let w = *pick(&mut r, &waiting);
                                let l = sys.ledger_of(w);
                                let aim = l + *pick(&mut r, &[-1i64, 0, 0, 0, 1]);
                                let nowl = seq(&sys.e) as i64;
                                if aim >= nowl && aim - nowl <= 6 {
                                    op["dt"] = json!(aim - nowl);
                                    ready.push(w);
                                }
                            }
                            let target = if !ready.is_empty() && r.gen_bool(0.85) { *pick(&mut r, &ready) } else { *pick(&mut r, &admin_ops) };
                            let (_, call, pred, salt) = *OPTAB.iter().find(|o| o.0 == target).unwrap();
                            let good_exec = executors.iter().filter(|a| *a != "n").cloned().next();
                            let ex = match (&good_exec, r.gen_range(0..10)) {
                                (Some(a), 0..=6) => a.clone(),
                                (_, 7) => "none".to_string(),
                                _ => pick(&mut r, &ACCTS).to_string(),
                            };
                            let honest = json!({"pred": pred, "salt": salt, "exec": ex});
                            let mut metas = vec![honest.clone()];
                            match r.gen_range(0..14) {
                                0 | 1 => metas.clear(),
                                2 => metas[0]["salt"] = json!(1 - salt as i64),
                                3 => metas[0]["pred"] = json!(if pred == "none" { "E" } else { "none" }),
                                4 => metas.push(honest.clone()),
                                5 => metas.insert(0, json!({"pred": "none", "salt": 1, "exec": "none"})),
                                _ => {}
                            }
                            let mut xauth: Vec<String> = vec![];
                            if ex != "none" && r.gen_bool(0.85) {
                                xauth.push(ex.clone());
                            }
                            if r.gen_bool(0.15) {
                                xauth.push(pick(&mut r, &ACCTS).to_string());
                                xauth.dedup();
                            }
                            op["metas"] = json!(metas);
                            op["xauth"] = json!(xauth);
                            if kind == "admin" {
                                op["call"] = json!(if r.gen_bool(0.9) { call } else { *pick(&mut r, &ADMIN_CALLS) });
                                op["entry"] = json!(r.gen_bool(0.93));
                                if r.gen_bool(0.15) {
                                    op["sub"] = json!(*pick(&mut r, &["ud0", "ud3", "grXs", "ext"]));
                                    if r.gen_bool(0.5) {
                                        // a second descriptor for the sub-invocation's context
                                        let mut m = op["metas"].as_array().unwrap().clone();
                                        m.push(json!({"pred": "none", "salt": 0, "exec": ex}));
                                        op["metas"] = json!(m);
                                    }
                                }
                            } else {
                                let mut ctxs = vec![json!(call)];
                                match r.gen_range(0..8) {
                                    0 => ctxs.push(json!(*pick(&mut r, &["ud0", "ud3", "foreign", "create"]))),
                                    1 => ctxs = vec![json!(*pick(&mut r, &["foreign", "create", "ext"]))],
                                    2 => ctxs.clear(),
                                    _ => {}
                                }
                                op["ctxs"] = json!(ctxs);
                                // two different ready operations in one payload, the executor's entry complete or
                                // missing for one of the two pairs
                                if ready.len() >= 2 && r.gen_bool(0.5) {
                                    let (a, b) = (ready[0], ready[ready.len() - 1]);
                                    let d = |x: &str| { let o = *OPTAB.iter().find(|o| o.0 == x).unwrap(); (o.1, json!({"pred": o.2, "salt": o.3, "exec": ex})) };
                                    let ((ca, ma), (cb, mb)) = (d(a), d(b));
                                    op["ctxs"] = json!([ca, cb]);
                                    op["metas"] = json!([ma, mb]);
                                    op["xauth"] = json!(if ex == "none" { vec![] } else { vec![ex.clone()] });
                                    op["xskip"] = json!(*pick(&mut r, &[0i64, 0, 2, 2, 1]));
                                }
                            }
                        }
                    }
                    let ev = sys.step(&op);
                    last = ev.clone();
                    t.step(ev);
                }
            }
            t.finish();
        }
    }
}
