//! Binding of spec/Fungible.tla: a thin Base+burnable token and the fungible-allowlist,
//! -blocklist, -pausable and -capped examples as they are.
//!
//! Amount regimes (DESIGN.md 2.3): "S" model unit = 1; "O" model unit = 2^124, so that the model's
//! MAXI = 7 is the largest multiple below i128::MAX and every overflow branch is reachable.
#![allow(dead_code)]
use soroban_sdk::{Address, Env, String as SStr};
use verif_harness::*;

#[path = "/repo/examples/fungible-allowlist/src/contract.rs"]
mod allowlist;
#[path = "/repo/examples/fungible-blocklist/src/contract.rs"]
mod blocklist;
#[path = "/repo/examples/fungible-capped/src/contract.rs"]
mod capped;
#[path = "/repo/examples/fungible-pausable/src/contract.rs"]
mod pausable;

mod thin {
    use soroban_sdk::{contract, contractimpl, Address, Env, MuxedAddress, String};
    use stellar_tokens::fungible::{burnable::FungibleBurnable, Base, FungibleToken};

    #[contract]
    pub struct BaseToken;

    #[contractimpl]
    impl BaseToken {
        pub fn mint(e: &Env, to: Address, amount: i128) {
            Base::mint(e, &to, amount);
        }
    }

    #[contractimpl(contracttrait)]
    impl FungibleToken for BaseToken {
        type ContractType = Base;
    }

    #[contractimpl(contracttrait)]
    impl FungibleBurnable for BaseToken {}
}

mod thinblock {
    //! BlockList + burnable: the library's BlockList::burn / burn_from, which no example exposes.
    use soroban_sdk::{contract, contractimpl, contracttype, Address, Env, MuxedAddress, String};
    use stellar_tokens::fungible::{blocklist::BlockList, burnable::FungibleBurnable, Base, FungibleToken};

    #[contracttype]
    pub enum K {
        Manager,
    }

    #[contract]
    pub struct BlockBurnToken;

    fn manager_auth(e: &Env, operator: &Address) {
        operator.require_auth();
        let m: Address = e.storage().instance().get(&K::Manager).unwrap();
        if m != *operator {
            panic!("not the manager");
        }
    }

    #[contractimpl]
    impl BlockBurnToken {
        pub fn __constructor(e: &Env, admin: Address, manager: Address, initial_supply: i128) {
            e.storage().instance().set(&K::Manager, &manager);
            Base::mint(e, &admin, initial_supply);
        }
        pub fn blocked(e: &Env, account: Address) -> bool {
            BlockList::blocked(e, &account)
        }
        pub fn block_user(e: &Env, user: Address, operator: Address) {
            manager_auth(e, &operator);
            BlockList::block_user(e, &user)
        }
        pub fn unblock_user(e: &Env, user: Address, operator: Address) {
            manager_auth(e, &operator);
            BlockList::unblock_user(e, &user)
        }
    }

    #[contractimpl(contracttrait)]
    impl FungibleToken for BlockBurnToken {
        type ContractType = BlockList;
    }

    #[contractimpl(contracttrait)]
    impl FungibleBurnable for BlockBurnToken {
        fn burn(e: &Env, from: Address, amount: i128) {
            BlockList::burn(e, &from, amount);
        }
        fn burn_from(e: &Env, spender: Address, from: Address, amount: i128) {
            BlockList::burn_from(e, &spender, &from, amount);
        }
    }
}

mod thincap {
    //! Capped + burnable with the cap adjustable afterwards (`set_cap` is documented for exactly that: a cap lowered
    //! below the supply "prevents any further minting until the total supply falls below the new cap"); the
    //! fungible-capped example sets the cap in its constructor only and exposes no burn.
    use soroban_sdk::{contract, contractimpl, Address, Env, MuxedAddress, String};
    use stellar_tokens::fungible::{burnable::FungibleBurnable, capped::{check_cap, set_cap}, Base, FungibleToken};

    #[contract]
    pub struct CapBurnToken;

    #[contractimpl]
    impl CapBurnToken {
        pub fn __constructor(e: &Env, cap: i128) {
            set_cap(e, cap);
        }
        pub fn mint(e: &Env, to: Address, amount: i128) {
            check_cap(e, amount);
            Base::mint(e, &to, amount);
        }
        pub fn set_cap(e: &Env, cap: i128) {
            set_cap(e, cap);
        }
    }

    #[contractimpl(contracttrait)]
    impl FungibleToken for CapBurnToken {
        type ContractType = Base;
    }

    #[contractimpl(contracttrait)]
    impl FungibleBurnable for CapBurnToken {}
}

const NOW0: u32 = 10;
const MAX_TTL: u32 = 20;
const BAD: i64 = -999_999;

#[derive(Clone, Copy, PartialEq)]
enum Fl {
    Base,
    Allow,
    Block,
    BlockThin,
    Pausable,
    Capped,
    CapThin,
}

struct Sys {
    e: Env,
    names: Names,
    accts: Vec<String>,
    c: Address,
    fl: Fl,
    flname: String,
    scale: i128,
    cap: i64,
    thin: bool,
    /// the token's own address is part of the observed universe (driver runs)
    selfacct: bool,
    min_temp: u32,
    base: u32,
}

macro_rules! token_call {
    ($self:ident, $cl:ident => $body:expr) => {
        match $self.fl {
            Fl::Base => { let $cl = thin::BaseTokenClient::new(&$self.e, &$self.c); $body }
            Fl::Allow => { let $cl = allowlist::ExampleContractClient::new(&$self.e, &$self.c); $body }
            Fl::Block => { let $cl = blocklist::ExampleContractClient::new(&$self.e, &$self.c); $body }
            Fl::BlockThin => { let $cl = thinblock::BlockBurnTokenClient::new(&$self.e, &$self.c); $body }
            Fl::Pausable => { let $cl = pausable::ExampleContractClient::new(&$self.e, &$self.c); $body }
            Fl::Capped => { let $cl = capped::ExampleContractClient::new(&$self.e, &$self.c); $body }
            Fl::CapThin => { let $cl = thincap::CapBurnTokenClient::new(&$self.e, &$self.c); $body }
        }
    };
}

impl Sys {
    /// `selfacct` runs (the random driver's) alternate between a minimum temporary-entry lifetime of 1 (an allowance
    /// entry lives exactly as long as asked) and 16 (the network's default: an entry outlives a short approval, so
    /// only the explicit expiry comparison protects)
    /// `base`: ledger sequence the run starts from (minus NOW0); ledgers and expiries are logged relative to it.  Runs
    /// with a high base work next to i32::MAX / u32::MAX, where expiry arithmetic in a narrower or signed type breaks.
    fn new(flname: &str, regime: &str, accts: &[&str], cap: i64, thin: bool, selfacct: bool, min_temp: u32, base: u32) -> Sys {
        let e = new_env(&LedgerCfg { seq: base + NOW0, min_temp, min_persistent: 1_000_000, max_ttl: MAX_TTL.max(min_temp + 4) });
        let mut all: Vec<&str> = accts.to_vec();
        all.push("m");
        let names = Names::new(&e, &all);
        let scale: i128 = if regime == "O" { 1i128 << 124 } else { 1 };
        let a = names.get("a");
        let m = names.get("m");
        let nm = SStr::from_str(&e, "T");
        // the list examples start with some supply held by their (allowed) admin
        let (fl, c) = match flname {
            "base" => (Fl::Base, e.register(thin::BaseToken, ())),
            "allowlist" => (Fl::Allow, e.register(allowlist::ExampleContract, (nm.clone(), nm.clone(), a.clone(), m.clone(), 2 * scale))),
            "blocklist" if thin => (Fl::BlockThin, e.register(thinblock::BlockBurnToken, (a.clone(), m.clone(), 2 * scale))),
            "blocklist" => (Fl::Block, e.register(blocklist::ExampleContract, (nm.clone(), nm.clone(), a.clone(), m.clone(), 2 * scale))),
            "pausable" => (Fl::Pausable, e.register(pausable::ExampleContract, (nm.clone(), nm.clone(), a.clone(), 0i128))),
            "capped" if thin => (Fl::CapThin, e.register(thincap::CapBurnToken, ((cap as i128) * scale,))),
            "capped" => (Fl::Capped, e.register(capped::ExampleContract, ((cap as i128) * scale,))),
            f => panic!("flavour {f}"),
        };
        // "t": the token contract's own address - a possible recipient like any other (never a sender)
        let mut names = names;
        names.insert("t", c.clone());
        let mut accts: Vec<String> = accts.iter().map(|s| s.to_string()).collect();
        if selfacct {
            accts.push("t".to_string());
            // "m": the list manager is an account like any other (it can be listed, hold and receive tokens)
            accts.push("m".to_string());
        }
        Sys { e, names, accts, c, fl, flname: flname.to_string(), scale, cap, thin, selfacct, min_temp, base }
    }

    fn units(&self, v: i128) -> Value {
        if v % self.scale == 0 && (v / self.scale).abs() < (1 << 30) {
            json!((v / self.scale) as i64)
        } else if self.scale > 1 && v > 0 && (v % self.scale) == self.scale - 1 {
            // regime O: k units minus one, i.e. what is left of i128::MAX (= 8 units - 1) after whole units were taken
            json!(((v / self.scale) + 1) as i64)
        } else {
            json!(BAD)
        }
    }

    fn obs(&self) -> Value {
        let e = &self.e;
        no_auth(e);
        let mut bal = JMap::new();
        let mut al = JMap::new();
        let mut listed = JMap::new();
        for a in &self.accts {
            let aa = self.names.get(a);
            let b: i128 = token_call!(self, cl => cl.try_balance(&aa).ok().and_then(|r| r.ok()).unwrap_or(i128::MIN + 7));
            bal.insert(a.clone(), self.units(b));
            let mut row = JMap::new();
            for s in &self.accts {
                let ss = self.names.get(s);
                let v: i128 = token_call!(self, cl => cl.try_allowance(&aa, &ss).ok().and_then(|r| r.ok()).unwrap_or(i128::MIN + 7));
                row.insert(s.clone(), self.units(v));
            }
            al.insert(a.clone(), Value::Object(row));
            let l = match self.fl {
                Fl::Allow => allowlist::ExampleContractClient::new(e, &self.c).allowed(&aa),
                Fl::Block => blocklist::ExampleContractClient::new(e, &self.c).blocked(&aa),
                Fl::BlockThin => thinblock::BlockBurnTokenClient::new(e, &self.c).blocked(&aa),
                _ => false,
            };
            listed.insert(a.clone(), json!(l));
        }
        let supply: i128 = token_call!(self, cl => cl.try_total_supply().ok().and_then(|r| r.ok()).unwrap_or(i128::MIN + 7));
        let paused = match self.fl {
            Fl::Pausable => pausable::ExampleContractClient::new(e, &self.c).paused(),
            _ => false,
        };
        json!({"bal": bal, "supply": self.units(supply), "al": al, "paused": paused, "listed": listed})
    }

    fn token_events(&self) -> Value {
        let conv = |v: i128| self.units(v);
        let mut out = Vec::new();
        for (topics, data) in events_of(&self.e, &self.names, &self.c, &conv) {
            let k = topics.first().and_then(|v| v.as_str()).unwrap_or("?").to_string();
            let amount = data.get("amount").cloned().unwrap_or(json!(BAD));
            let t1 = topics.get(1).cloned().unwrap_or(json!("none"));
            let t2 = topics.get(2).cloned().unwrap_or(json!("none"));
            let ev = match k.as_str() {
                "transfer" => json!({"k": "transfer", "f": t1, "t": t2, "x": amount}),
                "mint" => json!({"k": "mint", "f": "none", "t": t1, "x": amount}),
                "burn" => json!({"k": "burn", "f": t1, "t": "none", "x": amount}),
                "approve" => json!({"k": "approve", "f": t1, "t": t2, "x": amount}),
                other => json!({"k": other, "f": "none", "t": "none", "x": 0}),
            };
            out.push(ev);
        }
        Value::Array(out)
    }

    /// Returns None when the flavour does not expose the entry point (the op is skipped).
    fn step(&mut self, op: &Value) -> Option<Value> {
        let e = self.e.clone();
        let e = &e;
        let kind = s(op, "op");
        let who = auth_addrs(op, &self.names);
        // regime O: 8 units stand for i128::MAX itself (8 * 2^124 - 1)
        let amt: i128 = (n(op, "amt") as i128).checked_mul(self.scale).unwrap_or(i128::MAX);
        let addr = |k: &str| self.names.get(s(op, k));
        set_seq(e, seq(e) + n(op, "k") as u32);
        let c = self.c.clone();
        let r: (&'static str, i64) = match kind {
            "advance" => ("ok", 0),
            "transfer" => {
                let (f, t) = (addr("from"), addr("to"));
                set_auth_same(e, &who, &Inv::new(&c, "transfer", args(e, (f.clone(), t.clone(), amt))));
                token_call!(self, cl => res_of(&cl.try_transfer(&f, &t, &amt)))
            }
            "transfer_from" => {
                let (sp, f, t) = (addr("sp"), addr("from"), addr("to"));
                set_auth_same(e, &who, &Inv::new(&c, "transfer_from", args(e, (sp.clone(), f.clone(), t.clone(), amt))));
                token_call!(self, cl => res_of(&cl.try_transfer_from(&sp, &f, &t, &amt)))
            }
            "approve" => {
                let (o, sp) = (addr("from"), addr("sp"));
                // (i32::MAX stands for u32::MAX, "never": trace numbers are 32-bit)
                let until = if n(op, "until") == i32::MAX as i64 { u32::MAX } else if n(op, "until") > 0 { (self.base as u64 + n(op, "until") as u64).min(u32::MAX as u64) as u32 } else { 0 };
                set_auth_same(e, &who, &Inv::new(&c, "approve", args(e, (o.clone(), sp.clone(), amt, until))));
                token_call!(self, cl => res_of(&cl.try_approve(&o, &sp, &amt, &until)))
            }
            "burn" => {
                let f = addr("from");
                set_auth_same(e, &who, &Inv::new(&c, "burn", args(e, (f.clone(), amt))));
                match self.fl {
                    Fl::Base => res_of(&thin::BaseTokenClient::new(e, &c).try_burn(&f, &amt)),
                    Fl::Allow => res_of(&allowlist::ExampleContractClient::new(e, &c).try_burn(&f, &amt)),
                    Fl::Pausable => res_of(&pausable::ExampleContractClient::new(e, &c).try_burn(&f, &amt)),
                    Fl::BlockThin => res_of(&thinblock::BlockBurnTokenClient::new(e, &c).try_burn(&f, &amt)),
                    Fl::CapThin => res_of(&thincap::CapBurnTokenClient::new(e, &c).try_burn(&f, &amt)),
                    _ => return None,
                }
            }
            "burn_from" => {
                let (sp, f) = (addr("sp"), addr("from"));
                set_auth_same(e, &who, &Inv::new(&c, "burn_from", args(e, (sp.clone(), f.clone(), amt))));
                match self.fl {
                    Fl::Base => res_of(&thin::BaseTokenClient::new(e, &c).try_burn_from(&sp, &f, &amt)),
                    Fl::Allow => res_of(&allowlist::ExampleContractClient::new(e, &c).try_burn_from(&sp, &f, &amt)),
                    Fl::Pausable => res_of(&pausable::ExampleContractClient::new(e, &c).try_burn_from(&sp, &f, &amt)),
                    Fl::BlockThin => res_of(&thinblock::BlockBurnTokenClient::new(e, &c).try_burn_from(&sp, &f, &amt)),
                    Fl::CapThin => res_of(&thincap::CapBurnTokenClient::new(e, &c).try_burn_from(&sp, &f, &amt)),
                    _ => return None,
                }
            }
            "mint" => {
                let t = addr("to");
                set_auth_same(e, &who, &Inv::new(&c, "mint", args(e, (t.clone(), amt))));
                match self.fl {
                    Fl::Base => res_of(&thin::BaseTokenClient::new(e, &c).try_mint(&t, &amt)),
                    Fl::Pausable => res_of(&pausable::ExampleContractClient::new(e, &c).try_mint(&t, &amt)),
                    Fl::Capped => res_of(&capped::ExampleContractClient::new(e, &c).try_mint(&t, &amt)),
                    Fl::CapThin => res_of(&thincap::CapBurnTokenClient::new(e, &c).try_mint(&t, &amt)),
                    _ => return None,
                }
            }
            "set_cap" => {
                if self.fl != Fl::CapThin {
                    return None;
                }
                no_auth(e);
                res_of(&thincap::CapBurnTokenClient::new(e, &c).try_set_cap(&amt))
            }
            "pause" | "unpause" => {
                if self.fl != Fl::Pausable {
                    return None;
                }
                let caller = addr("from");
                set_auth_same(e, &who, &Inv::new(&c, kind, args(e, (caller.clone(),))));
                let cl = pausable::ExampleContractClient::new(e, &c);
                if kind == "pause" { res_of(&cl.try_pause(&caller)) } else { res_of(&cl.try_unpause(&caller)) }
            }
            "list" | "unlist" => {
                let (user, operator) = (addr("to"), addr("from"));
                match self.fl {
                    Fl::Allow => {
                        let f = if kind == "list" { "allow_user" } else { "disallow_user" };
                        set_auth_same(e, &who, &Inv::new(&c, f, args(e, (user.clone(), operator.clone()))));
                        let cl = allowlist::ExampleContractClient::new(e, &c);
                        if kind == "list" { res_of(&cl.try_allow_user(&user, &operator)) } else { res_of(&cl.try_disallow_user(&user, &operator)) }
                    }
                    Fl::BlockThin => {
                        let f = if kind == "list" { "block_user" } else { "unblock_user" };
                        set_auth_same(e, &who, &Inv::new(&c, f, args(e, (user.clone(), operator.clone()))));
                        let cl = thinblock::BlockBurnTokenClient::new(e, &c);
                        if kind == "list" { res_of(&cl.try_block_user(&user, &operator)) } else { res_of(&cl.try_unblock_user(&user, &operator)) }
                    }
                    Fl::Block => {
                        let f = if kind == "list" { "block_user" } else { "unblock_user" };
                        set_auth_same(e, &who, &Inv::new(&c, f, args(e, (user.clone(), operator.clone()))));
                        let cl = blocklist::ExampleContractClient::new(e, &c);
                        if kind == "list" { res_of(&cl.try_block_user(&user, &operator)) } else { res_of(&cl.try_unblock_user(&user, &operator)) }
                    }
                    _ => return None,
                }
            }
            k => panic!("op {k}"),
        };
        let evs = if kind == "advance" { json!([]) } else { self.token_events() };
        Some(json!({"op": op, "now": seq(e) - self.base, "res": r.0, "err": r.1, "obs": self.obs(), "evs": evs}))
    }

    fn reset_event(&self, regime: &str) -> Value {
        json!({"op": {"op": "reset", "flavour": self.flname, "regime": regime, "cap": self.cap, "owner": "a", "impl": if self.thin { "thin" } else { "example" }, "selfacct": self.selfacct, "min_temp": self.min_temp, "base": self.base.to_string(),
                      "from": "none", "to": "none", "sp": "none", "amt": 0, "until": 0, "auth": [], "k": 0},
               "now": NOW0, "res": "ok", "err": 0, "obs": self.obs(), "evs": []})
    }
}

const FLAVOURS: [&str; 7] = ["base", "allowlist", "blocklist", "pausable", "capped", "blockthin", "capthin"];

fn main() {
    match cli() {
        Mode::Exec { input, output } => {
            let mut t = Trace::create(&output);
            for b in read_behaviours(&input) {
                let fl = b.cfg.get("flavour").and_then(|v| v.as_str()).unwrap_or("base").to_string();
                let regime = b.cfg.get("regime").and_then(|v| v.as_str()).unwrap_or("S").to_string();
                let cap = b.cfg.get("cap").and_then(|v| v.as_i64()).unwrap_or(3);
                let thin = b.cfg.get("impl").and_then(|v| v.as_str()) == Some("thin");
                let selfacct = b.cfg.get("selfacct").and_then(|v| v.as_bool()).unwrap_or(false);
                let accts4 = ["a", "b", "c", "d"];
                let accts3 = ["a", "b", "c"];
                let min_temp = b.cfg.get("min_temp").and_then(|v| v.as_u64()).unwrap_or(1) as u32;
                let base: u32 = b.cfg.get("base").and_then(|v| v.as_str()).and_then(|x| x.parse().ok()).unwrap_or(0);
                let mut sys = Sys::new(&fl, &regime, if selfacct { &accts4 } else { &accts3 }, cap, thin, selfacct, min_temp, base);
                t.reset(sys.reset_event(&regime));
                for op in &b.ops {
                    if let Some(ev) = sys.step(op) {
                        t.step(ev);
                    }
                }
            }
            t.finish();
        }
        Mode::Drive { seed, runs, len, output } => {
            let mut t = Trace::create(&output);
            let mut r = StdRng::seed_from_u64(seed);
            let accts = ["a", "b", "c", "d"];
            for run in 0..runs {
                let fl = FLAVOURS[run % FLAVOURS.len()];
                let (fl, thin) = match fl {
                    "blockthin" => ("blocklist", true),
                    "capthin" => ("capped", true),
                    f => (f, false),
                };
                let regime = if (run / FLAVOURS.len()) % 3 == 2 { "O" } else { "S" };
                let cap = if regime == "O" { 6 } else { *pick(&mut r, &[3i64, 5, 9]) };
                // every fifth block of runs: next to i32::MAX (crossing it), or at 3 000 000 000
                let base: u32 = if (run / FLAVOURS.len()) % 5 == 4 { *pick(&mut r, &[i32::MAX as u32 - 30, i32::MAX as u32 - 12, 3_000_000_000u32]) } else { 0 };
                let mut sys = Sys::new(fl, regime, &accts, cap, thin, true, if (run / FLAVOURS.len()) % 2 == 1 { 16 } else { 1 }, base);
                // allowances that lapsed by the passing of time since the previous call: (owner, spender, amount)
                let mut lapsed: Vec<(&str, &str, i64)> = vec![];
                t.reset(sys.reset_event(regime));
                let amts: Vec<i64> = if regime == "O" { vec![0, 1, 1, 2, 3, 5, 6, 7, 7, -1, -8] /* -8 units = i128::MIN */ } else { vec![-1, 0, 1, 1, 2, 2, 3, 4, 7] };
                let mut holders: Vec<&str> = vec![];
                let mut bals: std::collections::BTreeMap<String, i64> = Default::default();
                let mut pairs: Vec<(&str, &str, i64)> = vec![]; // (owner, spender, live allowance)
                for _ in 0..len {
                    let now = (seq(&sys.e) - sys.base) as i64;
                    let k = if r.gen_ratio(1, 25) { 3000 } else { *pick(&mut r, &[0i64, 0, 0, 0, 1, 1, 2, 5]) };
                    let from = if !holders.is_empty() && r.gen_bool(0.7) { *pick(&mut r, &holders) } else { *pick(&mut r, &accts) };
                    let to = if r.gen_ratio(1, 12) { "t" } else { *pick(&mut r, &accts) };
                    let sp = *pick(&mut r, &accts);
                    let mut amt = *pick(&mut r, &amts);
                    // state feedback: mostly an amount the sender can afford
                    let fb = *bals.get(from).unwrap_or(&0);
                    if fb > 0 && r.gen_bool(0.7) {
                        amt = match r.gen_range(0..5) { 0 => fb, 1 => fb + 1, _ => r.gen_range(1..=fb) };
                    }
                    // mostly the party whose authorization matters, sometimes arbitrary subsets
                    let mut auth: Vec<String> = if r.gen_bool(0.25) { subset(&mut r, &["a", "b", "c", "d", "m"]) } else { vec![] };
                    let kinds: &[&str] = match sys.fl {
                        Fl::Base => &["mint", "mint", "transfer", "transfer", "transfer_from", "transfer_from", "approve", "approve", "burn", "burn_from", "advance"],
                        Fl::Allow => &["list", "list", "unlist", "transfer", "transfer", "transfer_from", "approve", "approve", "burn", "burn_from", "advance"],
                        Fl::Block => &["list", "unlist", "transfer", "transfer", "transfer", "transfer_from", "approve", "approve", "advance"],
                        Fl::BlockThin => &["list", "unlist", "transfer", "transfer", "transfer_from", "approve", "approve", "burn", "burn", "burn_from", "burn_from", "advance"],
                        Fl::Pausable => &["mint", "mint", "transfer", "transfer", "transfer_from", "approve", "burn", "burn_from", "pause", "unpause", "advance"],
                        Fl::Capped => &["mint", "mint", "mint", "transfer", "transfer", "transfer_from", "approve", "advance"],
                        Fl::CapThin => &["mint", "mint", "mint", "mint", "set_cap", "set_cap", "transfer", "transfer_from", "approve", "burn", "burn", "burn_from", "advance"],
                    };
                    // regime O: stay on the lattice (7 units is the largest multiple of 2^124 below i128::MAX)
                    let amt = if regime == "O" { amt.min(7) } else { amt };
                    let kind = *pick(&mut r, kinds);
                    // nothing to spend yet: set an allowance up instead
                    let kind = if (kind == "transfer_from" || kind == "burn_from") && pairs.is_empty() && r.gen_bool(0.7) { "approve" } else { kind };
                    let good = r.gen_bool(0.8);
                    // state feedback: spend along a live allowance most of the time
                    let (from, sp, amt) = if (kind == "transfer_from" || kind == "burn_from") && !lapsed.is_empty() && r.gen_bool(0.4) {
                        // spend along an allowance that has just lapsed: exactly what it was worth, or a part of it
                        let (o, s2, a) = *pick(&mut r, &lapsed);
                        (o, s2, if r.gen_bool(0.6) { a } else { r.gen_range(1..=a.max(1)) })
                    } else if (kind == "transfer_from" || kind == "burn_from") && !pairs.is_empty() && r.gen_bool(0.75) {
                        let (o, s2, a) = *pick(&mut r, &pairs);
                        let cap = a.min((*bals.get(o).unwrap_or(&0)).max(1));
                        let v = match r.gen_range(0..8) { 0 => a, 1 => a + 1, 2 => 0, _ => r.gen_range(1..=cap.max(1)) };
                        (o, s2, if regime == "O" { v.min(7).min((*bals.get(o).unwrap_or(&0)).max(1)) } else { v })
                    } else {
                        (from, sp, amt)
                    };
                    let op = match kind {
                        "mint" => {
                            if good && sys.fl == Fl::Pausable { auth.push("a".into()); }
                            json!({"op": "mint", "from": "none", "to": to, "sp": "none", "amt": amt, "until": 0, "auth": auth, "k": k})
                        }
                        "transfer" => {
                            if good { auth.push(from.into()); }
                            json!({"op": "transfer", "from": from, "to": to, "sp": "none", "amt": amt, "until": 0, "auth": auth, "k": k})
                        }
                        "transfer_from" => {
                            if good { auth.push(sp.into()); }
                            json!({"op": "transfer_from", "from": from, "to": to, "sp": sp, "amt": amt, "until": 0, "auth": auth, "k": k})
                        }
                        "approve" => {
                            if good { auth.push(from.into()); }
                            let du = *pick(&mut r, &[-1i64, 0, 0, 1, 1, 2, 3, 6, 6, 10, 10, 15, 15, (MAX_TTL - 1) as i64, (MAX_TTL - 1) as i64, MAX_TTL as i64]);
                            let amt = if r.gen_bool(0.6) { amt.max(1) } else { amt };
                            // exactly i128::MAX (8 units) is a popular "unlimited" allowance
                            let amt = if regime == "O" { if r.gen_bool(0.3) { 8 } else { amt.min(7) } } else { amt };
                            // one approval in eight is a revocation (amount 0), with an expiry that does not matter to the base
                            // token - none, long past, just past, now: every gate in front of it must still apply
                            let (amt, du) = if r.gen_ratio(1, 8) { (0, *pick(&mut r, &[-1i64, -1, -5, 0, -(now + k) + 1, -(now + k)])) } else { (amt, du) };
                            json!({"op": "approve", "from": from, "to": "none", "sp": sp, "amt": amt, "until": if r.gen_ratio(1, 30) { i32::MAX as i64 } else { (now + k + du).max(0) }, "auth": auth, "k": k})
                        }
                        "burn" => {
                            if good { auth.push(from.into()); }
                            json!({"op": "burn", "from": from, "to": "none", "sp": "none", "amt": amt, "until": 0, "auth": auth, "k": k})
                        }
                        "burn_from" => {
                            if good { auth.push(sp.into()); }
                            json!({"op": "burn_from", "from": from, "to": "none", "sp": sp, "amt": amt, "until": 0, "auth": auth, "k": k})
                        }
                        "set_cap" => {
                            // around the current supply (below it: minting must stay shut until enough is burned)
                            let sup: i64 = bals.values().sum();
                            let c = match r.gen_range(0..8) { 0 => -1, 1 => 0, 2 => sup - 1, 3 => sup - 2, 4 => sup, 5 => sup + 1, 6 => sup + 3, _ => *pick(&mut r, &amts) };
                            let c = if regime == "O" { c.min(8) } else { c };
                            json!({"op": "set_cap", "from": "none", "to": "none", "sp": "none", "amt": c, "until": 0, "auth": [], "k": k})
                        }
                        "pause" | "unpause" => {
                            let caller = if good { "a" } else { *pick(&mut r, &accts) };
                            if r.gen_bool(0.9) { auth.push(caller.into()); }
                            json!({"op": kind, "from": caller, "to": "none", "sp": "none", "amt": 0, "until": 0, "auth": auth, "k": k})
                        }
                        "list" | "unlist" => {
                            let operator = if good { "m" } else { *pick(&mut r, &["a", "b", "m"]) };
                            if r.gen_bool(0.9) { auth.push(operator.into()); }
                            let whom = if r.gen_ratio(1, 8) { "m" } else { to };
                            json!({"op": kind, "from": operator, "to": whom, "sp": "none", "amt": 0, "until": 0, "auth": auth, "k": k})
                        }
                        _ => json!({"op": "advance", "from": "none", "to": "none", "sp": "none", "amt": 0, "until": 0, "auth": [], "k": k.max(1)}),
                    };
                    if let Some(ev) = sys.step(&op) {
                        // state feedback: who holds tokens now
                        holders = accts.iter().copied().filter(|a| ev["obs"]["bal"][*a].as_i64().unwrap_or(0) > 0).collect();
                        bals = accts.iter().map(|a| (a.to_string(), ev["obs"]["bal"][*a].as_i64().unwrap_or(0))).collect();
                        let before = pairs.clone();
                        pairs.clear();
                        for o in accts.iter().copied() {
                            for s2 in accts.iter().copied() {
                                let a = ev["obs"]["al"][o][s2].as_i64().unwrap_or(0);
                                if a > 0 {
                                    pairs.push((o, s2, a));
                                }
                            }
                        }
                        if matches!(s(&op, "op"), "advance") || n(&op, "k") > 0 {
                            lapsed = before.iter().copied().filter(|(o, s2, _)| !pairs.iter().any(|(o2, s3, _)| o2 == o && s3 == s2)).collect();
                        }
                        t.step(ev);
                    }
                }
            }
            t.finish();
        }
    }
}
