//! Binding of spec/Verifiers.tla (C18): the real webauthn-verifier and ed25519-verifier example
//! contracts (compiled from their source in /repo) and the real `base64_url_encode`.
//!
//! Every run has fresh P-256 and Ed25519 key pairs and a fresh 32-byte payload P0 (all derived from
//! the run's `kseed`).  The harness plays the authenticator: it builds authenticator data with the
//! chosen flag byte and client data JSON with the chosen type and challenge, and signs
//! authenticator_data || sha256(client_data_json).  Every corruption of the model is realised as ONE
//! concrete single-field or single-bit change (position chosen by the op's `bit`).  The challenge is
//! produced with the harness's own bit-level base64url encoder, never with the code under test.
//!
//! Logged: the op as given (the abstract description of how the assertion was produced), `res` =
//! "ok" iff verify returned true, `err` = 0 ok | -4 returned false | contract error code | -1 host
//! error (failed signature check, panic) ; for the encoder `obs.out` = the bytes it wrote.
#![allow(dead_code)]
use ed25519_dalek::{Signer as _, SigningKey as EdKey};
use p256::ecdsa::{signature::hazmat::PrehashSigner, Signature as P256Sig, SigningKey as P256Key};
use sha2::{Digest, Sha256};
use soroban_sdk::{xdr::ToXdr, Address, Bytes, BytesN, Env};
use stellar_accounts::verifiers::{utils::base64_url_encode, webauthn::WebAuthnSigData};
use verif_harness::*;

#[path = "/repo/examples/multisig-smart-account/webauthn-verifier/src/contract.rs"]
mod webauthn_verifier;
#[path = "/repo/examples/multisig-smart-account/ed25519-verifier/src/contract.rs"]
mod ed25519_verifier;

use ed25519_verifier::{Ed25519VerifierContract, Ed25519VerifierContractClient};
use webauthn_verifier::{WebauthnVerifierContract, WebauthnVerifierContractClient};

const UP: u8 = 0x01;
const UV: u8 = 0x04;
const BE: u8 = 0x08;
const BS: u8 = 0x10;
const XMASK: u8 = 0xE2;

// ---------------------------------------------------------------------------------------------
// reference helpers (independent of the code under test)
// ---------------------------------------------------------------------------------------------

/// RFC 4648 section 5 without padding, bit by bit.
fn ref_b64url(src: &[u8]) -> Vec<u8> {
    const T: &[u8; 64] = b"ABCDEFGHIJKLMNOPQRSTUVWXYZabcdefghijklmnopqrstuvwxyz0123456789-_";
    let mut bits: Vec<u8> = Vec::with_capacity(src.len() * 8 + 6);
    for b in src {
        for k in (0..8).rev() {
            bits.push((b >> k) & 1);
        }
    }
    while bits.len() % 6 != 0 {
        bits.push(0);
    }
    bits.chunks(6).map(|c| T[c.iter().fold(0usize, |a, b| a * 2 + *b as usize)]).collect()
}

fn sha256(x: &[u8]) -> [u8; 32] {
    let mut h = Sha256::new();
    h.update(x);
    h.finalize().into()
}

fn flip(v: &mut [u8], bit: usize) {
    let n = v.len() * 8;
    if n > 0 {
        let b = bit % n;
        v[b / 8] ^= 1 << (b % 8);
    }
}

fn p256_key(r: &mut StdRng) -> P256Key {
    loop {
        let mut b = [0u8; 32];
        r.fill(&mut b);
        if let Ok(k) = P256Key::from_slice(&b) {
            return k;
        }
    }
}

fn p256_pub(k: &P256Key) -> Vec<u8> {
    k.verifying_key().to_encoded_point(false).as_bytes().to_vec()
}

/// low-S ECDSA signature over a 32-byte prehash, as the Soroban host demands
fn p256_sign(k: &P256Key, digest: &[u8; 32]) -> Vec<u8> {
    let sig: P256Sig = k.sign_prehash(digest).expect("sign");
    let sig = sig.normalize_s().unwrap_or(sig);
    sig.to_bytes().to_vec()
}

/// Client data JSON.  `ty` / `chal` = None leaves the member out.  All layouts are well-formed JSON
/// renderings of the same members; `clen` > 0 pads with a "pad" member to exactly `clen` bytes.
fn client_data(layout: &str, ty: Option<&str>, chal: Option<&str>, clen: usize) -> Vec<u8> {
    let q = |x: &str| format!("\"{x}\"");
    let m_type = ty.map(|t| ("type".to_string(), q(t)));
    let m_chal = chal.map(|c| ("challenge".to_string(), q(c)));
    let origin = ("origin".to_string(), q("https://example.org"));
    let cross = ("crossOrigin".to_string(), "false".to_string());
    let mut members: Vec<(String, String)> = Vec::new();
    match layout {
        // what browsers emit
        "compact" | "spaced" => {
            members.extend(m_type);
            members.extend(m_chal);
            members.push(origin);
            members.push(cross);
        }
        "reordered" => {
            members.push(origin);
            members.extend(m_chal);
            members.push(cross);
            members.extend(m_type);
        }
        // unknown members holding nested values before, between and after the two that matter
        "nested" => {
            members.push(("tokenBinding".into(), "{\"status\":\"supported\",\"id\":\"dGI\"}".into()));
            members.extend(m_type);
            members.push(("ext".into(), "[1,2,{\"a\":\"b\"},[\"type\",\"challenge\"]]".into()));
            members.extend(m_chal);
            members.push(origin);
            members.push(("topOrigin".into(), "null".into()));
        }
        k => panic!("layout {k}"),
    }
    let render = |members: &[(String, String)]| -> String {
        let (open, sep, kv, close) = if layout == "spaced" {
            ("{\n            ", ",\n            ", ": ", "\n        }")
        } else {
            ("{", ",", ":", "}")
        };
        let body: Vec<String> = members.iter().map(|(k, v)| format!("\"{k}\"{kv}{v}")).collect();
        format!("{open}{}{close}", body.join(sep))
    };
    if clen > 0 {
        members.push(("pad".into(), q("")));
        let base = render(&members).len();
        assert!(base <= clen, "client data of layout {layout} cannot be {clen} bytes (minimum {base})");
        let last = members.len() - 1;
        members[last].1 = q(&"a".repeat(clen - base));
        let out = render(&members).into_bytes();
        assert_eq!(out.len(), clen);
        return out;
    }
    render(&members).into_bytes()
}

// ---------------------------------------------------------------------------------------------
// the system under test
// ---------------------------------------------------------------------------------------------
struct Sys {
    e: Env,
    w: Address,
    d: Address,
    kseed: u64,
    sk1: P256Key,
    sk2: P256Key,
    ek1: EdKey,
    ek2: EdKey,
    p0: [u8; 32],
    msg: Vec<u8>,  // Ed25519 messages are prefixes of this
    cred: Vec<u8>, // credential id appended to the public key in key_data
}

impl Sys {
    fn new(kseed: u64) -> Sys {
        let e = new_env(&LedgerCfg::default());
        let w = e.register(WebauthnVerifierContract, ());
        let d = e.register(Ed25519VerifierContract, ());
        let mut r = StdRng::seed_from_u64(kseed ^ 0x5eed_c18);
        let sk1 = p256_key(&mut r);
        let sk2 = p256_key(&mut r);
        let mut b = [0u8; 32];
        r.fill(&mut b);
        let ek1 = EdKey::from_bytes(&b);
        r.fill(&mut b);
        let ek2 = EdKey::from_bytes(&b);
        // the payload: its encoding must contain '-' or '_' so that the standard alphabet differs
        let p0 = loop {
            let mut p = [0u8; 32];
            r.fill(&mut p);
            let enc = ref_b64url(&p);
            if enc.contains(&b'-') || enc.contains(&b'_') {
                break p;
            }
        };
        let mut msg = vec![0u8; 70_000]; // Ed25519 payloads of every length up to well past any plausible internal bound
        r.fill(&mut msg[..]);
        // credential ids: short ones, and lengths that carry key_data across 256 bytes (65 + 191 = 256) up to the
        // 1023 bytes WebAuthn allows
        let clen = match r.gen_range(0..8) { 0 => 190, 1 => 191, 2 => 192, 3 => 300, 4 => 1023, _ => r.gen_range(1..40) };
        let mut cred = vec![0u8; clen];
        r.fill(&mut cred[..]);
        Sys { e, w, d, kseed, sk1, sk2, ek1, ek2, p0, msg, cred }
    }
}

fn flag_byte(op: &Value) -> u8 {
    let mut f = (n(op, "xbits") as u8) & XMASK;
    for x in strs(op, "flags") {
        f |= match x.as_str() {
            "UP" => UP,
            "UV" => UV,
            "BE" => BE,
            "BS" => BS,
            k => panic!("flag {k}"),
        };
    }
    f
}

impl Sys {
    /// the challenge string of the client data, relative to the genuine payload P0
    fn challenge(&self, kind: &str, bit: usize) -> Option<String> {
        let right = ref_b64url(&self.p0);
        let v: Vec<u8> = match kind {
            "right" => right,
            "wrong" => {
                // one character replaced by another character of the alphabet
                let mut c = right;
                let i = bit % c.len();
                let t = b"ABCDEFGHIJKLMNOPQRSTUVWXYZabcdefghijklmnopqrstuvwxyz0123456789-_";
                let at = t.iter().position(|x| *x == c[i]).unwrap();
                c[i] = t[(at + 1 + (bit / 64) % 63) % 64];
                c
            }
            "other_payload" => {
                let mut p = self.p0;
                flip(&mut p, bit + 97); // never the bit that payload = "other" flips
                ref_b64url(&p)
            }
            "padded" => [right, b"=".to_vec()].concat(),
            "std_alphabet" => right.iter().map(|c| match c { b'-' => b'+', b'_' => b'/', x => *x }).collect(),
            "truncated" => right[..right.len() - 1].to_vec(),
            "extended" => [right, b"A".to_vec()].concat(),
            // the right challenge followed by a multiple of 256 further characters (a length compared through a narrow cast)
            "extended256" | "extended512" | "extended768" => [right, vec![b'A'; kind[8..].parse::<usize>().unwrap()]].concat(),
            "empty" => vec![],
            "missing" => return None,
            k => panic!("chal {k}"),
        };
        Some(String::from_utf8(v).unwrap())
    }

    fn webauthn(&self, op: &Value) -> (&'static str, i64, Value) {
        let e = &self.e;
        let bit = n(op, "bit") as usize;
        let ty: Option<&str> = match s(op, "type") {
            "get" => Some("webauthn.get"),
            "create" => Some("webauthn.create"),
            "upper" => Some("Webauthn.get"),
            "space" => Some("webauthn.get "),
            "prefix" => Some("webauthn.ge"),
            "empty" => Some(""),
            "missing" => None,
            k => panic!("type {k}"),
        };
        let chal = self.challenge(s(op, "chal"), bit);
        let cd = client_data(s(op, "layout"), ty, chal.as_deref(), n(op, "clen") as usize);
        // authenticator data: rpIdHash || flags || signCount [|| extensions]
        let alen = n(op, "alen") as usize;
        let mut ad: Vec<u8> = sha256(b"example.org").to_vec();
        ad.push(flag_byte(op));
        ad.extend_from_slice(&[0, 0, 0, 7]);
        while ad.len() < alen {
            ad.push((ad.len() * 31 % 251) as u8);
        }
        ad.truncate(alen);
        let digest = |ad: &[u8], cd: &[u8]| sha256(&[ad, &sha256(cd)[..]].concat());
        let sig: Vec<u8> = match s(op, "sig") {
            "right" => p256_sign(&self.sk1, &digest(&ad, &cd)),
            "altered_auth" => {
                let mut ad2 = ad.clone();
                if ad2.is_empty() {
                    ad2.push(0);
                } else {
                    flip(&mut ad2, bit);
                }
                p256_sign(&self.sk1, &digest(&ad2, &cd))
            }
            "altered_client" => {
                let mut cd2 = cd.clone();
                flip(&mut cd2, bit);
                p256_sign(&self.sk1, &digest(&ad, &cd2))
            }
            "other_key" => p256_sign(&self.sk2, &digest(&ad, &cd)),
            "garbage" => {
                let mut g = vec![0u8; 64];
                StdRng::seed_from_u64(self.kseed.wrapping_mul(31).wrapping_add(bit as u64)).fill(&mut g[..]);
                g
            }
            "bitflip" => {
                let mut g = p256_sign(&self.sk1, &digest(&ad, &cd));
                flip(&mut g, bit);
                g
            }
            // client data not hashed before it is appended
            "no_hash" => p256_sign(&self.sk1, &sha256(&[&ad[..], &cd[..]].concat())),
            // a plain signature of the payload, no WebAuthn envelope
            "payload_only" => p256_sign(&self.sk1, &self.p0),
            k => panic!("sig {k}"),
        };
        let pk1 = p256_pub(&self.sk1);
        let key: Vec<u8> = match s(op, "key") {
            "right" => pk1,
            "cred" => [pk1, self.cred.clone()].concat(),
            "other" => p256_pub(&self.sk2),
            "bitflip" => {
                let mut k = pk1;
                flip(&mut k, bit);
                k
            }
            "short" => pk1[..64].to_vec(),
            k => panic!("key {k}"),
        };
        let payload: Vec<u8> = match s(op, "payload") {
            "right" => self.p0.to_vec(),
            "other" => {
                let mut p = self.p0;
                flip(&mut p, bit);
                p.to_vec()
            }
            "short" => self.p0[..31].to_vec(),
            "long" => [&self.p0[..], &[(bit % 256) as u8][..]].concat(),
            k => panic!("payload {k}"),
        };
        let mut sig64 = [0u8; 64];
        sig64.copy_from_slice(&sig);
        let sd = WebAuthnSigData {
            signature: BytesN::from_array(e, &sig64),
            authenticator_data: Bytes::from_slice(e, &ad),
            client_data: Bytes::from_slice(e, &cd),
        };
        let cl = WebauthnVerifierContractClient::new(e, &self.w);
        no_auth(e);
        let r = cl.try_verify(&Bytes::from_slice(e, &payload), &Bytes::from_slice(e, &key), &sd.to_xdr(e));
        let (res, code) = verdict(&r);
        (res, code, json!({"out": [], "clen": cd.len(), "alen": ad.len()}))
    }
}

/// "ok" iff verify returned true; `false` and every kind of failure are "fail" (told apart in err)
fn verdict<E1: core::fmt::Debug, E2: core::fmt::Debug>(
    r: &Result<Result<bool, E1>, Result<soroban_sdk::Error, E2>>,
) -> (&'static str, i64) {
    match r {
        Ok(Ok(true)) => ("ok", 0),
        Ok(Ok(false)) => ("fail", -4),
        _ => res_of(r),
    }
}

impl Sys {
    fn ed25519(&self, op: &Value) -> (&'static str, i64, Value) {
        let e = &self.e;
        let bit = n(op, "bit") as usize;
        let plen = (n(op, "plen") as usize).min(self.msg.len());
        let msg = self.msg[..plen].to_vec();
        // a different message of the same length (or one byte when the message is empty)
        let other = |shift: usize| -> Vec<u8> {
            let mut m = msg.clone();
            if m.is_empty() {
                m.push(shift as u8);
            } else {
                flip(&mut m, bit + shift);
            }
            m
        };
        let payload: Vec<u8> = match s(op, "payload") {
            "right" => msg.clone(),
            "other" => other(0),
            "short" => {
                if msg.is_empty() {
                    vec![0]
                } else {
                    msg[..plen - 1].to_vec()
                }
            }
            "long" => [&msg[..], &[(bit % 256) as u8][..]].concat(),
            k => panic!("payload {k}"),
        };
        let sig: [u8; 64] = match s(op, "sig") {
            "right" => self.ek1.sign(&msg).to_bytes(),
            "other_key" => self.ek2.sign(&msg).to_bytes(),
            "bitflip" => {
                let mut g = self.ek1.sign(&msg).to_bytes();
                flip(&mut g, bit);
                g
            }
            "over_other" => self.ek1.sign(&other(97)).to_bytes(),
            k => panic!("sig {k}"),
        };
        let key: [u8; 32] = match s(op, "key") {
            "right" => self.ek1.verifying_key().to_bytes(),
            "other" => self.ek2.verifying_key().to_bytes(),
            "bitflip" => {
                let mut k = self.ek1.verifying_key().to_bytes();
                flip(&mut k, bit);
                k
            }
            k => panic!("key {k}"),
        };
        let cl = Ed25519VerifierContractClient::new(e, &self.d);
        no_auth(e);
        let r = cl.try_verify(&Bytes::from_slice(e, &payload), &BytesN::from_array(e, &key), &BytesN::from_array(e, &sig));
        let (res, code) = verdict(&r);
        (res, code, json!({"out": [], "clen": 0, "alen": 0}))
    }

    /// the encoder is a plain function: called directly, on a zeroed buffer with 4 bytes of slack so
    /// that anything written past ceil(4n/3) is seen; a panic (out-of-bounds write) is a failure
    fn b64(&self, op: &Value) -> (&'static str, i64, Value) {
        let inp: Vec<u8> = op["inp"].as_array().expect("inp").iter().map(|x| x.as_u64().expect("byte") as u8).collect();
        let cap = (4 * inp.len() + 2) / 3 + 4;
        let r = std::panic::catch_unwind(|| {
            let mut dst = vec![0u8; cap];
            base64_url_encode(&mut dst, &inp);
            dst
        });
        match r {
            Ok(dst) => {
                let used = dst.iter().rposition(|x| *x != 0).map(|i| i + 1).unwrap_or(0);
                ("ok", 0, json!({"out": dst[..used].to_vec(), "clen": 0, "alen": 0}))
            }
            Err(_) => ("fail", -1, json!({"out": [], "clen": 0, "alen": 0})),
        }
    }

    fn step(&self, op: &Value) -> Value {
        let (res, err, obs) = match s(op, "op") {
            "webauthn" => self.webauthn(op),
            "ed25519" => self.ed25519(op),
            "b64" => self.b64(op),
            k => panic!("op {k}"),
        };
        json!({"op": op, "now": 0, "res": res, "err": err, "obs": obs})
    }
}

fn reset_event(kseed: u64) -> Value {
    json!({"op": {"op": "reset", "kseed": kseed}, "now": 0, "res": "ok", "err": 0, "obs": {"out": [], "clen": 0, "alen": 0}})
}

// ---------------------------------------------------------------------------------------------
// cases
// ---------------------------------------------------------------------------------------------
const TYPES: [&str; 7] = ["get", "create", "upper", "space", "prefix", "empty", "missing"];
const CHALS: [&str; 12] = ["right", "wrong", "other_payload", "padded", "std_alphabet", "truncated", "extended", "empty", "missing",
    "extended256", "extended512", "extended768"];
const WSIGS: [&str; 8] = ["right", "altered_auth", "altered_client", "other_key", "garbage", "bitflip", "no_hash", "payload_only"];
const WKEYS: [&str; 5] = ["right", "cred", "other", "bitflip", "short"];
const PAYLOADS: [&str; 4] = ["right", "other", "short", "long"];
const LAYOUTS: [&str; 4] = ["compact", "spaced", "reordered", "nested"];
const EKEYS: [&str; 3] = ["right", "other", "bitflip"];
const ESIGS: [&str; 4] = ["right", "other_key", "bitflip", "over_other"];
const FLAGN: [&str; 4] = ["UP", "UV", "BE", "BS"];
// (293 = 37 + 256, 65573 = 37 + 65536; 1280 = 1024 + 256, 66560 = 1024 + 65536: lengths that a narrow cast folds back)
const ALENS: [i64; 13] = [0, 1, 32, 33, 36, 37, 38, 41, 77, 100, 300, 293, 65573];
const CLENS: [i64; 9] = [0, 1023, 1024, 1025, 1026, 2000, 5000, 1280, 66560];

fn flags_of(mask: usize) -> Vec<&'static str> {
    (0..4).filter(|i| mask >> i & 1 == 1).map(|i| FLAGN[i]).collect()
}

/// a plain genuine WebAuthn assertion
fn wgen() -> Value {
    json!({"op": "webauthn", "type": "get", "chal": "right", "flags": ["UP", "UV"], "xbits": 0, "alen": 37, "clen": 0,
           "sig": "right", "key": "right", "payload": "right", "layout": "compact", "plen": 32, "bit": 0, "inp": []})
}
fn egen() -> Value {
    json!({"op": "ed25519", "type": "-", "chal": "-", "flags": [], "xbits": 0, "alen": 0, "clen": 0,
           "sig": "right", "key": "right", "payload": "right", "layout": "-", "plen": 32, "bit": 0, "inp": []})
}
fn with(mut v: Value, kv: &[(&str, Value)]) -> Value {
    for (k, x) in kv {
        v[*k] = x.clone();
    }
    v
}

/// every single-field change of a genuine assertion (+ the genuine variants themselves)
fn catalogue() -> Vec<Value> {
    let mut c = Vec::new();
    for m in 0..16 {
        c.push(with(wgen(), &[("flags", json!(flags_of(m)))]));
    }
    // ... and every one of the 256 flag bytes: the bits the verifier has no business with must not change its verdict
    for x in 1..256i64 {
        if x & !(XMASK as i64) == 0 {
            for m in 0..16 {
                c.push(with(wgen(), &[("flags", json!(flags_of(m))), ("xbits", json!(x))]));
            }
        }
    }
    for t in &TYPES[1..] {
        c.push(with(wgen(), &[("type", json!(t))]));
    }
    for t in &CHALS[1..] {
        c.push(with(wgen(), &[("chal", json!(t))]));
    }
    for t in &WSIGS[1..] {
        c.push(with(wgen(), &[("sig", json!(t))]));
    }
    for t in &WKEYS[1..] {
        c.push(with(wgen(), &[("key", json!(t))]));
    }
    for t in &PAYLOADS[1..] {
        c.push(with(wgen(), &[("payload", json!(t))]));
    }
    for a in ALENS {
        c.push(with(wgen(), &[("alen", json!(a))]));
    }
    for l in CLENS {
        c.push(with(wgen(), &[("clen", json!(l))]));
    }
    for l in LAYOUTS {
        c.push(with(wgen(), &[("layout", json!(l))]));
        c.push(with(wgen(), &[("layout", json!(l)), ("clen", json!(1024))]));
        c.push(with(wgen(), &[("layout", json!(l)), ("clen", json!(1025))]));
    }
    for x in [0x02, 0x20, 0x40, 0x80, 0xE2] {
        c.push(with(wgen(), &[("xbits", json!(x))]));
    }
    // genuine under the second key pair
    c.push(with(wgen(), &[("sig", json!("other_key")), ("key", json!("other"))]));
    for pl in [0, 1, 31, 32, 33, 64, 100, 255, 256, 257, 1023, 1024, 1025, 4095, 4096, 4097, 5000, 65_535, 65_536, 70_000] {
        c.push(with(egen(), &[("plen", json!(pl))]));
        if pl > 100 {
            // the last bit of a long payload altered; one byte cut off / appended at its end
            c.push(with(egen(), &[("plen", json!(pl)), ("payload", json!("other")), ("bit", json!(pl * 8 - 1))]));
            c.push(with(egen(), &[("plen", json!(pl)), ("payload", json!("short"))]));
            c.push(with(egen(), &[("plen", json!(pl)), ("payload", json!("long"))]));
        }
    }
    for t in &PAYLOADS[1..] {
        c.push(with(egen(), &[("payload", json!(t))]));
        c.push(with(egen(), &[("payload", json!(t)), ("plen", json!(1))]));
    }
    for t in &EKEYS[1..] {
        c.push(with(egen(), &[("key", json!(t))]));
    }
    for t in &ESIGS[1..] {
        c.push(with(egen(), &[("sig", json!(t))]));
    }
    c.push(with(egen(), &[("sig", json!("other_key")), ("key", json!("other"))]));
    c
}

const BOUNDARY: [u8; 12] = [0x00, 0xff, 0xfb, 0xfe, 0x3e, 0x3f, 0x7f, 0x80, 0x01, 0xfc, 0xf8, 0x03];

fn b64_op(r: &mut StdRng, len: usize) -> Value {
    let mut v = vec![0u8; len];
    match r.gen_range(0..5) {
        0 | 1 => r.fill(&mut v[..]),
        2 => {
            let b = *pick(r, &BOUNDARY);
            v.iter_mut().for_each(|x| *x = b);
        }
        3 => v.iter_mut().for_each(|x| *x = *pick(r, &BOUNDARY)),
        _ => {
            r.fill(&mut v[..]);
            for k in 0..len.min(3) {
                v[len - 1 - k] = *pick(r, &BOUNDARY);
            }
        }
    }
    json!({"op": "b64", "type": "-", "chal": "-", "flags": [], "xbits": 0, "alen": 0, "clen": 0,
           "sig": "-", "key": "-", "payload": "-", "layout": "-", "plen": 0, "bit": 0, "inp": v})
}

/// several fields changed at once (each stays genuine with probability 0.7)
fn random_webauthn(r: &mut StdRng) -> Value {
    fn one<'a>(r: &mut StdRng, xs: &'a [&'a str]) -> &'a str {
        if r.gen_bool(0.7) {
            xs[0]
        } else {
            xs[r.gen_range(1..xs.len())]
        }
    }
    let flags = if r.gen_bool(0.6) { *pick(r, &[3usize, 7, 15]) } else { r.gen_range(0..16) };
    let chal = one(r, &CHALS);
    // (a challenge several hundred characters long leaves no room to pad the client data to a chosen length)
    let long_chal = chal.starts_with("extended") && chal.len() > 8;
    let mut v = with(wgen(), &[
        ("type", json!(one(r, &TYPES))), ("chal", json!(chal)), ("sig", json!(one(r, &WSIGS))),
        ("key", json!(one(r, &WKEYS))), ("payload", json!(one(r, &PAYLOADS))),
        ("flags", json!(flags_of(flags))),
        ("xbits", json!(if r.gen_bool(0.8) { 0 } else { r.gen_range(0..256) & XMASK as i64 })),
        ("alen", json!(if r.gen_bool(0.7) { *pick(r, &[37i64, 37, 41, 77]) } else { *pick(r, &ALENS) })),
        ("clen", json!(if r.gen_bool(0.7) { *pick(r, &[0i64, 0, 400, 1024]) } else { *pick(r, &CLENS) })),
        ("layout", json!(pick(r, &LAYOUTS))),
    ]);
    if long_chal {
        v["clen"] = json!(0);
    }
    v
}

fn random_ed25519(r: &mut StdRng) -> Value {
    with(egen(), &[
        ("payload", json!(pick(r, &PAYLOADS))), ("key", json!(pick(r, &EKEYS))), ("sig", json!(pick(r, &ESIGS))),
        ("plen", json!(*pick(r, &[0i64, 1, 2, 31, 32, 33, 64, 128, 257, 1024, 4096, 4097, 9000]))),
        ("bit", json!(r.gen_range(0..80_000i64))),
    ])
}

fn main() {
    match cli() {
        Mode::Exec { input, output } => {
            let mut t = Trace::create(&output);
            for (idx, b) in read_behaviours(&input).iter().enumerate() {
                let kseed = b.cfg.get("kseed").and_then(|v| v.as_u64()).unwrap_or(10_000 + idx as u64);
                let sys = Sys::new(kseed);
                t.reset(reset_event(kseed));
                for op in &b.ops {
                    t.step(sys.step(op));
                }
            }
            t.finish();
        }
        Mode::Drive { seed, runs, len, output } => {
            let mut t = Trace::create(&output);
            let mut r = StdRng::seed_from_u64(seed);
            let cat = catalogue();
            // the catalogue and the encoder lengths 0..300 are walked cyclically from a seeded offset
            let mut ci = r.gen_range(0..cat.len());
            let mut bi = r.gen_range(0..301usize);
            for run in 0..runs {
                let kseed = (seed.wrapping_mul(7919).wrapping_add(run as u64)) % (1 << 30);
                let sys = Sys::new(kseed);
                t.reset(reset_event(kseed));
                for _ in 0..len {
                    let bit = r.gen_range(0..1i64 << 20);
                    let op = match r.gen_range(0..10) {
                        0..=4 => {
                            let mut op = cat[ci % cat.len()].clone();
                            ci += 1;
                            // genuine variation that is not a corruption: rendering of the client data
                            if s(&op, "op") == "webauthn" && n(&op, "clen") == 0 && r.gen_bool(0.3) {
                                op["layout"] = json!(pick(&mut r, &LAYOUTS));
                            }
                            op
                        }
                        5 | 6 => random_webauthn(&mut r),
                        7 => random_ed25519(&mut r),
                        _ => {
                            bi += 1;
                            b64_op(&mut r, bi % 301)
                        }
                    };
                    t.step(sys.step(&with(op, &[("bit", json!(bit))])));
                }
            }
            t.finish();
        }
    }
}
