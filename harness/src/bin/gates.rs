//! Binding of spec/Gates.tla: examples/pausable (counter) and examples/upgradeable v1 -> v2.
//! After a real `upgrade` (which swaps in the repository's prebuilt v2 WASM) the harness re-registers
//! the v2 example compiled from the tree at the same address — instance storage, and with it the
//! Migrating flag written by the tree's `upgrade`, is kept — so `migrate` runs tree code.
#![allow(dead_code)]
use soroban_sdk::{Address, BytesN, Env};
use verif_harness::*;

#[path = "/repo/examples/pausable/src/contract.rs"]
mod counter;
#[path = "/repo/examples/upgradeable/v1/src/contract.rs"]
mod v1;
#[path = "/repo/examples/upgradeable/v2/src/contract.rs"]
mod v2;

/// The pausable example's entry points declared the other ways the macros have to cope with: the environment
/// parameter spelled with a path or taken by value, the guarded functions being methods of a trait implementation.
/// Driven through the example's generated client.
mod counterlab {
    use soroban_sdk::{contract, contractimpl, contracttype, Address};
    use stellar_contract_utils::pausable::{self as pausable, Pausable};
    use stellar_macros::{when_not_paused, when_paused};

    #[contracttype]
    pub enum DataKey {
        Owner,
        Counter,
    }

    #[contract]
    pub struct CounterLab;

    pub trait Counting {
        fn increment(e: &soroban_sdk::Env) -> i32;
        fn emergency_reset(e: soroban_sdk::Env);
    }

    #[contractimpl]
    impl CounterLab {
        pub fn __constructor(e: &soroban_sdk::Env, owner: Address) {
            e.storage().instance().set(&DataKey::Owner, &owner);
            e.storage().instance().set(&DataKey::Counter, &0);
        }
    }

    #[contractimpl]
    impl Counting for CounterLab {
        #[when_not_paused]
        fn increment(e: &soroban_sdk::Env) -> i32 {
            let counter: i32 = e.storage().instance().get(&DataKey::Counter).expect("counter should be set");
            e.storage().instance().set(&DataKey::Counter, &(counter + 1));
            counter + 1
        }

        #[when_paused]
        fn emergency_reset(e: soroban_sdk::Env) {
            e.storage().instance().set(&DataKey::Counter, &0);
        }
    }

    #[contractimpl]
    impl Pausable for CounterLab {
        fn paused(e: &soroban_sdk::Env) -> bool {
            pausable::paused(e)
        }

        fn pause(e: &soroban_sdk::Env, caller: Address) {
            caller.require_auth();
            let owner: Address = e.storage().instance().get(&DataKey::Owner).expect("owner should be set");
            if owner != caller {
                panic!("not the owner");
            }
            pausable::pause(e);
        }

        fn unpause(e: &soroban_sdk::Env, caller: Address) {
            caller.require_auth();
            let owner: Address = e.storage().instance().get(&DataKey::Owner).expect("owner should be set");
            if owner != caller {
                panic!("not the owner");
            }
            pausable::unpause(e);
        }
    }
}

const V2_WASM: &str = "/repo/examples/upgradeable/testdata/upgradeable_v2_example.wasm";

struct Sys {
    e: Env,
    names: Names,
    c: Address,
    flavour: String,
    is_v2: bool,
    hash: Option<BytesN<32>>,
    lab: bool,
}

impl Sys {
    fn new(flavour: &str, lab: bool) -> Sys {
        let e = new_env(&LedgerCfg::default());
        let names = Names::new(&e, &["a", "b"]);
        let a = names.get("a");
        let (c, hash) = match flavour {
            "counter" if lab => (e.register(counterlab::CounterLab, (a,)), None),
            "counter" => (e.register(counter::ExampleContract, (a,)), None),
            "upgrade" => {
                let wasm = std::fs::read(V2_WASM).expect("prebuilt v2 wasm");
                let h: BytesN<32> = e.deployer().upload_contract_wasm(wasm.as_slice());
                (e.register(v1::ExampleContract, (a,)), Some(h))
            }
            "upgrade2" => {
                // v2 deployed directly (never upgraded); its owner entry is what v1's constructor would have written
                let wasm = std::fs::read(V2_WASM).expect("prebuilt v2 wasm");
                let h: BytesN<32> = e.deployer().upload_contract_wasm(wasm.as_slice());
                let c = e.register(v2::ExampleContract, ());
                e.as_contract(&c, || e.storage().instance().set(&v2::OWNER, &a));
                (c, Some(h))
            }
            f => panic!("flavour {f}"),
        };
        let is_v2 = flavour == "upgrade2";
        let flavour_s = flavour.to_string();
        Sys { e, names, c, flavour: flavour_s, is_v2, hash, lab }
    }

    fn obs(&self) -> Value {
        no_auth(&self.e);
        let paused = if self.flavour == "counter" {
            counter::ExampleContractClient::new(&self.e, &self.c).paused()
        } else {
            false
        };
        let pending = if self.flavour.starts_with("upgrade") {
            self.e.as_contract(&self.c, || stellar_contract_utils::upgradeable::can_complete_migration(&self.e))
        } else {
            false
        };
        json!({"paused": paused, "pending": pending})
    }

    fn step(&mut self, op: &Value) -> Option<Value> {
        let e = self.e.clone();
        let e = &e;
        let kind = s(op, "op");
        let who = auth_addrs(op, &self.names);
        let caller = self.names.get(s(op, "caller"));
        let mut ret: i64 = 0;
        let r = match (self.flavour.as_str(), kind) {
            ("counter", "increment") => {
                no_auth(e);
                let rr = counter::ExampleContractClient::new(e, &self.c).try_increment();
                if let Ok(Ok(v)) = &rr { ret = *v as i64; }
                res_of(&rr)
            }
            ("counter", "ereset") => {
                no_auth(e);
                res_of(&counter::ExampleContractClient::new(e, &self.c).try_emergency_reset())
            }
            ("counter", "pause") | ("counter", "unpause") => {
                set_auth_same(e, &who, &Inv::new(&self.c, kind, args(e, (caller.clone(),))));
                let cl = counter::ExampleContractClient::new(e, &self.c);
                if kind == "pause" { res_of(&cl.try_pause(&caller)) } else { res_of(&cl.try_unpause(&caller)) }
            }
            ("upgrade", "upgrade") | ("upgrade2", "upgrade") => {
                let h = self.hash.clone().unwrap();
                set_auth_same(e, &who, &Inv::new(&self.c, "upgrade", args(e, (h.clone(), caller.clone()))));
                let r = if self.is_v2 {
                    res_of(&v2::ExampleContractClient::new(e, &self.c).try_upgrade(&h, &caller))
                } else {
                    res_of(&v1::ExampleContractClient::new(e, &self.c).try_upgrade(&h, &caller))
                };
                if r.0 == "ok" {
                    // run the tree's v2 instead of the prebuilt artifact from here on
                    e.register_at(&self.c, v2::ExampleContract, ());
                    self.is_v2 = true;
                }
                r
            }
            ("upgrade", "migrate") | ("upgrade2", "migrate") => {
                if !self.is_v2 {
                    // v1 has no migrate entry point: the call cannot even be dispatched
                    ("fail", -4)
                } else {
                    let d = v2::Data { num1: 1, num2: 2 };
                    let d2 = v2::Data { num1: 1, num2: 2 };
                    set_auth_same(e, &who, &Inv::new(&self.c, "migrate", args(e, (d2, caller.clone()))));
                    res_of(&v2::ExampleContractClient::new(e, &self.c).try_migrate(&d, &caller))
                }
            }
            _ => return None,
        };
        Some(json!({"op": op, "res": r.0, "err": r.1, "ret": ret, "obs": self.obs()}))
    }

    fn reset_event(&self) -> Value {
        json!({"op": {"op": "reset", "flavour": self.flavour, "lab": self.lab, "owner": "a", "caller": "none", "auth": []},
               "res": "ok", "err": 0, "ret": 0, "obs": self.obs()})
    }
}

fn main() {
    match cli() {
        Mode::Exec { input, output } => {
            let mut t = Trace::create(&output);
            for (bi, b) in read_behaviours(&input).iter().enumerate() {
                let fl = b.cfg.get("flavour").and_then(|v| v.as_str()).unwrap_or("counter").to_string();
                let lab = b.cfg.get("lab").and_then(|v| v.as_bool()).unwrap_or(bi % 2 == 1);
                let mut sys = Sys::new(&fl, lab);
                t.reset(sys.reset_event());
                for op in &b.ops {
                    if let Some(ev) = sys.step(op) {
                        t.step(ev);
                    }
                }
            }
            t.finish();
        }
        Mode::Drive { seed, runs, len, output } => {
            let mut t = Trace::create(&output);
            let mut r = StdRng::seed_from_u64(seed);
            for run in 0..runs {
                let fl = match run % 4 { 0 | 2 => "counter", 1 => "upgrade", _ => "upgrade2" };
                let mut sys = Sys::new(fl, run % 4 == 2);
                t.reset(sys.reset_event());
                for _ in 0..len {
                    time_passes(&sys.e, &mut r, 3000);
                    time_passes_long(&sys.e, &mut r);
                    let kinds: &[&str] = if fl == "counter" { &["increment", "increment", "ereset", "pause", "unpause"] } else { &["upgrade", "migrate", "migrate"] };
                    let kind = *pick(&mut r, kinds);
                    let caller = if r.gen_bool(0.8) { "a" } else { "b" };
                    let mut auth = if r.gen_bool(0.15) { subset(&mut r, &["a", "b"]) } else { vec![] };
                    if r.gen_bool(0.85) { auth.push(caller.into()); }
                    let op = json!({"op": kind, "caller": caller, "auth": auth});
                    if let Some(ev) = sys.step(&op) {
                        t.step(ev);
                    }
                }
            }
            t.finish();
        }
    }
}
