//! Binding of spec/FeeForwarder.tla (C19): the two fee-forwarder examples compiled from their real
//! source and a thin contract forwarding 1:1 to the fee-abstraction library (both approval
//! strategies, allow-list without a role gate), over three thin Base fee tokens and two instances
//! of a logging target with a failing mode.
//!
//! The user's authorization is an explicit mock-authorization tree:
//!   root  forwarder.forward(fee_token, max_fee, expiration, target, fn, args)   [require_auth_for_args]
//!   subs  fee_token.approve(user, forwarder, max_fee, expiration)
//!         target.hit_auth(user, x)                       (when the target asks for the user's authorization)
//! The op's `diff` says which single component of the ROOT differs from the call as submitted
//! (the sub-invocations always describe the submitted call, so that a forwarder that ignores a
//! component is not masked by a nested mismatch), or which part is missing.
#![allow(dead_code)]
use soroban_sdk::{vec as svec, Address, Env, IntoVal, Symbol, Val, Vec as SVec};
use stellar_fee_abstraction::{FeeAbstractionApproval, FeeAbstractionStorageKey};
use verif_harness::*;

#[path = "/repo/examples/fee-forwarder-permissionless/src/contract.rs"]
mod pl;
#[path = "/repo/examples/fee-forwarder-permissioned/src/contract.rs"]
mod pd;

/// Thin contract over the library: every entry point is a one-line forward.
mod libfw {
    use soroban_sdk::{contract, contractimpl, Address, Env, Symbol, Val, Vec};
    use stellar_fee_abstraction::{collect_fee_and_invoke, set_allowed_fee_token, sweep_token, FeeAbstractionApproval};

    #[contract]
    pub struct LibForwarder;

    #[contractimpl]
    impl LibForwarder {
        pub fn forward(
            e: &Env,
            fee_token: Address,
            fee_amount: i128,
            max_fee_amount: i128,
            expiration_ledger: u32,
            target_contract: Address,
            target_fn: Symbol,
            target_args: Vec<Val>,
            user: Address,
            fee_recipient: Address,
            approval: FeeAbstractionApproval,
        ) -> Val {
            collect_fee_and_invoke(
                e, &fee_token, fee_amount, max_fee_amount, expiration_ledger, &target_contract, &target_fn,
                &target_args, &user, &fee_recipient, approval,
            )
        }
        pub fn allow(e: &Env, token: Address) {
            set_allowed_fee_token(e, &token, true);
        }
        pub fn disallow(e: &Env, token: Address) {
            set_allowed_fee_token(e, &token, false);
        }
        pub fn sweep(e: &Env, token: Address, recipient: Address) -> i128 {
            sweep_token(e, &token, &recipient)
        }
    }
}

/// Thin Base fee token: mint for funding, and the allowance with its live_until_ledger.
mod token {
    use soroban_sdk::{contract, contractimpl, Address, Env, MuxedAddress, String};
    use stellar_tokens::fungible::{Base, FungibleToken};

    #[contract]
    pub struct FeeToken;

    #[contractimpl]
    impl FeeToken {
        pub fn __constructor(e: &Env) {
            Base::set_metadata(e, 7, String::from_str(e, "F"), String::from_str(e, "F"));
        }
        pub fn mint(e: &Env, to: Address, amount: i128) {
            Base::mint(e, &to, amount);
        }
        pub fn allowance_until(e: &Env, owner: Address, spender: Address) -> (i128, u32) {
            let d = Base::allowance_data(e, &owner, &spender);
            (d.amount, d.live_until_ledger)
        }
    }

    #[contractimpl(contracttrait)]
    impl FungibleToken for FeeToken {
        type ContractType = Base;
    }
}

/// Logging target: records every call with its arguments; told to fail, it panics AFTER recording
/// (so that only the host's rollback can remove the record).
mod target {
    use soroban_sdk::{contract, contractimpl, contracttype, Address, Env, Symbol, Vec};

    #[contracttype]
    pub enum K {
        Log,
        Fail,
    }

    #[contracttype]
    #[derive(Clone)]
    pub struct Entry {
        pub f: Symbol,
        pub x: u32,
        pub who: Option<Address>,
    }

    #[contract]
    pub struct Target;

    fn record(e: &Env, f: &str, x: u32, who: Option<Address>) {
        let mut log: Vec<Entry> = e.storage().instance().get(&K::Log).unwrap_or(Vec::new(e));
        log.push_back(Entry { f: Symbol::new(e, f), x, who });
        e.storage().instance().set(&K::Log, &log);
        if e.storage().instance().get(&K::Fail).unwrap_or(false) {
            panic!("target told to fail");
        }
    }

    #[contractimpl]
    impl Target {
        pub fn set_fail(e: &Env, fail: bool) {
            e.storage().instance().set(&K::Fail, &fail);
        }
        pub fn hit(e: &Env, x: u32) -> u32 {
            record(e, "hit", x, None);
            x + 1
        }
        pub fn hit_auth(e: &Env, who: Address, x: u32) -> u32 {
            who.require_auth();
            record(e, "hit_auth", x, Some(who));
            x + 1
        }
        pub fn log(e: &Env) -> Vec<Entry> {
            e.storage().instance().get(&K::Log).unwrap_or(Vec::new(e))
        }
    }
}

const NOW0: u32 = 10;
const TOKS: [&str; 3] = ["t1", "t2", "t3"];
const ACCTS: [&str; 4] = ["u", "r", "q", "fw"];
const TGTS: [&str; 2] = ["tg1", "tg2"];
const SLOTS: u32 = 4;

#[derive(Clone, Copy, PartialEq)]
enum Flavour {
    Permissionless,
    Permissioned,
    Lib,
}

struct Sys {
    e: Env,
    names: Names,
    fw: Address,
    fl: Flavour,
    flavour: String,
    eager: bool,
    fund: i64,
    /// a library getter trapped outside a host-protected call: the run ends after the current event
    broken: std::cell::Cell<bool>,
    /// set-up regime: the forwarder holds a long-lived allowance over its own balance in every token
    selfal: bool,
}

/// Model numbers at and beyond +-TOP stand for the ends of the i128 range: -TOP + k = i128::MIN + k, TOP - k = i128::MAX - k
/// (the traces hold 32-bit numbers; the embedding keeps order and differences near each end).
const TOP: i64 = 1_000_000_000;
fn big(x: i64) -> i128 {
    let x = x.clamp(-TOP, TOP);
    if x <= -TOP + 1_000_000 {
        i128::MIN + (x + TOP) as i128
    } else if x >= TOP - 1_000_000 {
        i128::MAX - (TOP - x) as i128
    } else {
        x as i128
    }
}
fn small(v: i128) -> Value {
    if v.abs() < (1 << 29) {
        json!(v as i64)
    } else if v >= i128::MAX - 900_000 {
        json!(TOP - (i128::MAX - v) as i64)
    } else if v <= i128::MIN + 900_000 {
        json!(-TOP + (v - i128::MIN) as i64)
    } else {
        json!(-999_999)
    }
}

impl Sys {
    fn new(flavour: &str, strategy: &str, fund: i64, selfal: bool) -> Sys {
        let e = new_env(&LedgerCfg { seq: NOW0, min_temp: 16, min_persistent: 1_000_000, max_ttl: 6_000_000 });
        let mut names = Names::new(&e, &["u", "r", "q", "m", "ad"]);
        let (fw, fl, eager) = match flavour {
            "permissionless" => (e.register(pl::FeeForwarder, ()), Flavour::Permissionless, true),
            "permissioned" => (
                e.register(pd::FeeForwarder, (names.get("ad"), names.get("m"), svec![&e, names.get("r")])),
                Flavour::Permissioned,
                false,
            ),
            "lib" => (e.register(libfw::LibForwarder, ()), Flavour::Lib, strategy == "Eager"),
            f => panic!("flavour {f}"),
        };
        names.insert("fw", fw.clone());
        for t in TOKS {
            let a = e.register(token::FeeToken, ());
            names.insert(t, a.clone());
            // genesis funding of the user and of the forwarder itself (not judged)
            for who in ["u", "fw"] {
                token::FeeTokenClient::new(&e, &a).mint(&names.get(who), &(fund as i128));
            }
            if selfal {
                // set-up, not judged: in its own frame the forwarder is the invoker, so the token takes its approval
                // (on a network: a forwarded call whose target is the token's `approve`)
                let (e2, fw2, a2) = (e.clone(), fw.clone(), a.clone());
                e2.as_contract(&fw2, || {
                    token::FeeTokenClient::new(&e2, &a2).approve(&fw2, &fw2, &1_000_000i128, &(NOW0 + 1_000_000));
                });
            }
        }
        for t in TGTS {
            let a = e.register(target::Target, ());
            names.insert(t, a);
        }
        Sys { e, names, fw, fl, flavour: flavour.to_string(), eager, fund, broken: std::cell::Cell::new(false), selfal }
    }

    fn strategy(&self) -> &'static str {
        if self.eager { "Eager" } else { "Lazy" }
    }

    fn obs(&self) -> Value {
        let e = &self.e;
        no_auth(e);
        let (mut bal, mut al, mut tg) = (JMap::new(), JMap::new(), JMap::new());
        for t in TOKS {
            let tc = token::FeeTokenClient::new(e, &self.names.get(t));
            let (mut b, mut a) = (JMap::new(), JMap::new());
            for x in ACCTS {
                let xa = self.names.get(x);
                b.insert(x.to_string(), small(tc.balance(&xa)));
                let amt = tc.allowance(&xa, &self.fw);
                let (amt2, until) = tc.allowance_until(&xa, &self.fw);
                // the trait getter and the detailed one must agree; log the trait getter's amount
                let _ = amt2;
                a.insert(x.to_string(), json!({"amt": small(amt), "until": until}));
            }
            bal.insert(t.to_string(), Value::Object(b));
            al.insert(t.to_string(), Value::Object(a));
        }
        for t in TGTS {
            let log = target::TargetClient::new(e, &self.names.get(t)).log();
            let ent = match log.last() {
                Some(en) => json!({"n": log.len(), "fn": en.f.to_string(), "x": en.x,
                                   "who": self.names.opt_name(&en.who)}),
                None => json!({"n": 0, "fn": "none", "x": 0, "who": "none"}),
            };
            tg.insert(t.to_string(), ent);
        }
        // allow-list: the enumeration entries under the library's public storage key (plain reads) ...
        let (cnt, at, idx) = e.as_contract(&self.fw, || {
            let cnt: u32 = e.storage().instance().get(&FeeAbstractionStorageKey::Count).unwrap_or(0);
            let mut at = Vec::new();
            for i in 0..SLOTS {
                let t: Option<Address> = e.storage().persistent().get(&FeeAbstractionStorageKey::Token(i));
                at.push(self.names.opt_name(&t));
            }
            let mut idx = JMap::new();
            for t in TOKS {
                let i: Option<u32> =
                    e.storage().persistent().get(&FeeAbstractionStorageKey::TokenIndex(self.names.get(t)));
                idx.insert(t.to_string(), json!(i.map(|v| v as i64).unwrap_or(-1)));
            }
            (cnt, at, idx)
        });
        // ... and the library's getters.  Neither example exposes them, so they run in a test frame of the
        // forwarder, where the host does not catch a trap: a getter that panics (e.g. on inconsistent
        // enumeration entries) is recorded as `getter_ok = false` and ends the run (the Env is dropped).
        let mut allowed = JMap::new();
        let mut enabled = false;
        let mut getter_ok = !self.broken.get();
        for t in TOKS {
            allowed.insert(t.to_string(), json!(false));
        }
        if getter_ok {
            let hook = std::panic::take_hook();
            std::panic::set_hook(Box::new(|_| {}));
            let r = std::panic::catch_unwind(std::panic::AssertUnwindSafe(|| {
                e.as_contract(&self.fw, || {
                    let v: Vec<bool> = TOKS
                        .iter()
                        .map(|t| stellar_fee_abstraction::is_allowed_fee_token(e, &self.names.get(t)))
                        .collect();
                    (v, stellar_fee_abstraction::is_fee_token_allowlist_enabled(e))
                })
            }));
            std::panic::set_hook(hook);
            match r {
                Ok((v, en)) => {
                    for (t, b) in TOKS.iter().zip(v) {
                        allowed.insert(t.to_string(), json!(b));
                    }
                    enabled = en;
                }
                Err(_) => {
                    getter_ok = false;
                    self.broken.set(true);
                }
            }
        }
        json!({"bal": bal, "al": al, "tg": tg,
               "list": {"cnt": cnt, "at": at, "idx": idx, "allowed": allowed, "enabled": enabled,
                        "getter_ok": getter_ok}})
    }

    fn other<'a>(cur: &'a str, all: &[&'a str]) -> &'a str {
        if cur == all[0] { all[1] } else { all[0] }
    }

    fn forward(&mut self, op: &Value, now: u32) -> (&'static str, i64) {
        let e = self.e.clone();
        let e = &e;
        let tok_n = s(op, "tok");
        let tgt_n = s(op, "tgt");
        let tfn = s(op, "tfn");
        let diff = s(op, "diff");
        let (fee, max) = (big(n(op, "fee")), big(n(op, "max")));
        let exp = (now as i64 + n(op, "de")).max(0) as u32;
        let x = n(op, "x") as u32;
        let user = self.names.get(s(op, "user"));
        let rel = self.names.get(s(op, "rel"));
        let tok = self.names.get(tok_n);
        let tgt = self.names.get(tgt_n);
        let targs = |who: &Address, f: &str, x: u32| -> SVec<Val> {
            if f == "hit_auth" { svec![e, who.clone().into_val(e), x.into_val(e)] } else { svec![e, x.into_val(e)] }
        };
        let fn_sym = Symbol::new(e, tfn);
        let args_v = targs(&user, tfn, x);

        // the failing mode of the target is set outside the judged call
        no_auth(e);
        let tfail = op.get("tfail").and_then(|v| v.as_bool()).unwrap_or(false);
        for t in TGTS {
            target::TargetClient::new(e, &self.names.get(t)).set_fail(&(tfail && t == tgt_n));
        }

        // ---- what the user signed -----------------------------------------------------------
        // (user = forwarder: a contract without __check_auth cannot sign, and `mock_auths` would replace the
        // contract registered at that address by a mock account - so no entry is attached for it)
        let mut auths: Vec<(Address, Inv)> = Vec::new();
        if diff != "absent" && user != self.fw {
            let a_tok = if diff == "token" { self.names.get(Self::other(tok_n, &TOKS)) } else { tok.clone() };
            let a_max = if diff == "max" { max.wrapping_sub(1) } else { max };
            let a_exp = if diff == "exp" { exp + 1 } else { exp };
            let a_tgt = if diff == "target" { self.names.get(Self::other(tgt_n, &TGTS)) } else { tgt.clone() };
            // two fields of the same type exchanged in what the user signed
            let (a_tok, a_tgt) = if diff == "swap_tt" { (a_tgt, a_tok) } else { (a_tok, a_tgt) };
            let a_fn = if diff == "fn" { Symbol::new(e, Self::other(tfn, &["hit", "hit_auth"])) } else { fn_sym.clone() };
            let a_args = if diff == "args" { targs(&user, tfn, x + 1) } else { args_v.clone() };
            let mut subs = Vec::new();
            if diff != "noappr" {
                subs.push(Inv::new(&tok, "approve", args(e, (user.clone(), self.fw.clone(), max, exp))));
            }
            if tfn == "hit_auth" && diff != "notgt" {
                subs.push(Inv::new(&tgt, "hit_auth", args(e, (user.clone(), x))));
            }
            let root = Inv::new(&self.fw, "forward", args(e, (a_tok, a_max, a_exp, a_tgt, a_fn, a_args))).with_subs(subs);
            auths.push((user.clone(), root));
        }
        // ---- what the relayer signed: the call as submitted -------------------------------------
        let rauth = op.get("rauth").and_then(|v| v.as_bool()).unwrap_or(false);
        if rauth && self.fl != Flavour::Lib && rel != self.fw {
            let root = Inv::new(
                &self.fw,
                "forward",
                args(e, (tok.clone(), fee, max, exp, tgt.clone(), fn_sym.clone(), args_v.clone(), user.clone(), rel.clone())),
            );
            auths.push((rel.clone(), root));
        }
        if diff == "forged" && user == self.fw {
            // A contract that is no custom account cannot authorize anything it does not invoke itself; the test host,
            // however, can be told to wave every authorization through (the repository's own tests do). Whatever
            // succeeds in the forwarder's name under that regime succeeds without the user's authorization.
            e.mock_all_auths_allowing_non_root_auth();
        } else {
            set_auths(e, &auths);
        }
        match self.fl {
            Flavour::Permissionless => {
                let rr = pl::FeeForwarderClient::new(e, &self.fw)
                    .try_forward(&tok, &fee, &max, &exp, &tgt, &fn_sym, &args_v, &user, &rel);
                res_of(&rr)
            }
            Flavour::Permissioned => res_of(
                &pd::FeeForwarderClient::new(e, &self.fw)
                    .try_forward(&tok, &fee, &max, &exp, &tgt, &fn_sym, &args_v, &user, &rel),
            ),
            Flavour::Lib => {
                let appr = if self.eager { FeeAbstractionApproval::Eager } else { FeeAbstractionApproval::Lazy };
                res_of(
                    &libfw::LibForwarderClient::new(e, &self.fw)
                        .try_forward(&tok, &fee, &max, &exp, &tgt, &fn_sym, &args_v, &user, &rel, &appr),
                )
            }
        }
    }

    fn step(&mut self, op: &Value) -> Value {
        let e = self.e.clone();
        let e = &e;
        set_seq(e, seq(e) + n(op, "dt") as u32);
        let now = seq(e);
        let kind = s(op, "op");
        let mut ret: Value = json!(0);
        let (res, code): (&'static str, i64) = match kind {
            "forward" => self.forward(op, now),
            "approve" => {
                let user = self.names.get(s(op, "user"));
                let tok = self.names.get(s(op, "tok"));
                let amt = big(n(op, "max"));
                let until = (now as i64 + n(op, "de")).max(0) as u32;
                set_auths(e, &[(user.clone(), Inv::new(&tok, "approve", args(e, (user.clone(), self.fw.clone(), amt, until))))]);
                res_of(&token::FeeTokenClient::new(e, &tok).try_approve(&user, &self.fw, &amt, &until))
            }
            "allow" | "disallow" => {
                let tok = self.names.get(s(op, "tok"));
                let oauth = op.get("oauth").and_then(|v| v.as_bool()).unwrap_or(false);
                match self.fl {
                    Flavour::Permissionless => ("fail", -9), // the example has no such entry point
                    Flavour::Permissioned => {
                        let oper = self.names.get(s(op, "oper"));
                        let f = if kind == "allow" { "enable_fee_token" } else { "disable_fee_token" };
                        if oauth {
                            set_auths(e, &[(oper.clone(), Inv::new(&self.fw, f, args(e, (tok.clone(), oper.clone()))))]);
                        } else {
                            no_auth(e);
                        }
                        let cl = pd::FeeForwarderClient::new(e, &self.fw);
                        if kind == "allow" { res_of(&cl.try_enable_fee_token(&tok, &oper)) } else { res_of(&cl.try_disable_fee_token(&tok, &oper)) }
                    }
                    Flavour::Lib => {
                        no_auth(e);
                        let cl = libfw::LibForwarderClient::new(e, &self.fw);
                        if kind == "allow" { res_of(&cl.try_allow(&tok)) } else { res_of(&cl.try_disallow(&tok)) }
                    }
                }
            }
            "sweep" => {
                // (beyond C19, monitors X06_..): the forwarder's whole balance of `tok` paid out to the account named in `rel`
                let tok = self.names.get(s(op, "tok"));
                let to = self.names.get(s(op, "rel"));
                let oauth = op.get("oauth").and_then(|v| v.as_bool()).unwrap_or(false);
                match self.fl {
                    Flavour::Permissionless => ("fail", -9), // the example has no such entry point
                    Flavour::Permissioned => {
                        let oper = self.names.get(s(op, "oper"));
                        if oauth {
                            set_auths(e, &[(oper.clone(), Inv::new(&self.fw, "sweep_tokens", args(e, (tok.clone(), to.clone(), oper.clone()))))]);
                        } else {
                            no_auth(e);
                        }
                        let r = pd::FeeForwarderClient::new(e, &self.fw).try_sweep_tokens(&tok, &to, &oper);
                        if let Ok(Ok(v)) = &r {
                            ret = small(*v);
                        }
                        res_of(&r)
                    }
                    Flavour::Lib => {
                        no_auth(e);
                        let r = libfw::LibForwarderClient::new(e, &self.fw).try_sweep(&tok, &to);
                        if let Ok(Ok(v)) = &r {
                            ret = small(*v);
                        }
                        res_of(&r)
                    }
                }
            }
            k => panic!("op {k}"),
        };
        json!({"op": op, "now": now, "res": res, "err": code, "ret": ret, "obs": self.obs()})
    }

    fn reset_event(&self) -> Value {
        json!({"op": {"op": "reset", "flavour": self.flavour, "strategy": self.strategy(), "fund": self.fund,
                      "exec": ["r"], "mgr": ["m"], "selfal": self.selfal,
                      "dt": 0, "tok": "none", "fee": 0, "max": 0, "de": 0, "user": "none", "rel": "none",
                      "rauth": false, "diff": "none", "tfn": "none", "tfail": false, "x": 0, "tgt": "none",
                      "oper": "none", "oauth": false},
               "now": NOW0, "res": "ok", "err": 0, "ret": 0, "obs": self.obs()})
    }
}

fn main() {
    match cli() {
        Mode::Exec { input, output } => {
            let mut t = Trace::create(&output);
            for b in read_behaviours(&input) {
                let flavour = b.cfg.get("flavour").and_then(|v| v.as_str()).unwrap_or("permissioned").to_string();
                let strategy = b.cfg.get("strategy").and_then(|v| v.as_str()).unwrap_or("Lazy").to_string();
                let fund = b.cfg.get("fund").and_then(|v| v.as_i64()).unwrap_or(3);
                let selfal = b.cfg.get("selfal").and_then(|v| v.as_bool()).unwrap_or(false);
                let mut sys = Sys::new(&flavour, &strategy, fund, selfal);
                t.reset(sys.reset_event());
                for op in &b.ops {
                    let ev = sys.step(op);
                    t.step(ev);
                    if sys.broken.get() {
                        break;
                    }
                }
            }
            t.finish();
        }
        Mode::Drive { seed, runs, len, output } => {
            let mut t = Trace::create(&output);
            let mut r = StdRng::seed_from_u64(seed);
            let combos = [("permissionless", "Eager"), ("permissioned", "Lazy"), ("lib", "Eager"), ("lib", "Lazy"), ("permissioned", "Lazy")];
            let diffs = ["token", "max", "exp", "target", "fn", "args", "absent", "noappr", "notgt", "swap_tt"];
            for run in 0..runs {
                let (fl, st) = combos[run % combos.len()];
                let fund = *pick(&mut r, &[4i64, 30, 1000]);
                let mut sys = Sys::new(fl, st, fund, (run / combos.len()) % 2 == 1);
                t.reset(sys.reset_event());
                let mut last = sys.obs();
                // Directed (Lazy strategy, every other such run): a standing allowance, then a forward whose authorized maximum
                // lies at the very bottom of the i128 range with a small positive fee - no arithmetic on (max, fee) may let it pass;
                // and the mirror image at the top (fee = i128::MAX against a maximum of i128::MAX - 1).
                if st == "Lazy" && (run / combos.len()) % 2 == 0 {
                    let mk = |kind: &str, fee: i64, max: i64, de: i64| json!({"op": kind, "dt": 0, "tok": "t1", "fee": fee, "max": max, "de": de, "user": "u",
                        "rel": "r", "rauth": true, "diff": "none", "tfn": "hit", "tfail": false, "x": 1, "tgt": "tg1", "oper": "none", "oauth": false});
                    let k = *pick(&mut r, &[1i64, 3, 19]);
                    for op in [mk("approve", 0, 30, 50), mk("forward", k + 1, -TOP + k, 5), mk("forward", 1, -TOP, 5), mk("forward", TOP, TOP - 1, 5)] {
                        let ev = sys.step(&op);
                        last = ev["obs"].clone();
                        t.step(ev);
                    }
                }
                for _ in 0..len {
                    let dt = if r.gen_ratio(1, 25) { 3000 } else { *pick(&mut r, &[0i64, 0, 0, 0, 1, 1, 2]) };
                    let has_list = fl != "permissionless";
                    let kind = match r.gen_range(0..10) {
                        0..=4 => "forward",
                        5 | 6 => "approve",
                        7 | 8 if has_list => if r.gen_bool(0.55) { "allow" } else { "disallow" },
                        9 if has_list && r.gen_bool(0.6) => "sweep",
                        _ => "forward",
                    };
                    let base = json!({"op": kind, "dt": dt, "tok": "t1", "fee": 0, "max": 0, "de": 0, "user": "none",
                                      "rel": "none", "rauth": false, "diff": "none", "tfn": "hit", "tfail": false,
                                      "x": 0, "tgt": "tg1", "oper": "none", "oauth": false});
                    let mut op = base;
                    match kind {
                        "forward" => {
                            // state feedback: mostly an accepted token, a fee the user can pay
                            let listed: Vec<&str> = TOKS.iter().copied()
                                .filter(|t| last["list"]["allowed"][*t].as_bool().unwrap_or(false)).collect();
                            let tok = if !listed.is_empty() && r.gen_bool(0.85) { *pick(&mut r, &listed) } else { *pick(&mut r, &TOKS) };
                            let user = match r.gen_range(0..20) { 0 | 2 => "fw", 1 => "r", _ => "u" };
                            let ub = last["bal"][tok][user].as_i64().unwrap_or(0);
                            let pre = last["al"][tok][user]["amt"].as_i64().unwrap_or(0);
                            // max around the pre-existing allowance (below / at / above), the boundary
                            // values, or an amount the user can pay
                            let plain = r.gen_bool(0.6);
                            let max = match r.gen_range(0..12) {
                                _ if plain => r.gen_range(1..=ub.clamp(1, 12)),
                                0 => 0,
                                1 => *pick(&mut r, &[-1i64, -1, -TOP, -TOP + 3, -TOP + 19, TOP, TOP - 1]),
                                2 | 3 if pre > 0 => pre - 1,
                                4 | 5 if pre > 0 => pre,
                                6 | 7 if pre > 0 => pre + 1,
                                _ => r.gen_range(1..=ub.clamp(1, 12)),
                            };
                            let fee = match r.gen_range(0..12) {
                                _ if plain => if max > 1 { r.gen_range(1..=max) } else { 1 },
                                0 => 0,
                                1 => -1,
                                // a maximum at the bottom of the i128 range: fees around the distance to i128::MIN
                                _ if max <= -TOP + 1000 => (max + TOP) + *pick(&mut r, &[-1i64, 0, 1, 1, 2]),
                                2 => max + 1,
                                3 | 4 => max,
                                5 => ub + 1,
                                6 => ub,
                                _ => if max > 1 { r.gen_range(1..=max) } else { 1 },
                            };
                            let de = if plain { *pick(&mut r, &[0i64, 1, 2, 5, 30]) } else { *pick(&mut r, &[-1i64, -1, 0, 0, 1, 1, 2]) };
                            let good = r.gen_bool(0.75);
                            let rel = if good || r.gen_bool(0.5) { "r" } else { *pick(&mut r, &["q", "u"]) };
                            op["tok"] = json!(tok);
                            op["user"] = json!(user);
                            op["fee"] = json!(fee);
                            op["max"] = json!(max);
                            op["de"] = json!(de);
                            op["rel"] = json!(rel);
                            op["rauth"] = json!(good || r.gen_bool(0.6));
                            op["diff"] = json!(if user == "fw" && r.gen_bool(0.7) { "forged" } else if good { "none" } else { *pick(&mut r, &diffs) });
                            op["tfn"] = json!(if r.gen_bool(0.3) { "hit_auth" } else { "hit" });
                            op["tfail"] = json!(r.gen_bool(0.08));
                            op["x"] = json!(r.gen_range(0..5));
                            op["tgt"] = json!(if r.gen_bool(0.85) { "tg1" } else { "tg2" });
                        }
                        "sweep" => {
                            // mostly a token of which the forwarder holds something, by the manager
                            let held: Vec<&str> = TOKS.iter().copied().filter(|t| last["bal"][*t]["fw"].as_i64().unwrap_or(0) > 0).collect();
                            op["tok"] = json!(if !held.is_empty() && r.gen_bool(0.8) { *pick(&mut r, &held) } else { *pick(&mut r, &TOKS) });
                            op["rel"] = json!(*pick(&mut r, &["r", "q", "u", "fw"]));
                            let goodop = r.gen_bool(0.75);
                            op["oper"] = json!(if goodop { "m" } else { *pick(&mut r, &["r", "ad", "u", "m"]) });
                            op["oauth"] = json!(goodop || r.gen_bool(0.5));
                        }
                        "approve" => {
                            op["tok"] = json!(*pick(&mut r, &TOKS));
                            op["user"] = json!(if r.gen_bool(0.9) { "u" } else { "r" });
                            op["max"] = json!(*pick(&mut r, &[0i64, 1, 2, 3, 5, 8, 12, -1]));
                            op["de"] = json!(*pick(&mut r, &[-1i64, 0, 1, 2, 4, 50]));
                        }
                        _ => {
                            // state feedback: mostly a legal edit by the manager
                            let inlist = |t: &str| last["list"]["idx"][t].as_i64().unwrap_or(-1) >= 0;
                            let want_in = kind == "disallow";
                            let fit: Vec<&str> = TOKS.iter().copied().filter(|t| inlist(t) == want_in).collect();
                            let tok = if !fit.is_empty() && r.gen_bool(0.8) { *pick(&mut r, &fit) } else { *pick(&mut r, &TOKS) };
                            let goodop = r.gen_bool(0.85);
                            op["tok"] = json!(tok);
                            op["oper"] = json!(if goodop { "m" } else { *pick(&mut r, &["r", "ad", "u", "m"]) });
                            op["oauth"] = json!(goodop || r.gen_bool(0.5));
                        }
                    }
                    let ev = sys.step(&op);
                    last = ev["obs"].clone();
                    t.step(ev);
                    if sys.broken.get() {
                        break;
                    }
                }
            }
            t.finish();
        }
    }
}
