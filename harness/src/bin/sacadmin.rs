//! Binding of spec/SacAdmin.tla (beyond the listed properties, X02): the Stellar-Asset-Contract admin
//! helpers through the REAL examples sac-admin-generic (custom account, `__check_auth`) and
//! sac-admin-wrapper (role-gated forwarding entry points), administering a real built-in SAC.
//!
//! No authorization is mocked.  Every authorization is a genuine `SorobanAuthorizationEntry`
//! installed with `Env::set_auths`:
//! * plain accounts (a, m, b, n) are instances of an always-yes custom-account contract written here;
//!   an account "authorizes" a call iff an entry for its address with exactly that invocation as root
//!   is attached;
//! * the generic admin contract's entry carries `Signature { public_key, signature }` where the
//!   signature is an ed25519 signature over the host's payload (sha256 of the
//!   `HashIdPreimage::SorobanAuthorization`) — or, for `sig != "good"`, something that is not one.
//! `VERIF_DEBUG=1` prints the host's last diagnostic events of every failed call to stderr (that is how
//! the two recorded deviations of the generic flavour were located: SACAddressMismatch for a context
//! addressed to the admin contract itself, SACMissingFnParam for the amount of a genuine mint/clawback).
#![allow(dead_code)]
use std::collections::BTreeMap;

use ed25519_dalek::{Signer, SigningKey};
use sha2::{Digest, Sha256};
use soroban_sdk::{
    symbol_short,
    testutils::{IssuerFlags, MockAuthInvoke},
    token::{StellarAssetClient, TokenClient},
    xdr::{
        Hash, HashIdPreimage, HashIdPreimageSorobanAuthorization, Limits, ScVal, SorobanAddressCredentials,
        SorobanAuthorizationEntry, SorobanCredentials, WriteXdr,
    },
    Address, BytesN, Env, IntoVal, TryFromVal, Val,
};
use verif_harness::*;

#[path = "/repo/examples/sac-admin-generic/src/contract.rs"]
mod generic;
#[path = "/repo/examples/sac-admin-wrapper/src/contract.rs"]
mod wrapper;

mod accounts {
    use soroban_sdk::{contract, contractimpl, Val};

    /// Custom account that accepts every authorization request made with an attached entry.
    #[contract]
    pub struct YesAccount;
    #[contractimpl]
    impl YesAccount {
        #[allow(non_snake_case)]
        pub fn __check_auth(_signature_payload: Val, _signatures: Val, _auth_context: Val) {}
    }
}

const HOLDERS: [&str; 3] = ["u", "v", "self"];
const ROLE_ACCOUNTS: [&str; 3] = ["a", "m", "b"];
const KEYS: [&str; 3] = ["kc", "ko", "kx"];

struct Sys {
    e: Env,
    generic: bool,
    names: Names,
    sac: Address,
    c: Address,
    keys: BTreeMap<String, SigningKey>,
    forger: SigningKey,
    nonce: i64,
    max: i64,
    curr: i64,
}

impl Sys {
    fn new(flavour: &str, max: i64, curr: i64) -> Sys {
        let e = new_env(&LedgerCfg::default());
        let mut names = Names { fwd: BTreeMap::new() };
        for n in ["a", "m", "b", "n"] {
            names.insert(n, e.register(accounts::YesAccount, ()));
        }
        for n in ["u", "v"] {
            names.insert(n, <Address as soroban_sdk::testutils::Address>::generate(&e));
        }
        let mut keys = BTreeMap::new();
        for (i, k) in KEYS.iter().enumerate() {
            keys.insert(k.to_string(), SigningKey::from_bytes(&[i as u8 + 1; 32]));
        }
        // the SAC is born with "n" as administrator; revocable + clawback-enabled issuer, so that
        // set_authorized(false) and clawback are supported for every balance created afterwards
        let sac_c = e.register_stellar_asset_contract_v2(names.get("n"));
        sac_c.issuer().set_flag(IssuerFlags::RevocableFlag);
        sac_c.issuer().set_flag(IssuerFlags::ClawbackEnabledFlag);
        let sac = sac_c.address();
        let generic = flavour == "generic";
        let c = if generic {
            let pk = |k: &str| BytesN::from_array(&e, keys[k].verifying_key().as_bytes());
            e.register(generic::SacAdminExampleContract, (sac.clone(), pk("kc"), pk("ko"), max as i128, curr as i128))
        } else {
            e.register(wrapper::ExampleContract, (names.get("a"), names.get("m"), sac.clone()))
        };
        names.insert("self", c.clone());
        let mut sys =
            Sys { e, generic, names, sac, c, keys, forger: SigningKey::from_bytes(&[99u8; 32]), nonce: 0, max, curr };
        // hand the SAC over to the admin contract (set-up step, authorized by n's genuine entry)
        let (sac, c, n) = (sys.sac.clone(), sys.c.clone(), sys.names.get("n"));
        let root = MockAuthInvoke { contract: &sac, fn_name: "set_admin", args: args(&sys.e, (c.clone(),)), sub_invokes: &[] };
        let ent = sys.entry(&n, ScVal::Void, &root);
        sys.e.set_auths(&[ent]);
        StellarAssetClient::new(&sys.e, &sac).set_admin(&c);
        sys
    }

    // -------------------------------------------------------------------------------------
    // genuine authorization entries
    // -------------------------------------------------------------------------------------
    fn entry(&mut self, addr: &Address, signature: ScVal, root: &MockAuthInvoke) -> SorobanAuthorizationEntry {
        self.nonce += 1;
        SorobanAuthorizationEntry {
            root_invocation: root.into(),
            credentials: SorobanCredentials::Address(SorobanAddressCredentials {
                address: addr.try_into().unwrap(),
                nonce: self.nonce,
                signature_expiration_ledger: seq(&self.e) + 1000,
                signature,
            }),
        }
    }

    fn pk(&self, key: &str) -> BytesN<32> {
        BytesN::from_array(&self.e, self.keys[key].verifying_key().as_bytes())
    }

    /// The admin contract's own entry for `root`, claiming public key `key`.  `sig`:
    /// "good" — ed25519 signature of the host's payload by that key; "bad" — that key's signature of
    /// another message; "forged" — a signature of the right payload by a key that is not `key`.
    fn signed_entry(&mut self, key: &str, sig: &str, root: &MockAuthInvoke) -> SorobanAuthorizationEntry {
        let c = self.c.clone();
        let mut ent = self.entry(&c, ScVal::Void, root);
        let SorobanCredentials::Address(cr) = &mut ent.credentials else { unreachable!() };
        let pre = HashIdPreimage::SorobanAuthorization(HashIdPreimageSorobanAuthorization {
            network_id: Hash(self.e.ledger().network_id().to_array()),
            nonce: cr.nonce,
            signature_expiration_ledger: cr.signature_expiration_ledger,
            invocation: ent.root_invocation.clone(),
        });
        let mut digest: [u8; 32] = Sha256::digest(pre.to_xdr(Limits::none()).expect("xdr")).into();
        let signer = match sig {
            "good" => &self.keys[key],
            "bad" => {
                digest[7] ^= 0x20;
                &self.keys[key]
            }
            "forged" => &self.forger,
            k => panic!("sig {k}"),
        };
        let s = generic::Signature {
            public_key: self.pk(key),
            signature: BytesN::from_array(&self.e, &signer.sign(&digest).to_bytes()),
        };
        let v: Val = s.into_val(&self.e);
        cr.signature = ScVal::try_from_val(&self.e, &v).expect("signature");
        ent
    }

    /// entries realising the op's authorization: every plain account of `auth` and, when a key is
    /// named, the admin contract itself, each for exactly `root`
    fn install(&mut self, op: &Value, root: &MockAuthInvoke) {
        let mut entries = vec![];
        for who in strs(op, "auth") {
            let a = self.names.get(&who);
            entries.push(self.entry(&a, ScVal::Void, root));
        }
        if s(op, "key") != "none" {
            entries.push(self.signed_entry(s(op, "key"), s(op, "sig"), root));
        }
        self.e.set_auths(&entries);
    }

    fn obs(&self) -> Value {
        let e = &self.e;
        e.set_auths(&[]);
        let sacc = StellarAssetClient::new(e, &self.sac);
        let tok = TokenClient::new(e, &self.sac);
        let (mut bal, mut authz) = (JMap::new(), JMap::new());
        for h in HOLDERS {
            let a = self.names.get(h);
            bal.insert(h.to_string(), jint(tok.balance(&a)));
            authz.insert(h.to_string(), json!(sacc.authorized(&a)));
        }
        let mut mgr = vec![];
        if !self.generic {
            let w = wrapper::ExampleContractClient::new(e, &self.c);
            for a in ROLE_ACCOUNTS {
                if w.has_role(&self.names.get(a), &symbol_short!("manager")).is_some() {
                    mgr.push(a.to_string());
                }
            }
        }
        json!({"admin": self.names.name_of(&sacc.admin()), "bal": bal, "authz": authz, "mgr": mgr})
    }

    fn step(&mut self, op: &Value) -> Value {
        let e = self.e.clone();
        let e = &e;
        let kind = s(op, "op");
        let (sac, c) = (self.sac.clone(), self.c.clone());
        let acct = if s(op, "acct") == "none" { self.names.get("u") } else { self.names.get(s(op, "acct")) };
        let who = if s(op, "who") == "none" { self.names.get("b") } else { self.names.get(s(op, "who")) };
        let amt = n(op, "amt") as i128;
        let flag = op["flag"].as_bool().expect("flag");
        let okey = if s(op, "okey") == "none" { self.pk("kx") } else { self.pk(s(op, "okey")) };
        let sacc = StellarAssetClient::new(e, &sac);
        let r = match (kind, s(op, "via")) {
            // ---- the SAC's functions called directly; whoever administers the SAC must authorize ----
            ("mint", "sac") => {
                self.install(op, &MockAuthInvoke { contract: &sac, fn_name: "mint", args: args(e, (acct.clone(), amt)), sub_invokes: &[] });
                res_of(&sacc.try_mint(&acct, &amt))
            }
            ("clawback", "sac") => {
                self.install(op, &MockAuthInvoke { contract: &sac, fn_name: "clawback", args: args(e, (acct.clone(), amt)), sub_invokes: &[] });
                res_of(&sacc.try_clawback(&acct, &amt))
            }
            ("set_authorized", "sac") => {
                self.install(op, &MockAuthInvoke { contract: &sac, fn_name: "set_authorized", args: args(e, (acct.clone(), flag)), sub_invokes: &[] });
                res_of(&sacc.try_set_authorized(&acct, &flag))
            }
            ("set_admin", "sac") => {
                self.install(op, &MockAuthInvoke { contract: &sac, fn_name: "set_admin", args: args(e, (acct.clone(),)), sub_invokes: &[] });
                res_of(&sacc.try_set_admin(&acct))
            }
            // a user-facing SAC function on the admin contract's own balance ("any other function")
            ("xfer", _) => {
                self.install(op, &MockAuthInvoke { contract: &sac, fn_name: "transfer", args: args(e, (c.clone(), acct.clone(), amt)), sub_invokes: &[] });
                res_of(&TokenClient::new(e, &sac).try_transfer(&c, &acct, &amt))
            }
            // ---- the wrapper's role-gated entry points ----
            ("mint", "wrap") => {
                self.install(op, &MockAuthInvoke { contract: &c, fn_name: "mint", args: args(e, (acct.clone(), amt, who.clone())), sub_invokes: &[] });
                res_of(&wrapper::ExampleContractClient::new(e, &c).try_mint(&acct, &amt, &who))
            }
            ("clawback", "wrap") => {
                self.install(op, &MockAuthInvoke { contract: &c, fn_name: "clawback", args: args(e, (acct.clone(), amt, who.clone())), sub_invokes: &[] });
                res_of(&wrapper::ExampleContractClient::new(e, &c).try_clawback(&acct, &amt, &who))
            }
            ("set_authorized", "wrap") => {
                self.install(op, &MockAuthInvoke { contract: &c, fn_name: "set_authorized", args: args(e, (acct.clone(), flag, who.clone())), sub_invokes: &[] });
                res_of(&wrapper::ExampleContractClient::new(e, &c).try_set_authorized(&acct, &flag, &who))
            }
            ("set_admin", "wrap") => {
                self.install(op, &MockAuthInvoke { contract: &c, fn_name: "set_admin", args: args(e, (acct.clone(), who.clone())), sub_invokes: &[] });
                res_of(&wrapper::ExampleContractClient::new(e, &c).try_set_admin(&acct, &who))
            }
            ("grant", _) => {
                let role = symbol_short!("manager");
                self.install(op, &MockAuthInvoke { contract: &c, fn_name: "grant_role", args: args(e, (acct.clone(), role.clone(), who.clone())), sub_invokes: &[] });
                res_of(&wrapper::ExampleContractClient::new(e, &c).try_grant_role(&acct, &role, &who))
            }
            ("revoke", _) => {
                let role = symbol_short!("manager");
                self.install(op, &MockAuthInvoke { contract: &c, fn_name: "revoke_role", args: args(e, (acct.clone(), role.clone(), who.clone())), sub_invokes: &[] });
                res_of(&wrapper::ExampleContractClient::new(e, &c).try_revoke_role(&acct, &role, &who))
            }
            // ---- the generic example's own management entry points ----
            ("assign", _) => {
                self.install(op, &MockAuthInvoke { contract: &c, fn_name: "assign_operator", args: args(e, (okey.clone(),)), sub_invokes: &[] });
                res_of(&generic::SacAdminExampleContractClient::new(e, &c).try_assign_operator(&okey))
            }
            ("remove", _) => {
                self.install(op, &MockAuthInvoke { contract: &c, fn_name: "remove_operator", args: args(e, (okey.clone(),)), sub_invokes: &[] });
                res_of(&generic::SacAdminExampleContractClient::new(e, &c).try_remove_operator(&okey))
            }
            ("set_limit", _) => {
                self.install(op, &MockAuthInvoke { contract: &c, fn_name: "set_minting_limit", args: args(e, (okey.clone(), amt)), sub_invokes: &[] });
                res_of(&generic::SacAdminExampleContractClient::new(e, &c).try_set_minting_limit(&okey, &amt))
            }
            ("update_limit", _) => {
                self.install(op, &MockAuthInvoke { contract: &c, fn_name: "update_minting_limit", args: args(e, (okey.clone(), amt)), sub_invokes: &[] });
                res_of(&generic::SacAdminExampleContractClient::new(e, &c).try_update_minting_limit(&okey, &amt))
            }
            (k, v) => panic!("op {k} via {v}"),
        };
        if std::env::var("VERIF_DEBUG").is_ok() && r.0 == "fail" {
            if let Ok(evs) = e.host().get_diagnostic_events() {
                for ev in evs.0.iter().rev().take(12).rev() {
                    eprintln!("DIAG {:?}", ev.event.body);
                }
            }
        }
        json!({"op": op, "res": r.0, "err": r.1, "obs": self.obs()})
    }

    fn reset_event(&self) -> Value {
        let mut op = mkop("reset");
        op["flavour"] = json!(if self.generic { "generic" } else { "wrapper" });
        op["max"] = json!(self.max);
        op["curr"] = json!(self.curr);
        json!({"op": op, "res": "ok", "err": 0, "obs": self.obs()})
    }
}

/// an op record with every field of the model's op records at its default
fn mkop(kind: &str) -> Value {
    json!({"op": kind, "via": "sac", "acct": "none", "amt": 0, "flag": false, "key": "none", "sig": "none",
           "okey": "none", "who": "none", "auth": []})
}

fn with(mut op: Value, kv: &[(&str, Value)]) -> Value {
    for (k, v) in kv {
        op[*k] = v.clone();
    }
    op
}

// ---------------------------------------------------------------------------------------------
// random driver with state feedback
// ---------------------------------------------------------------------------------------------
struct Fb {
    ops: Vec<String>,                   // keys the driver believes to be registered operators
    lim: BTreeMap<String, (i64, i64)>,  // believed (max, minted so far) per key
}

fn keysig(r: &mut StdRng, preferred: &[String], p_pref: f64) -> (String, String) {
    let key = if !preferred.is_empty() && r.gen_bool(p_pref) { pick(r, preferred).clone() } else { pick(r, &KEYS).to_string() };
    let sig = if r.gen_bool(0.88) { "good" } else { *pick(r, &["bad", "forged"]) };
    (key, sig.to_string())
}

fn extra_auth(r: &mut StdRng) -> Vec<String> {
    if r.gen_bool(0.1) { subset(r, &["n", "a", "m", "b"]) } else { vec![] }
}

fn bal_of(obs: &Value, h: &str) -> i64 {
    obs["bal"][h].as_i64().unwrap_or(0)
}

fn gen_generic(r: &mut StdRng, fb: &Fb, obs: &Value) -> Value {
    let chief = vec!["kc".to_string()];
    let foreign = obs["admin"] == "n";
    if foreign && r.gen_bool(0.5) {
        // n administers the SAC: it hands it back (or acts itself), sometimes without authorizing
        let kind = *pick(r, &["set_admin", "set_admin", "mint"]);
        let auth: Vec<String> = if r.gen_bool(0.85) { vec!["n".into()] } else { vec![] };
        return with(mkop(kind), &[("acct", json!(if kind == "mint" { "u" } else { "self" })), ("amt", json!(r.gen_range(0..4))), ("auth", json!(auth))]);
    }
    let x = r.gen_range(0..100);
    let mut auth = extra_auth(r);
    if foreign && r.gen_bool(0.3) && !auth.contains(&"n".to_string()) {
        auth.push("n".into());
    }
    if x < 30 {
        let (key, sig) = keysig(r, &fb.ops, 0.75);
        let (max, cur) = fb.lim.get(&key).copied().unwrap_or((3, 0));
        let rem = (max - cur).max(0);
        let amt = *pick(r, &[0, 1, 1, 2, rem, rem, rem + 1, rem / 2, rem / 2 + 1, -1, max + 1]);
        with(mkop("mint"), &[("acct", json!(pick(r, &HOLDERS))), ("amt", json!(amt)), ("key", json!(key)), ("sig", json!(sig)), ("auth", json!(auth))])
    } else if x < 42 {
        let (key, sig) = keysig(r, &fb.ops, 0.75);
        let h = *pick(r, &HOLDERS);
        let b = bal_of(obs, h);
        let amt = *pick(r, &[0, 1, b, b, b / 2, b + 1, -1]);
        with(mkop("clawback"), &[("acct", json!(h)), ("amt", json!(amt)), ("key", json!(key)), ("sig", json!(sig)), ("auth", json!(auth))])
    } else if x < 52 {
        let (key, sig) = keysig(r, &fb.ops, 0.75);
        with(mkop("set_authorized"), &[("acct", json!(pick(r, &HOLDERS))), ("flag", json!(r.gen_bool(0.6))), ("key", json!(key)), ("sig", json!(sig)), ("auth", json!(auth))])
    } else if x < 62 {
        let (key, sig) = keysig(r, &chief, 0.75);
        let b = bal_of(obs, "self");
        let amt = *pick(r, &[0, 1, b, b / 2, b + 1]);
        with(mkop("xfer"), &[("acct", json!(pick(r, &["u", "v"]))), ("amt", json!(amt)), ("key", json!(key)), ("sig", json!(sig)), ("auth", json!(auth))])
    } else if x < 69 {
        let (key, sig) = keysig(r, &chief, 0.7);
        with(mkop("set_admin"), &[("acct", json!(pick(r, &["n", "n", "self"]))), ("key", json!(key)), ("sig", json!(sig)), ("auth", json!(auth))])
    } else {
        let (key, sig) = keysig(r, &chief, 0.8);
        let kind = *pick(r, &["assign", "remove", "set_limit", "update_limit"]);
        let okey = *pick(r, &KEYS);
        let amt = *pick(r, &[0i64, 1, 3, 5, 10, 100, 1000, -1]);
        with(mkop(kind), &[("via", json!("adm")), ("okey", json!(okey)), ("amt", json!(amt)), ("key", json!(key)), ("sig", json!(sig)), ("auth", json!(auth))])
    }
}

fn gen_wrapper(r: &mut StdRng, obs: &Value) -> Value {
    let foreign = obs["admin"] == "n";
    if foreign && r.gen_bool(0.5) {
        let auth: Vec<String> = if r.gen_bool(0.85) { vec!["n".into()] } else { vec![] };
        return with(mkop("set_admin"), &[("acct", json!("self")), ("auth", json!(auth))]);
    }
    let mgrs: Vec<String> = obs["mgr"].as_array().map(|a| a.iter().map(|x| x.as_str().unwrap().to_string()).collect()).unwrap_or_default();
    let x = r.gen_range(0..100);
    let mut auth = extra_auth(r);
    if x < 72 {
        let kind = if x < 35 { "mint" } else if x < 50 { "clawback" } else if x < 62 { "set_authorized" } else { "set_admin" };
        let direct = r.gen_bool(0.15);
        let who = if kind == "set_admin" {
            pick(r, &["a", "a", "a", "m", "b"]).to_string()
        } else if !mgrs.is_empty() && r.gen_bool(0.8) {
            pick(r, &mgrs).clone()
        } else {
            pick(r, &ROLE_ACCOUNTS).to_string()
        };
        if r.gen_bool(0.88) && !auth.contains(&who) {
            auth.push(who.clone());
        }
        let h = *pick(r, &HOLDERS);
        let b = bal_of(obs, h);
        let amt = if kind == "clawback" { *pick(r, &[0, 1, b, b / 2, b + 1, -1]) } else { *pick(r, &[0i64, 1, 2, 7, 1000, -1]) };
        let acct = if kind == "set_admin" { *pick(r, &["n", "n", "self"]) } else { h };
        let mut op = with(mkop(kind), &[("via", json!(if direct { "sac" } else { "wrap" })), ("acct", json!(acct)), ("amt", json!(amt)),
                                         ("flag", json!(r.gen_bool(0.6))), ("who", json!(if direct { "none".to_string() } else { who })), ("auth", json!(auth))]);
        if direct && r.gen_bool(0.5) {
            // an entry for the wrapper's own address: the wrapper is no custom account, it cannot authorize
            op = with(op, &[("key", json!(pick(r, &KEYS))), ("sig", json!("good"))]);
        }
        op
    } else {
        let kind = *pick(r, &["grant", "grant", "revoke"]);
        let who = pick(r, &["a", "a", "a", "m", "b"]).to_string();
        if r.gen_bool(0.88) && !auth.contains(&who) {
            auth.push(who.clone());
        }
        let acct = if kind == "revoke" && !mgrs.is_empty() && r.gen_bool(0.8) { pick(r, &mgrs).clone() } else { pick(r, &ROLE_ACCOUNTS).to_string() };
        with(mkop(kind), &[("via", json!("adm")), ("acct", json!(acct)), ("who", json!(who)), ("auth", json!(auth))])
    }
}

fn feedback(fb: &mut Fb, op: &Value, ev: &Value, admin_before_self: bool) {
    if ev["res"] != "ok" {
        return;
    }
    let okey = s(op, "okey").to_string();
    let amt = n(op, "amt");
    match s(op, "op") {
        "mint" if admin_before_self => {
            if let Some(l) = fb.lim.get_mut(s(op, "key")) {
                l.1 += amt;
            }
        }
        "assign" if !fb.ops.contains(&okey) => fb.ops.push(okey),
        "remove" => fb.ops.retain(|k| *k != okey),
        "set_limit" => {
            fb.lim.insert(okey, (amt, 0));
        }
        "update_limit" => {
            if let Some(l) = fb.lim.get_mut(&okey) {
                l.0 = amt;
            }
        }
        _ => {}
    }
}

fn main() {
    match cli() {
        Mode::Exec { input, output } => {
            let mut t = Trace::create(&output);
            for b in read_behaviours(&input) {
                let flavour = b.cfg.get("flavour").and_then(|v| v.as_str()).unwrap_or("generic").to_string();
                let max = b.cfg.get("max").and_then(|v| v.as_i64()).unwrap_or(3);
                let curr = b.cfg.get("curr").and_then(|v| v.as_i64()).unwrap_or(0);
                let mut sys = Sys::new(&flavour, max, curr);
                t.reset(sys.reset_event());
                for op in &b.ops {
                    let ev = sys.step(op);
                    t.step(ev);
                }
            }
            t.finish();
        }
        Mode::Drive { seed, runs, len, output } => {
            let mut t = Trace::create(&output);
            let mut r = StdRng::seed_from_u64(seed);
            for run in 0..runs {
                let generic = run % 3 != 2;
                let (max, curr) = *pick(&mut r, &[(0i64, 0i64), (1, 0), (3, 0), (5, 2), (10, 10), (10, 0), (100, 0), (1000, 990), (1_000_000, 0)]);
                let mut sys = Sys::new(if generic { "generic" } else { "wrapper" }, max, curr);
                let first = sys.reset_event();
                let mut obs = first["obs"].clone();
                t.reset(first);
                let mut fb = Fb { ops: vec!["ko".into()], lim: BTreeMap::from([("ko".to_string(), (max, curr))]) };
                for _ in 0..len {
                    let op = if generic { gen_generic(&mut r, &fb, &obs) } else { gen_wrapper(&mut r, &obs) };
                    let own = obs["admin"] == "self";
                    time_passes(&sys.e, &mut r, 3000);
                    time_passes_long(&sys.e, &mut r);
                    let ev = sys.step(&op);
                    feedback(&mut fb, &op, &ev, own);
                    obs = ev["obs"].clone();
                    t.step(ev);
                }
            }
            t.finish();
        }
    }
}
