//! Binding of spec/Rwa.tla (C04; RWA flavour of C01 and C02).
//!
//! * `token::RwaToken` — thin RWA token: `FungibleToken` with `ContractType = RWA` (so `transfer` and
//!   `transfer_from` go through the library's `ContractOverrides for RWA`), the library's pausable, and
//!   every `RWAToken` entry point forwarded 1:1 to `RWA::*` behind an operator check
//!   (`operator.require_auth()` + "is the configured operator"), as the trait documentation prescribes.
//! * `compliance::MockCompliance` — answers `can_transfer` / `can_create` as configured and LOGS every
//!   query and every `transferred` / `created` / `destroyed` notification with its arguments; the harness
//!   reads and clears the log after every call (`calls` of the event).  The log lives in contract
//!   storage, so the host rolls it back together with a failed token call.
//! * `idv::MockIdentityVerifier` — per-account verdicts for `verify_identity` and a recovery-target map
//!   for `recovery_target`, the two functions `RWA` calls on `IdentityVerifierClient`.
#![allow(dead_code)]
use std::collections::BTreeMap;

use soroban_sdk::{Address, Env, MuxedAddress};
use verif_harness::*;

mod compliance {
    use soroban_sdk::{contract, contractimpl, contracttype, symbol_short, Address, Env, Symbol, Vec};

    #[contracttype]
    #[derive(Clone, Debug)]
    pub struct CallRec {
        pub k: Symbol,
        pub from: Option<Address>,
        pub to: Option<Address>,
        pub amount: i128,
        pub token: Address,
    }

    const LOG: Symbol = symbol_short!("log");
    const CT: Symbol = symbol_short!("ct");
    const CC: Symbol = symbol_short!("cc");
    const TR: Symbol = symbol_short!("trap");

    fn push(e: &Env, k: &str, from: Option<Address>, to: Option<Address>, amount: i128, token: Address) {
        let mut l: Vec<CallRec> = e.storage().instance().get(&LOG).unwrap_or(Vec::new(e));
        l.push_back(CallRec { k: Symbol::new(e, k), from, to, amount, token });
        e.storage().instance().set(&LOG, &l);
    }

    #[contract]
    pub struct MockCompliance;

    #[contractimpl]
    impl MockCompliance {
        pub fn set_ct(e: &Env, v: bool) {
            e.storage().instance().set(&CT, &v);
        }

        pub fn set_cc(e: &Env, v: bool) {
            e.storage().instance().set(&CC, &v);
        }

        /// how a refusal is delivered: answered `false`, or (trap) by failing the call - the way the library's modular
        /// compliance contract refuses when one of its modules raises an error
        pub fn set_trap(e: &Env, v: bool) {
            e.storage().instance().set(&TR, &v);
        }

        pub fn take_log(e: &Env) -> Vec<CallRec> {
            let l: Vec<CallRec> = e.storage().instance().get(&LOG).unwrap_or(Vec::new(e));
            e.storage().instance().set(&LOG, &Vec::<CallRec>::new(e));
            l
        }

        pub fn can_transfer(e: &Env, from: Address, to: Address, amount: i128, token: Address) -> bool {
            push(e, "can_transfer", Some(from), Some(to), amount, token);
            let ok: bool = e.storage().instance().get(&CT).unwrap_or(true);
            if !ok && e.storage().instance().get(&TR).unwrap_or(false) {
                panic!("compliance module refuses");
            }
            ok
        }

        pub fn can_create(e: &Env, to: Address, amount: i128, token: Address) -> bool {
            push(e, "can_create", None, Some(to), amount, token);
            let ok: bool = e.storage().instance().get(&CC).unwrap_or(true);
            if !ok && e.storage().instance().get(&TR).unwrap_or(false) {
                panic!("compliance module refuses");
            }
            ok
        }

        pub fn transferred(e: &Env, from: Address, to: Address, amount: i128, token: Address) {
            push(e, "transferred", Some(from), Some(to), amount, token);
        }

        pub fn created(e: &Env, to: Address, amount: i128, token: Address) {
            push(e, "created", None, Some(to), amount, token);
        }

        pub fn destroyed(e: &Env, from: Address, amount: i128, token: Address) {
            push(e, "destroyed", Some(from), None, amount, token);
        }
    }
}

mod idv {
    use soroban_sdk::{contract, contractimpl, contracttype, panic_with_error, Address, Env};
    use stellar_tokens::rwa::RWAError;

    #[contracttype]
    pub enum Key {
        Bad(Address),
        Rec(Address),
    }

    #[contract]
    pub struct MockIdentityVerifier;

    #[contractimpl]
    impl MockIdentityVerifier {
        pub fn set_ok(e: &Env, account: Address, ok: bool) {
            e.storage().persistent().set(&Key::Bad(account), &!ok);
        }

        pub fn set_recovery(e: &Env, old_account: Address, target: Option<Address>) {
            match target {
                Some(t) => e.storage().persistent().set(&Key::Rec(old_account), &t),
                None => e.storage().persistent().remove(&Key::Rec(old_account)),
            }
        }

        pub fn verify_identity(e: &Env, account: Address) {
            if e.storage().persistent().get(&Key::Bad(account)).unwrap_or(false) {
                panic_with_error!(e, RWAError::IdentityVerificationFailed)
            }
        }

        pub fn recovery_target(e: &Env, old_account: Address) -> Option<Address> {
            e.storage().persistent().get(&Key::Rec(old_account))
        }
    }
}

mod token {
    use soroban_sdk::{contract, contracterror, contractimpl, panic_with_error, symbol_short, Address, Env, MuxedAddress, String, Symbol};
    use stellar_contract_utils::pausable::{self as pausable, Pausable};
    use stellar_tokens::{
        fungible::{Base, FungibleToken},
        rwa::{RWAToken, RWA},
    };

    const OPERATOR: Symbol = symbol_short!("operator");

    #[contracterror]
    #[derive(Copy, Clone, Debug, Eq, PartialEq, PartialOrd, Ord)]
    #[repr(u32)]
    pub enum TokenError {
        NotOperator = 1,
    }

    fn only_operator(e: &Env, operator: &Address) {
        operator.require_auth();
        let configured: Address = e.storage().instance().get(&OPERATOR).expect("operator set");
        if configured != *operator {
            panic_with_error!(e, TokenError::NotOperator);
        }
    }

    #[contract]
    pub struct RwaToken;

    #[contractimpl]
    impl RwaToken {
        pub fn __constructor(e: &Env, operator: Address, compliance: Address, identity_verifier: Address) {
            Base::set_metadata(e, 7, String::from_str(e, "RWA"), String::from_str(e, "RWA"));
            e.storage().instance().set(&OPERATOR, &operator);
            RWA::set_compliance(e, &compliance);
            RWA::set_identity_verifier(e, &identity_verifier);
        }
    }

    #[contractimpl(contracttrait)]
    impl FungibleToken for RwaToken {
        type ContractType = RWA;
    }

    #[contractimpl]
    impl Pausable for RwaToken {
        fn paused(e: &Env) -> bool {
            pausable::paused(e)
        }

        fn pause(e: &Env, caller: Address) {
            only_operator(e, &caller);
            pausable::pause(e);
        }

        fn unpause(e: &Env, caller: Address) {
            only_operator(e, &caller);
            pausable::unpause(e);
        }
    }

    #[contractimpl]
    impl RWAToken for RwaToken {
        fn forced_transfer(e: &Env, from: Address, to: Address, amount: i128, operator: Address) {
            only_operator(e, &operator);
            RWA::forced_transfer(e, &from, &to, amount);
        }

        fn mint(e: &Env, to: Address, amount: i128, operator: Address) {
            only_operator(e, &operator);
            RWA::mint(e, &to, amount);
        }

        fn burn(e: &Env, user_address: Address, amount: i128, operator: Address) {
            only_operator(e, &operator);
            RWA::burn(e, &user_address, amount);
        }

        fn recover_balance(e: &Env, old_account: Address, new_account: Address, operator: Address) -> bool {
            only_operator(e, &operator);
            RWA::recover_balance(e, &old_account, &new_account)
        }

        fn set_address_frozen(e: &Env, user_address: Address, freeze: bool, operator: Address) {
            only_operator(e, &operator);
            RWA::set_address_frozen(e, &user_address, freeze);
        }

        fn freeze_partial_tokens(e: &Env, user_address: Address, amount: i128, operator: Address) {
            only_operator(e, &operator);
            RWA::freeze_partial_tokens(e, &user_address, amount);
        }

        fn unfreeze_partial_tokens(e: &Env, user_address: Address, amount: i128, operator: Address) {
            only_operator(e, &operator);
            RWA::unfreeze_partial_tokens(e, &user_address, amount);
        }

        fn is_frozen(e: &Env, user_address: Address) -> bool {
            RWA::is_frozen(e, &user_address)
        }

        fn get_frozen_tokens(e: &Env, user_address: Address) -> i128 {
            RWA::get_frozen_tokens(e, &user_address)
        }

        fn version(e: &Env) -> String {
            RWA::version(e)
        }

        fn onchain_id(e: &Env) -> Address {
            RWA::onchain_id(e)
        }

        fn set_compliance(e: &Env, compliance: Address, operator: Address) {
            only_operator(e, &operator);
            RWA::set_compliance(e, &compliance);
        }

        fn compliance(e: &Env) -> Address {
            RWA::compliance(e)
        }

        fn set_identity_verifier(e: &Env, identity_verifier: Address, operator: Address) {
            only_operator(e, &operator);
            RWA::set_identity_verifier(e, &identity_verifier);
        }

        fn identity_verifier(e: &Env) -> Address {
            RWA::identity_verifier(e)
        }
    }
}

const OPERATOR: &str = "op";

struct Sys {
    e: Env,
    names: Names,
    accts: Vec<String>,
    tok: Address,
    cmp: Address,
    idv: Address,
    /// amounts are logged in the i128-edge regime (`fine_amount`)
    edge: bool,
}

fn jopt(names: &Names, a: &Option<Address>) -> Value {
    json!(names.opt_name(a))
}

impl Sys {
    fn new(accts: &[String], edge: bool) -> Sys {
        let e = new_env(&LedgerCfg::default());
        let mut all: Vec<&str> = accts.iter().map(|s| s.as_str()).collect();
        all.push(OPERATOR);
        let names = Names::new(&e, &all);
        let cmp = e.register(compliance::MockCompliance, ());
        let idv = e.register(idv::MockIdentityVerifier, ());
        let tok = e.register(token::RwaToken, (names.get(OPERATOR), cmp.clone(), idv.clone()));
        Sys { e, names, accts: accts.to_vec(), tok, cmp, idv, edge }
    }

    fn obs(&self) -> Value {
        no_auth(&self.e);
        let cl = token::RwaTokenClient::new(&self.e, &self.tok);
        let edge = self.edge;
        let jint = |v: i128| if edge { fine_units(v, -999_999) } else { jint(v) };
        let mut bal = JMap::new();
        let mut frozen = JMap::new();
        let mut afrozen = JMap::new();
        let mut allow = JMap::new();
        for a in &self.accts {
            let aa = self.names.get(a);
            bal.insert(a.clone(), jint(cl.balance(&aa)));
            frozen.insert(a.clone(), jint(cl.get_frozen_tokens(&aa)));
            afrozen.insert(a.clone(), json!(cl.is_frozen(&aa)));
            let mut row = JMap::new();
            for b in &self.accts {
                row.insert(b.clone(), jint(cl.allowance(&aa, &self.names.get(b))));
            }
            allow.insert(a.clone(), Value::Object(row));
        }
        json!({"supply": jint(cl.total_supply()), "bal": bal, "frozen": frozen, "afrozen": afrozen,
               "paused": cl.paused(), "allow": allow})
    }

    /// Reads and clears the compliance mock's call log.
    fn calls(&self) -> Value {
        no_auth(&self.e);
        let cl = compliance::MockComplianceClient::new(&self.e, &self.cmp);
        let edge = self.edge;
        let jint = |v: i128| if edge { fine_units(v, -999_999) } else { jint(v) };
        let mut out = Vec::new();
        for c in cl.take_log().iter() {
            out.push(json!({
                "k": c.k.to_string(),
                "from": jopt(&self.names, &c.from),
                "to": jopt(&self.names, &c.to),
                "amt": jint(c.amount),
                "tok": c.token == self.tok,
            }));
        }
        Value::Array(out)
    }

    fn step(&mut self, op: &Value) -> Value {
        let e = &self.e;
        set_seq(e, seq(e) + n(op, "dt") as u32);
        let now = seq(e);
        let who = auth_addrs(op, &self.names);
        let kind = s(op, "op");
        let amt = if self.edge { fine_amount(n(op, "amt")) } else { n(op, "amt") as i128 };
        let flag = op.get("flag").and_then(|v| v.as_bool()).unwrap_or(false);
        let nm = |k: &str| self.names.get(s(op, k));
        let cl = token::RwaTokenClient::new(e, &self.tok);
        let t = &self.tok;
        let mut ret = json!("-");
        let (res, code) = match kind {
            "mint" => {
                let (to, sp) = (nm("to"), nm("sp"));
                set_auth_same(e, &who, &Inv::new(t, "mint", args(e, (to.clone(), amt, sp.clone()))));
                res_of(&cl.try_mint(&to, &amt, &sp))
            }
            "transfer" => {
                let (from, to) = (nm("from"), nm("to"));
                set_auth_same(e, &who, &Inv::new(t, "transfer", args(e, (from.clone(), to.clone(), amt))));
                res_of(&cl.try_transfer(&from, &MuxedAddress::from(&to), &amt))
            }
            "transfer_from" => {
                let (from, to, sp) = (nm("from"), nm("to"), nm("sp"));
                set_auth_same(e, &who, &Inv::new(t, "transfer_from", args(e, (sp.clone(), from.clone(), to.clone(), amt))));
                res_of(&cl.try_transfer_from(&sp, &from, &to, &amt))
            }
            "approve" => {
                let (from, sp) = (nm("from"), nm("sp"));
                let until = n(op, "until").max(0) as u32;
                set_auth_same(e, &who, &Inv::new(t, "approve", args(e, (from.clone(), sp.clone(), amt, until))));
                res_of(&cl.try_approve(&from, &sp, &amt, &until))
            }
            "forced_transfer" => {
                let (from, to, sp) = (nm("from"), nm("to"), nm("sp"));
                set_auth_same(e, &who, &Inv::new(t, "forced_transfer", args(e, (from.clone(), to.clone(), amt, sp.clone()))));
                res_of(&cl.try_forced_transfer(&from, &to, &amt, &sp))
            }
            "burn" => {
                let (from, sp) = (nm("from"), nm("sp"));
                set_auth_same(e, &who, &Inv::new(t, "burn", args(e, (from.clone(), amt, sp.clone()))));
                res_of(&cl.try_burn(&from, &amt, &sp))
            }
            "recover" => {
                let (from, to, sp) = (nm("from"), nm("to"), nm("sp"));
                set_auth_same(e, &who, &Inv::new(t, "recover_balance", args(e, (from.clone(), to.clone(), sp.clone()))));
                let r = cl.try_recover_balance(&from, &to, &sp);
                if let Ok(Ok(b)) = &r {
                    ret = json!(if *b { "true" } else { "false" });
                }
                res_of(&r)
            }
            "freeze" => {
                let (from, sp) = (nm("from"), nm("sp"));
                set_auth_same(e, &who, &Inv::new(t, "freeze_partial_tokens", args(e, (from.clone(), amt, sp.clone()))));
                res_of(&cl.try_freeze_partial_tokens(&from, &amt, &sp))
            }
            "unfreeze" => {
                let (from, sp) = (nm("from"), nm("sp"));
                set_auth_same(e, &who, &Inv::new(t, "unfreeze_partial_tokens", args(e, (from.clone(), amt, sp.clone()))));
                res_of(&cl.try_unfreeze_partial_tokens(&from, &amt, &sp))
            }
            "set_frozen" => {
                let (from, sp) = (nm("from"), nm("sp"));
                set_auth_same(e, &who, &Inv::new(t, "set_address_frozen", args(e, (from.clone(), flag, sp.clone()))));
                res_of(&cl.try_set_address_frozen(&from, &flag, &sp))
            }
            "pause" => {
                let sp = nm("sp");
                set_auth_same(e, &who, &Inv::new(t, "pause", args(e, (sp.clone(),))));
                res_of(&cl.try_pause(&sp))
            }
            "unpause" => {
                let sp = nm("sp");
                set_auth_same(e, &who, &Inv::new(t, "unpause", args(e, (sp.clone(),))));
                res_of(&cl.try_unpause(&sp))
            }
            // harness-level reconfiguration of the collaborators
            "set_id" => {
                no_auth(e);
                idv::MockIdentityVerifierClient::new(e, &self.idv).set_ok(&nm("from"), &flag);
                ("ok", 0)
            }
            "set_ct" => {
                no_auth(e);
                compliance::MockComplianceClient::new(e, &self.cmp).set_ct(&flag);
                // (amt = 1: from now on a refusal is delivered by failing the call instead of answering false)
                compliance::MockComplianceClient::new(e, &self.cmp).set_trap(&(n(op, "amt") == 1));
                ("ok", 0)
            }
            "set_cc" => {
                no_auth(e);
                compliance::MockComplianceClient::new(e, &self.cmp).set_cc(&flag);
                compliance::MockComplianceClient::new(e, &self.cmp).set_trap(&(n(op, "amt") == 1));
                ("ok", 0)
            }
            "set_rec" => {
                no_auth(e);
                let target = if s(op, "to") == "none" { None } else { Some(nm("to")) };
                idv::MockIdentityVerifierClient::new(e, &self.idv).set_recovery(&nm("from"), &target);
                ("ok", 0)
            }
            k => panic!("op {k}"),
        };
        // mint / burn / transfer events emitted by the token in this invocation
        let edge = self.edge;
        let conv = move |v: i128| if edge { fine_units(v, -999_999) } else { jint(v) };
        let mut evs: Vec<Value> = Vec::new();
        if !matches!(kind, "set_id" | "set_ct" | "set_cc" | "set_rec") {
            for (topics, data) in events_of(e, &self.names, &self.tok, &conv) {
                let k = topics.first().and_then(|v| v.as_str()).unwrap_or("?").to_string();
                let g = |i: usize| topics.get(i).cloned().unwrap_or(json!("none"));
                let x = data.get("amount").cloned().unwrap_or(json!(0));
                match k.as_str() {
                    "transfer" => evs.push(json!({"k": "transfer", "f": g(1), "t": g(2), "x": x})),
                    "mint" => evs.push(json!({"k": "mint", "f": "none", "t": g(1), "x": x})),
                    "burn" => evs.push(json!({"k": "burn", "f": g(1), "t": "none", "x": x})),
                    _ => {}
                }
            }
        }
        let calls = self.calls();
        json!({"op": op, "now": now, "res": res, "err": code, "ret": ret, "obs": self.obs(), "calls": calls, "evs": evs})
    }
}

fn reset_event(sys: &Sys) -> Value {
    json!({"op": {"op": "reset", "accts": sys.accts, "edge": sys.edge}, "now": seq(&sys.e), "res": "ok", "err": 0, "ret": "-",
           "obs": sys.obs(), "calls": [], "evs": []})
}

fn mkop(k: &str, from: &str, to: &str, sp: &str, amt: i64, flag: bool, until: i64, auth: Vec<String>, dt: i64) -> Value {
    json!({"op": k, "from": from, "to": to, "sp": sp, "amt": amt, "flag": flag, "until": until, "auth": auth, "dt": dt})
}

fn main() {
    match cli() {
        Mode::Exec { input, output } => {
            let mut t = Trace::create(&output);
            for b in read_behaviours(&input) {
                let accts: Vec<String> = match b.cfg.get("accts").and_then(|v| v.as_array()) {
                    Some(a) => a.iter().map(|x| x.as_str().expect("acct").to_string()).collect(),
                    None => vec!["a".into(), "b".into(), "c".into()],
                };
                let edge = b.cfg.get("edge").and_then(|v| v.as_bool()).unwrap_or(false);
                let mut sys = Sys::new(&accts, edge);
                t.reset(reset_event(&sys));
                for op in &b.ops {
                    let ev = sys.step(op);
                    t.step(ev);
                }
            }
            t.finish();
        }
        Mode::Drive { seed, runs, len, output } => {
            let mut t = Trace::create(&output);
            let mut r = StdRng::seed_from_u64(seed);
            for run in 0..runs {
                let accts: Vec<String> = if run % 3 == 2 {
                    vec!["a".into(), "b".into(), "c".into(), "d".into()]
                } else {
                    vec!["a".into(), "b".into(), "c".into()]
                };
                let an: Vec<&str> = accts.iter().map(|x| x.as_str()).collect();
                let mut everyone = an.clone();
                everyone.push(OPERATOR);
                // one run in three works at the i128 edge (amounts: whole units of 2^124 +- 1, i128::MAX)
                let edge = run % 3 == 2;
                let lat = |x: i64| if edge { (x + FINE / 2).div_euclid(FINE) * FINE } else { x };
                let mut sys = Sys::new(&accts, edge);
                t.reset(reset_event(&sys));
                let mut obs = sys.obs();
                // per-run temperament: how often the gates get closed
                let p_open = *pick(&mut r, &[0.6, 0.75, 0.9]);
                // what the harness last told the identity verifier about recovery targets
                let mut rec: BTreeMap<String, String> = BTreeMap::new();
                for step in 0..len {
                    let now = seq(&sys.e) as i64;
                    let dt = if r.gen_ratio(1, 25) { 3000 } else { *pick(&mut r, &[0i64, 0, 0, 0, 0, 0, 1, 1, 3, 20]) };
                    let get = |o: &Value, f: &str, a: &str| o[f][a].as_i64().unwrap_or(0);
                    // state feedback: prefer senders that hold something
                    let holders: Vec<&str> = an.iter().copied().filter(|a| get(&obs, "bal", a) > 0).collect();
                    let from = if !holders.is_empty() && r.gen_bool(0.75) { *pick(&mut r, &holders) } else { *pick(&mut r, &an) };
                    let mut to = if r.gen_bool(0.1) { from } else { *pick(&mut r, &an) };
                    let bal = get(&obs, "bal", from);
                    let frz = get(&obs, "frozen", from);
                    let free = bal - frz;
                    // ... and spenders that hold an allowance from the sender
                    let funded: Vec<&str> = an.iter().copied().filter(|b| obs["allow"][from][*b].as_i64().unwrap_or(0) > 0).collect();
                    let spn = if !funded.is_empty() && r.gen_bool(0.7) { *pick(&mut r, &funded) } else { *pick(&mut r, &an) };
                    let alw = obs["allow"][from][spn].as_i64().unwrap_or(0);
                    // operator of supervisory calls: nearly always the configured one
                    let sup = if r.gen_bool(0.94) { OPERATOR } else { *pick(&mut r, &an) };
                    // authorizers: mostly exactly the principal, sometimes an arbitrary subset
                    let auth_of = |r: &mut StdRng, p: &str| -> Vec<String> {
                        if r.gen_bool(0.85) {
                            vec![p.to_string()]
                        } else {
                            subset(r, &everyone)
                        }
                    };
                    let mut kind = *pick(
                        &mut r,
                        &[
                            "mint", "mint", "mint", "transfer", "transfer", "transfer", "transfer", "transfer_from",
                            "transfer_from", "transfer_from", "transfer_from", "approve", "approve", "approve",
                            "forced_transfer", "forced_transfer", "burn", "burn", "recover", "recover", "freeze", "freeze",
                            "unfreeze", "set_frozen", "set_frozen", "pause", "unpause", "set_id", "set_id", "set_ct",
                            "set_cc", "set_rec", "set_rec",
                        ],
                    );
                    if step < 2 {
                        kind = "mint";
                    } else if obs["paused"].as_bool().unwrap_or(false) && r.gen_bool(0.25) {
                        kind = "unpause";
                    }
                    if kind == "recover" && !rec.contains_key(from) && r.gen_bool(0.7) {
                        kind = "set_rec";
                    }
                    if kind == "recover" && r.gen_bool(0.7) {
                        // aim at the registered target
                        if let Some(t) = rec.get(from) {
                            if let Some(x) = an.iter().copied().find(|x| x == t) {
                                to = x;
                            }
                        }
                    }
                    let open = r.gen_bool(p_open);
                    let rb = lat(r.gen_range(0..=bal.max(1)));
                    let ra = lat(r.gen_range(0..=alw.max(1)));
                    let supply = obs["supply"].as_i64().unwrap_or(0);
                    let op = match kind {
                        "mint" => {
                            let a = if edge && step == 0 && r.gen_bool(0.6) {
                                AMAX // one wallet holding i128::MAX: the state in which sums with the balance overflow
                            } else if edge {
                                *pick(&mut r, &[-1i64, 0, 1, FINE, 3 * FINE, 5 * FINE, 7 * FINE, AMAX, AMAX - supply, AMAX - supply + 1, AMAX - supply - 1])
                            } else {
                                *pick(&mut r, &[-1i64, 0, 1, 1, 2, 3, 5, 10, 40])
                            };
                            let au = auth_of(&mut r, sup);
                            mkop("mint", "none", to, sup, a, false, 0, au, dt)
                        }
                        "transfer" => {
                            let a = *pick(&mut r, &[-1i64, 0, 1, 1, free, free, free + 1, free - 1, bal, bal + 1, rb]);
                            let au = auth_of(&mut r, from);
                            mkop("transfer", from, to, "none", a, false, 0, au, dt)
                        }
                        "transfer_from" => {
                            let a = *pick(&mut r, &[-1i64, 0, 1, alw, alw, alw + 1, alw - 1, free, free + 1, bal, ra]);
                            let au = auth_of(&mut r, spn);
                            mkop("transfer_from", from, to, spn, a, false, 0, au, dt)
                        }
                        "approve" => {
                            let a = *pick(&mut r, &[-1i64, 0, 1, 2, 3, bal, bal + 1, free, 100, if edge { AMAX } else { 7 }]);
                            let du = *pick(&mut r, &[-1i64, 0, 0, 1, 2, 5, 50, 1000, 1000, 100_000]);
                            // (one approval in eight is revocation-shaped: amount 0 with an expiry that does not matter to the base token)
                            let (a, du) = if r.gen_ratio(1, 8) { (0, *pick(&mut r, &[-1i64, -1, -5, 0, 1 - (now + dt)])) } else { (a, du) };
                            let au = auth_of(&mut r, from);
                            mkop("approve", from, "none", spn, a, false, (now + dt + du).max(0), au, dt)
                        }
                        "forced_transfer" => {
                            let a = *pick(&mut r, &[-1i64, 0, 1, free, free + 1, bal, bal, bal - 1, bal + 1, rb]);
                            let au = auth_of(&mut r, sup);
                            mkop("forced_transfer", from, to, sup, a, false, 0, au, dt)
                        }
                        "burn" => {
                            let a = *pick(&mut r, &[-1i64, 0, 1, free, free + 1, bal, bal - 1, bal + 1, rb]);
                            let au = auth_of(&mut r, sup);
                            mkop("burn", from, "none", sup, a, false, 0, au, dt)
                        }
                        "recover" => {
                            let au = auth_of(&mut r, sup);
                            mkop("recover", from, to, sup, 0, false, 0, au, dt)
                        }
                        "freeze" => {
                            let a = *pick(&mut r, &[-1i64, 0, 1, 1, free, free, free + 1, lat(free / 2), bal]);
                            let au = auth_of(&mut r, sup);
                            mkop("freeze", from, "none", sup, a, false, 0, au, dt)
                        }
                        "unfreeze" => {
                            let a = *pick(&mut r, &[-1i64, 0, 1, frz, frz, frz + 1, lat(frz / 2)]);
                            let au = auth_of(&mut r, sup);
                            mkop("unfreeze", from, "none", sup, a, false, 0, au, dt)
                        }
                        "set_frozen" => {
                            let au = auth_of(&mut r, sup);
                            mkop("set_frozen", from, "none", sup, 0, !open, 0, au, dt)
                        }
                        "pause" | "unpause" => {
                            let au = auth_of(&mut r, sup);
                            mkop(kind, "none", "none", sup, 0, false, 0, au, dt)
                        }
                        "set_id" => mkop("set_id", from, "none", "none", 0, open, 0, vec![], dt),
                        "set_ct" | "set_cc" => mkop(kind, "none", "none", "none", if r.gen_bool(0.4) { 1 } else { 0 }, open, 0, vec![], dt),
                        "set_rec" => {
                            let target = if r.gen_bool(0.2) { "none" } else { to };
                            rec.insert(from.to_string(), target.to_string());
                            mkop("set_rec", from, target, "none", 0, false, 0, vec![], dt)
                        }
                        k => panic!("kind {k}"),
                    };
                    let ev = sys.step(&op);
                    obs = ev["obs"].clone();
                    t.step(ev);
                    if edge && (an.iter().any(|a| fine_small_part(get(&obs, "bal", a)) > 60 || fine_small_part(get(&obs, "frozen", a)) > 60)
                        || fine_small_part(obs["supply"].as_i64().unwrap_or(0)) > 60) {
                        break;
                    }
                }
            }
            t.finish();
        }
    }
}
