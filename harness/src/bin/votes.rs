//! Binding of spec/Votes.tla (C13, and the votes flavour of C01).
//!
//! Flavours (selected by the reset event / `cfg.flavour`):
//! * `fungible`      — the REAL example /repo/examples/fungible-votes/src/contract.rs (owner-gated
//!                     mint, transfer, transfer_from, approve, delegate; it exposes no burn);
//! * `fungible_burn` — a thin burnable votes token: every entry point forwards 1:1 to
//!                     `FungibleVotes::*` / the `Votes` trait defaults (mint owner-gated like the example);
//! * `nft`           — a thin NFT-votes contract forwarding to `NonFungibleVotes::*`
//!                     (one token = one voting unit; the ops carry amt = 1).
//!
//! Ops: mint(to, amt) burn(from, amt) transfer(from, to, amt) delegate(from, to)
//!      approve(from = owner, to = spender, amt) xfer_from(by, from, to, amt) burn_from(by, from, amt).
//! In the NFT flavour the token moved by transfer / burn is the lowest id `from` owns according to the
//! harness's own bookkeeping of successful calls (a foreign or non-existent id when it owns none), and
//! `approve` is `approve_for_all`.
#![allow(dead_code)]
use std::collections::BTreeMap;

use soroban_sdk::{Address, Env, Symbol, Val};
use verif_harness::*;

#[path = "/repo/examples/fungible-votes/src/contract.rs"]
mod fvotes;

/// Thin burnable votes token: the example plus `FungibleBurnable` forwarding to `FungibleVotes`.
mod ftburn {
    use soroban_sdk::{contract, contractimpl, Address, Env, MuxedAddress, String};
    use stellar_access::ownable::{set_owner, Ownable};
    use stellar_governance::votes::Votes;
    use stellar_macros::only_owner;
    use stellar_tokens::fungible::{burnable::FungibleBurnable, votes::FungibleVotes, Base, FungibleToken};

    #[contract]
    pub struct FtVotesBurn;

    #[contractimpl]
    impl FtVotesBurn {
        pub fn __constructor(e: &Env, owner: Address) {
            Base::set_metadata(e, 7, String::from_str(e, "Votes"), String::from_str(e, "VOT"));
            set_owner(e, &owner);
        }

        #[only_owner]
        pub fn mint(e: &Env, to: &Address, amount: i128) {
            FungibleVotes::mint(e, to, amount);
        }
    }

    #[contractimpl(contracttrait)]
    impl FungibleToken for FtVotesBurn {
        type ContractType = FungibleVotes;
    }

    #[contractimpl(contracttrait)]
    impl FungibleBurnable for FtVotesBurn {
        fn burn(e: &Env, from: Address, amount: i128) {
            FungibleVotes::burn(e, &from, amount);
        }

        fn burn_from(e: &Env, spender: Address, from: Address, amount: i128) {
            FungibleVotes::burn_from(e, &spender, &from, amount);
        }
    }

    #[contractimpl(contracttrait)]
    impl Votes for FtVotesBurn {}

    #[contractimpl(contracttrait)]
    impl Ownable for FtVotesBurn {}
}

/// Thin NFT-votes contract.
mod nftv {
    use soroban_sdk::{contract, contractimpl, Address, Env, String};
    use stellar_access::ownable::{set_owner, Ownable};
    use stellar_governance::votes::Votes;
    use stellar_macros::only_owner;
    use stellar_tokens::non_fungible::{
        burnable::NonFungibleBurnable, votes::NonFungibleVotes, Base, NonFungibleToken,
    };

    #[contract]
    pub struct NftVotes;

    #[contractimpl]
    impl NftVotes {
        pub fn __constructor(e: &Env, owner: Address) {
            Base::set_metadata(e, String::from_str(e, "u"), String::from_str(e, "n"), String::from_str(e, "s"));
            set_owner(e, &owner);
        }

        #[only_owner]
        pub fn mint(e: &Env, to: &Address) -> u32 {
            NonFungibleVotes::sequential_mint(e, to)
        }
    }

    #[contractimpl(contracttrait)]
    impl NonFungibleToken for NftVotes {
        type ContractType = NonFungibleVotes;
    }

    #[contractimpl(contracttrait)]
    impl NonFungibleBurnable for NftVotes {}

    #[contractimpl(contracttrait)]
    impl Votes for NftVotes {}

    #[contractimpl(contracttrait)]
    impl Ownable for NftVotes {}
}

/// The votes module on its own: voting units (u128) moved by the integrator's calls, no token underneath.
mod bare {
    use soroban_sdk::{contract, contractimpl, Address, Env};
    use stellar_governance::votes::{transfer_voting_units, Votes};

    #[contract]
    pub struct BareVotes;

    #[contractimpl]
    impl BareVotes {
        pub fn __constructor(_e: &Env, _owner: Address) {}
        pub fn mint(e: &Env, to: Address, amount: u128) {
            transfer_voting_units(e, None, Some(&to), amount);
        }
        pub fn burn(e: &Env, from: Address, amount: u128) {
            transfer_voting_units(e, Some(&from), None, amount);
        }
        pub fn transfer(e: &Env, from: Address, to: Address, amount: u128) {
            transfer_voting_units(e, Some(&from), Some(&to), amount);
        }
    }

    #[contractimpl(contracttrait)]
    impl Votes for BareVotes {}
}

const NOW0: u32 = 2;
const OWNER: &str = "o";
const NO_TOKEN: u32 = 4_000_000;
const FLAVOURS: [&str; 3] = ["fungible", "fungible_burn", "nft"];

#[derive(Clone, Copy, PartialEq)]
enum Fl {
    Example,
    FtBurn,
    Nft,
    Bare,
}

struct Sys {
    e: Env,
    names: Names,
    accts: Vec<String>,
    c: Address,
    fl: Fl,
    flavour: String,
    /// NFT flavour: token ids per account, from the results of the calls made so far
    toks: BTreeMap<String, Vec<u32>>,
    /// amounts are logged in the i128-edge regime (`fine_amount`)
    edge: bool,
    /// ledgers at which calls were made (where checkpoints can lie): asked about, with their neighbours, ever after
    marks: std::collections::BTreeSet<u32>,
}

/// Runs `$body` with `$cl` bound to the typed client of the flavour's contract (the three clients
/// share the `Votes` trait interface and `balance`).
macro_rules! with_client {
    ($sys:expr, $cl:ident => $body:expr) => {{
        fresh(&$sys.e);
        match $sys.fl {
            Fl::Example => {
                let $cl = fvotes::ExampleContractClient::new(&$sys.e, &$sys.c);
                $body
            }
            Fl::FtBurn => {
                let $cl = ftburn::FtVotesBurnClient::new(&$sys.e, &$sys.c);
                $body
            }
            Fl::Nft => {
                let $cl = nftv::NftVotesClient::new(&$sys.e, &$sys.c);
                $body
            }
            Fl::Bare => {
                let $cl = bare::BareVotesClient::new(&$sys.e, &$sys.c);
                $body
            }
        }
    }};
}

/// A finite budget per call (4x the network's CPU limit): a loop that never terminates inside the
/// code under test ends as a refused call (data for the monitors) instead of hanging the harness.
fn fresh(e: &Env) {
    e.cost_estimate().budget().reset_limits(400_000_000, 400_000_000);
}

/// Result of a getter call made by `f`: `None` when the call was refused, or when the host escalated
/// an error (e.g. an exhausted budget) to a panic -- a panic inside the code under test is data.
fn num<T, E1, E2>(f: impl FnOnce() -> Result<Result<T, E1>, E2>) -> Option<T> {
    match std::panic::catch_unwind(std::panic::AssertUnwindSafe(f)) {
        Ok(Ok(Ok(v))) => Some(v),
        _ => None,
    }
}

impl Sys {
    fn new(flavour: &str, accts: &[String], edge: bool) -> Sys {
        let e = new_env(&LedgerCfg { seq: NOW0, ..Default::default() });
        let mut all: Vec<&str> = accts.iter().map(|s| s.as_str()).collect();
        all.push(OWNER);
        let names = Names::new(&e, &all);
        let o = names.get(OWNER);
        let (c, fl) = match flavour {
            "fungible" => (e.register(fvotes::ExampleContract, (o,)), Fl::Example),
            "fungible_burn" => (e.register(ftburn::FtVotesBurn, (o,)), Fl::FtBurn),
            "nft" => (e.register(nftv::NftVotes, (o,)), Fl::Nft),
            "bare" => (e.register(bare::BareVotes, (o,)), Fl::Bare),
            f => panic!("flavour {f}"),
        };
        Sys { e, names, accts: accts.to_vec(), c, fl, flavour: flavour.to_string(), toks: BTreeMap::new(), edge, marks: Default::default() }
    }

    /// NFT flavour: the token a call on behalf of `from` is about.
    fn token_of(&self, from: &str) -> u32 {
        if let Some(v) = self.toks.get(from) {
            if let Some(id) = v.iter().min() {
                return *id;
            }
        }
        // `from` owns nothing: somebody else's lowest token, or an id that was never minted
        self.toks.values().flat_map(|v| v.iter()).min().copied().unwrap_or(NO_TOKEN)
    }

    /// Ledgers asked about after every call: everything back to ledger 0 in short runs, a sliding
    /// window of 40 ledgers plus every 7th older ledger in long runs.
    fn past_ledgers(&self, now: u32) -> Vec<u32> {
        // (the 120 most recent call ledgers: a lookup that goes wrong exactly AT some checkpoint's ledger is found
        // however far back that checkpoint lies in a long history)
        let recent: Vec<u32> = self.marks.iter().rev().take(120).copied().collect();
        let near = |l: u32| recent.iter().any(|m| *m == l || *m == l + 1 || *m + 1 == l);
        (0..now).filter(|l| now <= 48 || *l + 40 >= now || l % 7 == 0 || near(*l)).collect()
    }

    fn obs(&self) -> Value {
        let e = &self.e;
        no_auth(e);
        let now = seq(e);
        let edge = self.edge;
        let jint = |v: i128| if edge { fine_units(v, -999_999) } else { jint(v) };
        // (unsigned 128-bit sources: voting units, votes, totals; None = refused)
        let ju = |v: Option<u128>| match v {
            None => json!(-1),
            Some(v) if edge => fine_units_u(v, -999_999),
            Some(v) => verif_harness::jint(v.min(i128::MAX as u128) as i128),
        };
        let mut bal = JMap::new();
        let mut units = JMap::new();
        let mut deleg = JMap::new();
        let mut votes = JMap::new();
        for a in &self.accts {
            let ad = self.names.get(a);
            fresh(e);
            let b: i128 = match self.fl {
                Fl::Example => num(|| fvotes::ExampleContractClient::new(e, &self.c).try_balance(&ad)).unwrap_or(-1),
                Fl::FtBurn => num(|| ftburn::FtVotesBurnClient::new(e, &self.c).try_balance(&ad)).unwrap_or(-1),
                Fl::Nft => num(|| nftv::NftVotesClient::new(e, &self.c).try_balance(&ad)).map(|v| v as i128).unwrap_or(-1),
                Fl::Bare => 0, // (no token: the units themselves are reported as the balance, below)
            };
            bal.insert(a.clone(), jint(b));
            // the voting units have no contract entry point (the `Votes` trait does not expose them):
            // read through the library's public read-only function in the contract's frame
            fresh(e);
            let u = std::panic::catch_unwind(std::panic::AssertUnwindSafe(|| {
                e.as_contract(&self.c, || stellar_governance::votes::get_voting_units(e, &ad))
            }));
            if self.fl == Fl::Bare {
                bal.insert(a.clone(), ju(u.as_ref().ok().copied()));
            }
            units.insert(a.clone(), ju(u.ok()));
            with_client!(self, cl => {
                votes.insert(a.clone(), ju(num(|| cl.try_get_votes(&ad))));
                let d = match num(|| cl.try_get_delegate(&ad)) {
                    Some(d) => self.names.opt_name(&d),
                    None => "?".to_string(),
                };
                deleg.insert(a.clone(), json!(d));
            });
        }
        fresh(e);
        let supply: i128 = match self.fl {
            Fl::Example => num(|| fvotes::ExampleContractClient::new(e, &self.c).try_total_supply()).unwrap_or(-1),
            Fl::FtBurn => num(|| ftburn::FtVotesBurnClient::new(e, &self.c).try_total_supply()).unwrap_or(-1),
            Fl::Nft | Fl::Bare => -1, // the base NFT has no total supply getter
        };
        let total = with_client!(self, cl => num(|| cl.try_get_total_supply()));
        let supply_j = if self.fl == Fl::Bare { ju(total) } else { jint(supply) };
        // answers about the past (-1: refused)
        let mut past = Vec::new();
        for l in self.past_ledgers(now) {
            let mut v = JMap::new();
            for a in &self.accts {
                let ad = self.names.get(a);
                let x = with_client!(self, cl => num(|| cl.try_get_votes_at_checkpoint(&ad, &l)));
                v.insert(a.clone(), ju(x));
            }
            let t = with_client!(self, cl => num(|| cl.try_get_total_supply_at_checkpoint(&l)));
            past.push(json!({"l": l, "v": v, "t": ju(t)}));
        }
        // the current and future ledgers must be refused
        let refused = |l: u32| -> (&'static str, &'static str) {
            let mut all_refused = true;
            for a in &self.accts {
                let ad = self.names.get(a);
                let answered = with_client!(self, cl => num(|| cl.try_get_votes_at_checkpoint(&ad, &l)).is_some());
                all_refused &= !answered;
            }
            let t_answered = with_client!(self, cl => num(|| cl.try_get_total_supply_at_checkpoint(&l)).is_some());
            (if all_refused { "fail" } else { "ok" }, if t_answered { "ok" } else { "fail" })
        };
        let mut fut = Vec::new();
        for l in [now, now + 1, now + 9, i32::MAX as u32] {
            let (v, t) = refused(l);
            fut.push(json!({"l": l, "v": v, "t": t}));
        }
        let (mv, mt) = refused(u32::MAX);
        json!({"bal": bal, "supply": supply_j, "units": units, "deleg": deleg, "votes": votes,
               "total": ju(total), "past": past, "fut": fut, "futmax": {"v": mv, "t": mt}})
    }

    /// Generic invocation by name, for an entry point the flavour's contract does not expose.
    fn invoke_raw(&self, f: &str, a: soroban_sdk::Vec<Val>) -> (&'static str, i64) {
        let r = self.e.try_invoke_contract::<Val, soroban_sdk::Error>(&self.c, &Symbol::new(&self.e, f), a);
        res_of(&r)
    }

    fn step(&mut self, op: &Value) -> Value {
        let e = self.e.clone();
        let e = &e;
        set_seq(e, seq(e) + n(op, "dt") as u32);
        let now = seq(e);
        self.marks.insert(now);
        let who = auth_addrs(op, &self.names);
        let kind = s(op, "op");
        let amt = if self.edge { fine_amount(n(op, "amt")) } else { n(op, "amt") as i128 };
        let lookup = |k: &str| -> Option<Address> {
            let v = s(op, k);
            if v == "none" { None } else { Some(self.names.get(v)) }
        };
        let (a_from, a_to, a_by) = (lookup("from"), lookup("to"), lookup("by"));
        let addr = |k: &str| -> Address {
            match k {
                "from" => a_from.clone(),
                "to" => a_to.clone(),
                _ => a_by.clone(),
            }
            .unwrap_or_else(|| panic!("op field {k} names nobody in {op}"))
        };
        let c = self.c.clone();
        let mut tok: i64 = -1;
        fresh(e);
        // a host panic escaping a `try_` call (escalated internal error) is a refused call
        let outcome = std::panic::catch_unwind(std::panic::AssertUnwindSafe(|| -> (&'static str, i64) { match (kind, self.fl) {
            // ---- mint ---------------------------------------------------------------------------
            ("mint", Fl::Example) => {
                let to = addr("to");
                set_auth_same(e, &who, &Inv::new(&c, "mint", args(e, (to.clone(), amt))));
                res_of(&fvotes::ExampleContractClient::new(e, &c).try_mint(&to, &amt))
            }
            ("mint", Fl::FtBurn) => {
                let to = addr("to");
                set_auth_same(e, &who, &Inv::new(&c, "mint", args(e, (to.clone(), amt))));
                res_of(&ftburn::FtVotesBurnClient::new(e, &c).try_mint(&to, &amt))
            }
            ("mint", Fl::Nft) => {
                let to = addr("to");
                set_auth_same(e, &who, &Inv::new(&c, "mint", args(e, (to.clone(),))));
                let r = nftv::NftVotesClient::new(e, &c).try_mint(&to);
                if let Ok(Ok(id)) = &r {
                    tok = *id as i64;
                    self.toks.entry(s(op, "to").to_string()).or_default().push(*id);
                }
                res_of(&r)
            }
            // ---- transfer -----------------------------------------------------------------------
            ("transfer", Fl::Example) | ("transfer", Fl::FtBurn) => {
                let (from, to) = (addr("from"), addr("to"));
                set_auth_same(e, &who, &Inv::new(&c, "transfer", args(e, (from.clone(), to.clone(), amt))));
                if self.fl == Fl::Example {
                    res_of(&fvotes::ExampleContractClient::new(e, &c).try_transfer(&from, &to, &amt))
                } else {
                    res_of(&ftburn::FtVotesBurnClient::new(e, &c).try_transfer(&from, &to, &amt))
                }
            }
            ("transfer", Fl::Nft) => {
                let (from, to) = (addr("from"), addr("to"));
                let id = self.token_of(s(op, "from"));
                tok = id as i64;
                set_auth_same(e, &who, &Inv::new(&c, "transfer", args(e, (from.clone(), to.clone(), id))));
                let r = res_of(&nftv::NftVotesClient::new(e, &c).try_transfer(&from, &to, &id));
                if r.0 == "ok" {
                    self.moved(id, Some(s(op, "to")));
                }
                r
            }
            // ---- burn ---------------------------------------------------------------------------
            ("burn", Fl::Example) => {
                // the example exposes no burn entry point: the call is refused by the host
                let from = addr("from");
                let a = args(e, (from.clone(), amt));
                set_auth_same(e, &who, &Inv::new(&c, "burn", a.clone()));
                self.invoke_raw("burn", a)
            }
            ("burn", Fl::FtBurn) => {
                let from = addr("from");
                set_auth_same(e, &who, &Inv::new(&c, "burn", args(e, (from.clone(), amt))));
                res_of(&ftburn::FtVotesBurnClient::new(e, &c).try_burn(&from, &amt))
            }
            ("burn", Fl::Nft) => {
                let from = addr("from");
                let id = self.token_of(s(op, "from"));
                tok = id as i64;
                set_auth_same(e, &who, &Inv::new(&c, "burn", args(e, (from.clone(), id))));
                let r = res_of(&nftv::NftVotesClient::new(e, &c).try_burn(&from, &id));
                if r.0 == "ok" {
                    self.moved(id, None);
                }
                r
            }
            // ---- delegate -----------------------------------------------------------------------
            ("delegate", _) => {
                let (acc, to) = (addr("from"), addr("to"));
                set_auth_same(e, &who, &Inv::new(&c, "delegate", args(e, (acc.clone(), to.clone()))));
                with_client!(self, cl => res_of(&cl.try_delegate(&acc, &to)))
            }
            // ---- allowance / operator paths -----------------------------------------------------
            ("approve", Fl::Example) | ("approve", Fl::FtBurn) => {
                let (owner, sp) = (addr("from"), addr("to"));
                let until = now + 1000;
                set_auth_same(e, &who, &Inv::new(&c, "approve", args(e, (owner.clone(), sp.clone(), amt, until))));
                if self.fl == Fl::Example {
                    res_of(&fvotes::ExampleContractClient::new(e, &c).try_approve(&owner, &sp, &amt, &until))
                } else {
                    res_of(&ftburn::FtVotesBurnClient::new(e, &c).try_approve(&owner, &sp, &amt, &until))
                }
            }
            ("approve", Fl::Nft) => {
                let (owner, sp) = (addr("from"), addr("to"));
                let until = if amt > 0 { now + 1000 } else { 0 };
                set_auth_same(e, &who, &Inv::new(&c, "approve_for_all", args(e, (owner.clone(), sp.clone(), until))));
                res_of(&nftv::NftVotesClient::new(e, &c).try_approve_for_all(&owner, &sp, &until))
            }
            ("xfer_from", Fl::Example) | ("xfer_from", Fl::FtBurn) => {
                let (by, from, to) = (addr("by"), addr("from"), addr("to"));
                set_auth_same(e, &who, &Inv::new(&c, "transfer_from", args(e, (by.clone(), from.clone(), to.clone(), amt))));
                if self.fl == Fl::Example {
                    res_of(&fvotes::ExampleContractClient::new(e, &c).try_transfer_from(&by, &from, &to, &amt))
                } else {
                    res_of(&ftburn::FtVotesBurnClient::new(e, &c).try_transfer_from(&by, &from, &to, &amt))
                }
            }
            ("xfer_from", Fl::Nft) => {
                let (by, from, to) = (addr("by"), addr("from"), addr("to"));
                let id = self.token_of(s(op, "from"));
                tok = id as i64;
                set_auth_same(e, &who, &Inv::new(&c, "transfer_from", args(e, (by.clone(), from.clone(), to.clone(), id))));
                let r = res_of(&nftv::NftVotesClient::new(e, &c).try_transfer_from(&by, &from, &to, &id));
                if r.0 == "ok" {
                    self.moved(id, Some(s(op, "to")));
                }
                r
            }
            ("burn_from", Fl::Example) => {
                let (by, from) = (addr("by"), addr("from"));
                let a = args(e, (by.clone(), from.clone(), amt));
                set_auth_same(e, &who, &Inv::new(&c, "burn_from", a.clone()));
                self.invoke_raw("burn_from", a)
            }
            ("burn_from", Fl::FtBurn) => {
                let (by, from) = (addr("by"), addr("from"));
                set_auth_same(e, &who, &Inv::new(&c, "burn_from", args(e, (by.clone(), from.clone(), amt))));
                res_of(&ftburn::FtVotesBurnClient::new(e, &c).try_burn_from(&by, &from, &amt))
            }
            ("burn_from", Fl::Nft) => {
                let (by, from) = (addr("by"), addr("from"));
                let id = self.token_of(s(op, "from"));
                tok = id as i64;
                set_auth_same(e, &who, &Inv::new(&c, "burn_from", args(e, (by.clone(), from.clone(), id))));
                let r = res_of(&nftv::NftVotesClient::new(e, &c).try_burn_from(&by, &from, &id));
                if r.0 == "ok" {
                    self.moved(id, None);
                }
                r
            }
            // ---- the bare module: unit movements, no authorization of its own ----------------------
            ("mint", Fl::Bare) | ("burn", Fl::Bare) | ("transfer", Fl::Bare) => {
                no_auth(e);
                // (negative amounts, and amounts past u128::MAX, cannot be passed to the contract at all)
                let uamt: u128 = if n(op, "amt") < 0 || (self.edge && n(op, "amt") > 16 * FINE - 1) { return ("fail", -8) } else if self.edge { fine_amount_u(n(op, "amt")) } else { n(op, "amt") as u128 };
                let cl = bare::BareVotesClient::new(e, &c);
                match kind {
                    "mint" => res_of(&cl.try_mint(&addr("to"), &uamt)),
                    "burn" => res_of(&cl.try_burn(&addr("from"), &uamt)),
                    _ => res_of(&cl.try_transfer(&addr("from"), &addr("to"), &uamt)),
                }
            }
            ("approve", Fl::Bare) | ("xfer_from", Fl::Bare) | ("burn_from", Fl::Bare) => ("fail", -9),
            (k, _) => {
                eprintln!("unknown op {k}");
                std::process::exit(2)
            }
        } }));
        let (res, code) = outcome.unwrap_or(("fail", -4));
        json!({"op": op, "now": now, "res": res, "err": code, "tok": tok, "obs": self.obs()})
    }

    fn moved(&mut self, id: u32, to: Option<&str>) {
        for v in self.toks.values_mut() {
            v.retain(|x| *x != id);
        }
        if let Some(t) = to {
            self.toks.entry(t.to_string()).or_default().push(id);
        }
    }
}

fn reset_event(sys: &Sys) -> Value {
    json!({"op": {"op": "reset", "from": "none", "to": "none", "by": "none", "amt": 0, "auth": [], "dt": 0,
                  "flavour": sys.flavour, "accts": sys.accts, "edge": sys.edge},
           "now": NOW0, "res": "ok", "err": 0, "tok": -1, "obs": sys.obs()})
}

fn is_token_op(k: &str) -> bool {
    matches!(k, "mint" | "burn" | "transfer" | "xfer_from" | "burn_from")
}

/// Whether a behaviour makes sense on a flavour: the example has no burn entry point, and an NFT
/// call moves exactly one unit.
fn applicable(fl: &str, ops: &[Value]) -> bool {
    ops.iter().all(|op| {
        let k = s(op, "op");
        match fl {
            "fungible" => k != "burn" && k != "burn_from",
            "nft" => !is_token_op(k) || n(op, "amt") == 1,
            _ => true,
        }
    })
}

fn op_json(kind: &str, from: &str, to: &str, by: &str, amt: i64, auth: &[String], dt: i64) -> Value {
    json!({"op": kind, "from": from, "to": to, "by": by, "amt": amt, "auth": auth, "dt": dt})
}

fn main() {
    // Panics escalated by the host inside `try_` calls are caught and recorded as refused calls; keep
    // their reports short (a panic of the harness itself still ends the process with its message).
    std::panic::set_hook(Box::new(|info| {
        static SHOWN: std::sync::atomic::AtomicUsize = std::sync::atomic::AtomicUsize::new(0);
        if SHOWN.fetch_add(1, std::sync::atomic::Ordering::Relaxed) < 5 {
            let msg = info.to_string();
            eprintln!("panic: {}", msg.lines().take(3).collect::<Vec<_>>().join(" | "));
        }
    }));
    match cli() {
        Mode::Exec { input, output } => {
            let mut t = Trace::create(&output);
            for b in read_behaviours(&input) {
                let accts: Vec<String> = match b.cfg.get("accts").and_then(|v| v.as_array()) {
                    Some(a) => a.iter().map(|x| x.as_str().expect("acct").to_string()).collect(),
                    None => vec!["a".into(), "b".into(), "c".into()],
                };
                let flavours: Vec<String> = match b.cfg.get("flavour").and_then(|v| v.as_str()) {
                    Some(f) => vec![f.to_string()],
                    None => FLAVOURS.iter().filter(|f| applicable(f, &b.ops)).map(|f| f.to_string()).collect(),
                };
                for fl in flavours {
                    let edge = b.cfg.get("edge").and_then(|v| v.as_bool()).unwrap_or(false);
                    let mut sys = Sys::new(&fl, &accts, edge);
                    t.reset(reset_event(&sys));
                    for op in &b.ops {
                        let ev = sys.step(op);
                        t.step(ev);
                    }
                }
            }
            t.finish();
        }
        Mode::Drive { seed, runs, len, output } => {
            let mut t = Trace::create(&output);
            let mut r = StdRng::seed_from_u64(seed);
            for run in 0..runs {
                // (the bare module - units without a token - is driven by random histories only)
                let fl = ["fungible", "fungible_burn", "nft", "bare"][run % 4];
                let nacc = if run % 2 == 0 { 3 } else { 5 };
                let accts: Vec<String> = ["a", "b", "c", "d", "e"][..nacc].iter().map(|s| s.to_string()).collect();
                let anames: Vec<&str> = accts.iter().map(|s| s.as_str()).collect();
                // time regime of the run: dense (many calls per ledger), mixed, sparse (long gaps)
                let dts: &[i64] = match (run / 3) % 3 {
                    0 => &[0, 0, 0, 0, 1, 1, 2],
                    1 => &[0, 0, 1, 1, 2, 3, 5],
                    _ => &[0, 1, 2, 4, 9, 17, 30],
                };
                // one run in six of the fungible flavours works at the i128 edge
                let edge = (fl == "bare" && (run / 4) % 2 == 1) || (fl != "nft" && fl != "bare" && (run / 3) % 6 == 5);
                // the top of the amount type: i128::MAX for the tokens, u128::MAX for bare voting units
                let top = if fl == "bare" { 16 * FINE - 1 } else { AMAX };
                let mut sys = Sys::new(fl, &accts, edge);
                t.reset(reset_event(&sys));
                // state feedback, from the harness's own view of what succeeded
                let mut bal: BTreeMap<String, i64> = accts.iter().map(|a| (a.clone(), 0)).collect();
                // long histories: one run in six starts with 33..70 power changes in as many different ledgers on one
                // delegate's and on the total's timeline (binary search over a long checkpoint list, every ledger asked)
                if !edge && (run / 4) % 6 == 2 {
                    let d = if r.gen_bool(0.5) { "a" } else { "b" };
                    let mut pre = vec![op_json("delegate", "a", d, "none", 0, &["a".to_string()], 1)];
                    for _ in 0..r.gen_range(33..70) {
                        pre.push(op_json("mint", "none", "a", "none", 1, &[OWNER.to_string()], *pick(&mut r, &[1i64, 1, 1, 2, 3])));
                    }
                    for op in pre {
                        let ev = sys.step(&op);
                        feedback(&mut bal, &op, &ev);
                        t.step(ev);
                    }
                }
                for i in 0..len {
                    let dt = if r.gen_ratio(1, 25) { 200 } else { *pick(&mut r, dts) };
                    let holders: Vec<String> = bal.iter().filter(|(_, v)| **v > 0).map(|(k, _)| k.clone()).collect();
                    let mut kinds = vec!["mint", "mint", "transfer", "transfer", "transfer", "delegate", "delegate",
                                         "delegate", "approve", "xfer_from", "xfer_from"];
                    if fl != "fungible" {
                        kinds.extend(["burn", "burn", "burn_from"]);
                    } else if r.gen_bool(0.3) {
                        // the example exposes no burn entry point: these calls must stay refused
                        kinds.extend(["burn", "burn_from"]);
                    }
                    let kind = if i < 2 && r.gen_bool(0.7) { "mint" } else { *pick(&mut r, &kinds) };
                    let pick_from = |r: &mut StdRng| -> String {
                        if !holders.is_empty() && r.gen_bool(0.85) { pick(r, &holders).clone() } else { pick(r, &anames).to_string() }
                    };
                    let amount = |r: &mut StdRng, have: i64| -> i64 {
                        if fl == "nft" {
                            return 1;
                        }
                        match r.gen_range(0..10) {
                            0 => 0,
                            1 => -1,
                            2 => have + 1,
                            3 | 4 => have, // full balance
                            5 => 1,
                            // at the i128 edge: whole units +- 1, so that the small parts of `fine_amount` stay small
                            _ if edge => (r.gen_range(0..=(have / FINE).max(0)) * FINE + r.gen_range(-1..=1i64)).max(1),
                            _ => {
                                if have > 1 { r.gen_range(1..=have) } else { r.gen_range(1..=5) }
                            }
                        }
                    };
                    let (from, to, by, amt, needed): (String, String, String, i64, String) = match kind {
                        "mint" => {
                            let to = pick(&mut r, &anames).to_string();
                            let amt = if fl == "nft" {
                                1
                            } else if edge {
                                let total: i64 = bal.values().sum();
                                *pick(&mut r, &[1i64, 10, FINE, 3 * FINE, 7 * FINE, 8 * FINE.min(top / 2 + 1), top - 10, top, top - total, top - total + 1, 0, -1])
                            } else {
                                *pick(&mut r, &[1i64, 1, 2, 3, 5, 10, 100, 0, -1])
                            };
                            ("none".into(), to, "none".into(), amt, OWNER.into())
                        }
                        "burn" => {
                            let f = pick_from(&mut r);
                            let amt = amount(&mut r, bal[&f]);
                            (f.clone(), "none".into(), "none".into(), amt, f)
                        }
                        "transfer" => {
                            let f = pick_from(&mut r);
                            let to = if r.gen_bool(0.12) { f.clone() } else { pick(&mut r, &anames).to_string() };
                            let amt = amount(&mut r, bal[&f]);
                            (f.clone(), to, "none".into(), amt, f)
                        }
                        "delegate" => {
                            let f = pick(&mut r, &anames).to_string();
                            let to = if r.gen_bool(0.25) { f.clone() } else { pick(&mut r, &anames).to_string() };
                            (f.clone(), to, "none".into(), 0, f)
                        }
                        "approve" => {
                            let f = pick_from(&mut r);
                            let sp = pick(&mut r, &anames).to_string();
                            let amt = if fl == "nft" { 1 } else if edge { *pick(&mut r, &[1i64, FINE, 7 * FINE, AMAX]) } else { *pick(&mut r, &[1i64, 5, 100, 1000]) };
                            (f.clone(), sp, "none".into(), amt, f)
                        }
                        "xfer_from" => {
                            let f = pick_from(&mut r);
                            let by = pick(&mut r, &anames).to_string();
                            let to = if r.gen_bool(0.12) { f.clone() } else { pick(&mut r, &anames).to_string() };
                            let amt = amount(&mut r, bal[&f]);
                            (f, to, by.clone(), amt, by)
                        }
                        "burn_from" => {
                            let f = pick_from(&mut r);
                            let by = pick(&mut r, &anames).to_string();
                            let amt = amount(&mut r, bal[&f]);
                            (f, "none".into(), by.clone(), amt, by)
                        }
                        k => panic!("kind {k}"),
                    };
                    // authorizers: mostly exactly the party the call needs, sometimes an arbitrary subset
                    let mut universe: Vec<&str> = anames.clone();
                    universe.push(OWNER);
                    let auth: Vec<String> = match r.gen_range(0..10) {
                        0 => subset(&mut r, &universe),
                        1 => {
                            let mut s = subset(&mut r, &universe);
                            s.retain(|x| *x != needed);
                            s
                        }
                        _ => vec![needed.clone()],
                    };
                    // an allowance-based call right after its approval is the interesting case: make
                    // the approve precede it now and then
                    if (kind == "xfer_from" || kind == "burn_from") && r.gen_bool(0.6) {
                        let a_amt = if fl == "nft" { 1 } else { amt.max(1) + *pick(&mut r, &[0i64, 0, 1, 10]) };
                        let ap = op_json("approve", &from, &by, "none", a_amt, &[from.clone()], dt);
                        let ev = sys.step(&ap);
                        t.step(ev);
                        let op = op_json(kind, &from, &to, &by, amt, &auth, *pick(&mut r, &[0i64, 0, 1]));
                        let ev = sys.step(&op);
                        feedback(&mut bal, &op, &ev);
                        t.step(ev);
                        continue;
                    }
                    let op = op_json(kind, &from, &to, &by, amt, &auth, dt);
                    let ev = sys.step(&op);
                    feedback(&mut bal, &op, &ev);
                    t.step(ev);
                    if edge && bal.values().any(|v| fine_small_part(*v) > 60) {
                        break;
                    }
                }
            }
            t.finish();
        }
    }
}

/// Driver-side bookkeeping (state feedback only; never part of the trace).
fn feedback(bal: &mut BTreeMap<String, i64>, op: &Value, ev: &Value) {
    if ev["res"] != "ok" {
        return;
    }
    let amt = n(op, "amt");
    match s(op, "op") {
        "mint" => *bal.get_mut(s(op, "to")).unwrap() += amt,
        "burn" | "burn_from" => *bal.get_mut(s(op, "from")).unwrap() -= amt,
        "transfer" | "xfer_from" => {
            *bal.get_mut(s(op, "from")).unwrap() -= amt;
            *bal.get_mut(s(op, "to")).unwrap() += amt;
        }
        _ => {}
    }
}
