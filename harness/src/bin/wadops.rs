//! Binding of spec/WadOps.tla (X03): the conversions, the checked arithmetic, abs / min / max, the
//! operator impls and checked_pow of `stellar_contract_utils::math::wad::Wad`, called through a
//! thin contract (so that a panic is a rolled-back failure), on the boundary lattice, on directed
//! boundary cases of every operation and on random values of every bit length.
//! Numbers are logged as sign + little-endian limbs (base 2^15) for BigInt.tla.
#![allow(dead_code)]
use soroban_sdk::{Env, I256};
use verif_harness::*;

mod thin {
    use soroban_sdk::{contract, contractimpl, Env};
    use stellar_contract_utils::math::wad::Wad;

    #[contract]
    pub struct WadC;

    // every entry point forwards 1:1 to one library function / operator
    #[contractimpl]
    impl WadC {
        pub fn from_integer(e: &Env, n: i128) -> i128 {
            Wad::from_integer(e, n).raw()
        }
        pub fn to_integer(_e: &Env, a: i128) -> i128 {
            Wad::from_raw(a).to_integer()
        }
        pub fn from_token(e: &Env, x: i128, d: u32) -> i128 {
            Wad::from_token_amount(e, x, d as u8).raw()
        }
        pub fn from_price(e: &Env, x: i128, d: u32) -> i128 {
            Wad::from_price(e, x, d as u8).raw()
        }
        pub fn to_token(e: &Env, a: i128, d: u32) -> i128 {
            Wad::from_raw(a).to_token_amount(e, d as u8)
        }
        pub fn cadd(_e: &Env, a: i128, b: i128) -> Option<i128> {
            Wad::from_raw(a).checked_add(Wad::from_raw(b)).map(|w| w.raw())
        }
        pub fn csub(_e: &Env, a: i128, b: i128) -> Option<i128> {
            Wad::from_raw(a).checked_sub(Wad::from_raw(b)).map(|w| w.raw())
        }
        pub fn cmul_int(_e: &Env, a: i128, n: i128) -> Option<i128> {
            Wad::from_raw(a).checked_mul_int(n).map(|w| w.raw())
        }
        pub fn cdiv_int(_e: &Env, a: i128, n: i128) -> Option<i128> {
            Wad::from_raw(a).checked_div_int(n).map(|w| w.raw())
        }
        pub fn w_abs(_e: &Env, a: i128) -> i128 {
            Wad::from_raw(a).abs().raw()
        }
        pub fn w_min(_e: &Env, a: i128, b: i128) -> i128 {
            Wad::from_raw(a).min(Wad::from_raw(b)).raw()
        }
        pub fn w_max(_e: &Env, a: i128, b: i128) -> i128 {
            Wad::from_raw(a).max(Wad::from_raw(b)).raw()
        }
        pub fn op_add(_e: &Env, a: i128, b: i128) -> i128 {
            (Wad::from_raw(a) + Wad::from_raw(b)).raw()
        }
        pub fn op_sub(_e: &Env, a: i128, b: i128) -> i128 {
            (Wad::from_raw(a) - Wad::from_raw(b)).raw()
        }
        pub fn op_mul(_e: &Env, a: i128, b: i128) -> i128 {
            (Wad::from_raw(a) * Wad::from_raw(b)).raw()
        }
        pub fn op_div(_e: &Env, a: i128, b: i128) -> i128 {
            (Wad::from_raw(a) / Wad::from_raw(b)).raw()
        }
        pub fn op_neg(_e: &Env, a: i128) -> i128 {
            (-Wad::from_raw(a)).raw()
        }
        pub fn op_mul_int(_e: &Env, a: i128, n: i128) -> i128 {
            (Wad::from_raw(a) * n).raw()
        }
        pub fn op_int_mul(_e: &Env, n: i128, a: i128) -> i128 {
            (n * Wad::from_raw(a)).raw()
        }
        pub fn op_div_int(_e: &Env, a: i128, n: i128) -> i128 {
            (Wad::from_raw(a) / n).raw()
        }
        pub fn cpow(e: &Env, a: i128, n: u32) -> Option<i128> {
            Wad::from_raw(a).checked_pow(e, n).map(|w| w.raw())
        }
    }
}

const WAD: i128 = 1_000_000_000_000_000_000;

/// [n, m] record for BigInt.tla: sign + little-endian limbs base 2^15
fn log128(v: i128) -> Value {
    let mut mag = v.unsigned_abs();
    let mut limbs: Vec<u32> = Vec::new();
    while mag != 0 {
        limbs.push((mag & 0x7fff) as u32);
        mag >>= 15;
    }
    json!({"n": if v < 0 { 1 } else { 0 }, "m": limbs})
}

fn hex(v: i128) -> String {
    format!("{}0x{:x}", if v < 0 { "-" } else { "" }, v.unsigned_abs())
}

fn parse(s: &str) -> i128 {
    let (neg, r) = match s.strip_prefix('-') {
        Some(r) => (true, r),
        None => (false, s),
    };
    let r = r.strip_prefix("0x").unwrap_or(r);
    let mag = u128::from_str_radix(r, 16).unwrap_or_else(|e| panic!("number {s}: {e}"));
    if neg {
        (mag as i128).wrapping_neg() // 2^127 -> MIN
    } else {
        i128::try_from(mag).unwrap_or_else(|_| panic!("number {s} exceeds i128"))
    }
}

/// x * y / z truncated toward zero, computed with the host's 256-bit integers (independent of the
/// library); None when z = 0 or the quotient is no i128.  Used for the witnesses of checked_pow
/// (each one is re-verified by TLC by definition) and for placing inputs at boundaries.
fn wide_muldiv(e: &Env, x: i128, y: i128, z: i128) -> Option<i128> {
    if z == 0 {
        return None;
    }
    let p = I256::from_i128(e, x).mul(&I256::from_i128(e, y));
    p.div(&I256::from_i128(e, z)).to_i128()
}

/// The values of the successive truncating multiplications of right-to-left square-and-multiply
/// (result *= base when the bit is set; base *= base while higher bits remain), up to the first
/// one that is no i128.
fn pow_witnesses(e: &Env, a: i128, n: u32) -> Vec<i128> {
    let mut w = Vec::new();
    let (mut result, mut base, mut ex) = (WAD, a, n);
    while ex > 0 {
        if ex & 1 == 1 {
            match wide_muldiv(e, result, base, WAD) {
                Some(v) => { result = v; w.push(v) }
                None => return w,
            }
        }
        ex >>= 1;
        if ex > 0 {
            match wide_muldiv(e, base, base, WAD) {
                Some(v) => { base = v; w.push(v) }
                None => return w,
            }
        }
    }
    w
}

struct Sys {
    e: Env,
    c: soroban_sdk::Address,
}

/// Ok(Ok(v)) -> Some(v); any failure (panic, contract error) -> None
fn okfail<T, E1: core::fmt::Debug, E2: core::fmt::Debug>(r: Result<Result<T, E1>, Result<soroban_sdk::Error, E2>>) -> Option<T> {
    match r {
        Ok(Ok(v)) => Some(v),
        _ => None,
    }
}
/// a plain function: value or panic
fn plain(r: Option<i128>) -> (Option<i128>, &'static str) {
    (r, if r.is_some() { "val" } else { "panic" })
}
/// a checked function: value, None, or panic
fn checked(r: Option<Option<i128>>) -> (Option<i128>, &'static str) {
    match r {
        Some(Some(v)) => (Some(v), "val"),
        Some(None) => (None, "none"),
        None => (None, "panic"),
    }
}

impl Sys {
    fn new() -> Sys {
        let e = new_env(&LedgerCfg::default());
        let c = e.register(thin::WadC, ());
        Sys { e, c }
    }

    /// Executes one case; `op` = {"op": fn, "a": hex, "b": hex (second operand / exponent), "d": decimals}
    fn step(&self, op: &Value) -> Value {
        let e = &self.e;
        let cl = thin::WadCClient::new(e, &self.c);
        let f = s(op, "op");
        let (a, b) = (parse(s(op, "a")), parse(s(op, "b")));
        let d = n(op, "d") as u32;
        assert!(d <= 255, "decimals are a u8");
        let (r, how) = match f {
            "from_integer" => plain(okfail(cl.try_from_integer(&a))),
            "to_integer" => plain(okfail(cl.try_to_integer(&a))),
            "from_token" => plain(okfail(cl.try_from_token(&a, &d))),
            "from_price" => plain(okfail(cl.try_from_price(&a, &d))),
            "to_token" => plain(okfail(cl.try_to_token(&a, &d))),
            "cadd" => checked(okfail(cl.try_cadd(&a, &b))),
            "csub" => checked(okfail(cl.try_csub(&a, &b))),
            "cmul_int" => checked(okfail(cl.try_cmul_int(&a, &b))),
            "cdiv_int" => checked(okfail(cl.try_cdiv_int(&a, &b))),
            "abs" => plain(okfail(cl.try_w_abs(&a))),
            "min" => plain(okfail(cl.try_w_min(&a, &b))),
            "max" => plain(okfail(cl.try_w_max(&a, &b))),
            "add" => plain(okfail(cl.try_op_add(&a, &b))),
            "sub" => plain(okfail(cl.try_op_sub(&a, &b))),
            "mul" => plain(okfail(cl.try_op_mul(&a, &b))),
            "div" => plain(okfail(cl.try_op_div(&a, &b))),
            "neg" => plain(okfail(cl.try_op_neg(&a))),
            "mul_int" => plain(okfail(cl.try_op_mul_int(&a, &b))),
            "int_mul" => plain(okfail(cl.try_op_int_mul(&a, &b))),
            "div_int" => plain(okfail(cl.try_op_div_int(&a, &b))),
            "cpow" => {
                assert!((0..=u32::MAX as i128).contains(&b), "exponent is a u32");
                checked(okfail(cl.try_cpow(&a, &(b as u32))))
            }
            k => panic!("fn {k}"),
        };
        let w: Vec<Value> = if f == "cpow" { pow_witnesses(e, a, b as u32).into_iter().map(log128).collect() } else { vec![] };
        json!({"op": op, "fn": f, "A": log128(a), "B": log128(b), "dec": d,
               "res": if r.is_some() { "ok" } else { "fail" }, "Q": log128(r.unwrap_or(0)),
               "qs": r.map(hex).unwrap_or("-".into()), "how": how, "W": w})
    }
}

fn mk(f: &str, a: i128, b: i128, d: u32) -> Value {
    json!({"op": f, "a": hex(a), "b": hex(b), "d": d})
}

// ---------------------------------------------------------------------------------------------
// inputs: boundary lattice, directed boundaries of each operation, random values of every bit length
// ---------------------------------------------------------------------------------------------

fn p10(k: u32) -> i128 {
    10i128.pow(k)
}

fn lattice128() -> Vec<i128> {
    let mut v: Vec<i128> = vec![0, 1, 2, 3, 7, 10, 1 << 31, 1 << 32, 1 << 62, 1 << 63, 1 << 64, (1 << 64) + 1, 1 << 126,
                                WAD, WAD - 1, WAD + 1, 2 * WAD, WAD / 2, p10(9), p10(20), p10(36), p10(38), i128::MAX, i128::MAX - 1,
                                i128::MAX / WAD, i128::MAX / WAD + 1, i128::MAX / 2, i128::MAX / 3,
                                0x5555_5555_5555_5555_5555_5555_5555_5555];
    let mut n: Vec<i128> = v.iter().map(|x| -*x).collect();
    v.append(&mut n);
    v.push(i128::MIN);
    v.push(i128::MIN + 1);
    v.sort();
    v.dedup();
    v
}

/// a value of exactly `bits` significant bits (0 -> 0), random sign
fn exact_bits(r: &mut StdRng, bits: u32) -> i128 {
    let mag: u128 = if bits == 0 { 0 } else { (r.gen::<u128>() >> (128 - bits)) | (1u128 << (bits - 1)) };
    let v = mag as i128; // bits <= 127
    if r.gen_bool(0.5) { v } else { -v }
}

/// a value of a uniformly chosen bit length lo..=hi, random sign
fn bits_in(r: &mut StdRng, lo: u32, hi: u32) -> i128 {
    let bits = r.gen_range(lo..=hi);
    exact_bits(r, bits)
}

/// a value of a uniformly chosen bit length 0..=maxbits (<= 127), random sign
fn rand_bits(r: &mut StdRng, maxbits: u32) -> i128 {
    let bits = r.gen_range(0..=maxbits);
    exact_bits(r, bits)
}

fn rand128(r: &mut StdRng) -> i128 {
    match r.gen_range(0..20) {
        0 => i128::MIN,
        1 => i128::MAX,
        _ => rand_bits(r, 127),
    }
}

fn pick128(r: &mut StdRng, lat: &[i128]) -> i128 {
    match r.gen_range(0..10) {
        0..=3 => *pick(r, lat),
        4 => pick(r, lat).wrapping_add(r.gen_range(-2..=2)),
        5 => r.gen_range(-20..=20),
        _ => rand128(r),
    }
}

fn nonzero(v: i128) -> i128 {
    if v == 0 { 1 } else { v }
}

fn bitlen(v: i128) -> u32 {
    128 - v.unsigned_abs().leading_zeros()
}

/// an operand for "multiply by 10^k, must fit": at, just beyond and around the largest fitting magnitude
fn gen_up(r: &mut StdRng, lat: &[i128], k: u32) -> i128 {
    let bound = i128::MAX / p10(k);
    match r.gen_range(0..10) {
        0 => bound,
        1 => bound + 1,
        2 => -bound,
        3 => -bound - 1,
        4..=6 => rand_bits(r, (bitlen(bound) + 1).min(127)),
        7 => r.gen_range(-1000..=1000),
        _ => pick128(r, lat),
    }
}

/// an operand for "divide by 10^k, truncating": exact multiples, their neighbours, anything
fn gen_down(r: &mut StdRng, lat: &[i128], k: u32) -> i128 {
    let f = p10(k);
    let m = rand_bits(r, bitlen(i128::MAX / f));
    let mult = m.checked_mul(f).unwrap_or(0);
    match r.gen_range(0..10) {
        0..=1 => mult,
        2 => mult.saturating_add(1),
        3 => mult.saturating_sub(1),
        4 => r.gen_range(-3..=3) * f.min(i128::MAX / 4),
        5 => f - 1,
        6 => -(f - 1),
        _ => pick128(r, lat),
    }
}

fn pick_dec(r: &mut StdRng) -> u32 {
    match r.gen_range(0..10) {
        0..=5 => r.gen_range(0..=38),
        6..=7 => r.gen_range(39..=56),
        8 => *pick(r, &[57, 58, 74, 100, 255]),
        _ => *pick(r, &[0, 17, 18, 19, 56]),
    }
}

const FNS: [&str; 21] = ["from_integer", "to_integer", "from_token", "from_price", "to_token", "cadd", "csub", "cmul_int",
                         "cdiv_int", "abs", "min", "max", "add", "sub", "mul", "div", "neg", "mul_int", "int_mul", "div_int", "cpow"];

/// one random case of operation `f`
fn gen_case(r: &mut StdRng, e: &Env, lat: &[i128], f: &str) -> Value {
    let (max, min) = (i128::MAX, i128::MIN);
    match f {
        "from_integer" => mk(f, gen_up(r, lat, 18), 0, 0),
        "to_integer" => mk(f, gen_down(r, lat, 18), 0, 0),
        "from_token" | "from_price" | "to_token" => {
            let d = pick_dec(r);
            let up = (d < 18) == (f != "to_token");
            let k = if d < 18 { 18 - d } else { d - 18 };
            let x = if d == 18 || k > 38 { if r.gen_bool(0.3) { 0 } else { pick128(r, lat) } }
                    else if up { gen_up(r, lat, k) } else { gen_down(r, lat, k) };
            mk(f, x, 0, d)
        }
        "cadd" | "add" | "csub" | "sub" => {
            let a = pick128(r, lat);
            // b0: the sum (difference) is exactly MAX or MIN; one step further it no longer fits
            let add = f == "cadd" || f == "add";
            let (b0, step) = match (add, a >= 0) {
                (true, true) => (max - a, 1),
                (true, false) => (min - a, -1),
                (false, true) => (a - max, -1),
                (false, false) => (a - min, 1),
            };
            let b = match r.gen_range(0..8) {
                0 => b0,
                1 => b0.saturating_add(step),
                2 => b0.saturating_sub(step),
                _ => pick128(r, lat),
            };
            mk(f, a, b, 0)
        }
        "cmul_int" | "mul_int" | "int_mul" => {
            let (a, b) = match r.gen_range(0..8) {
                0 | 1 => { let a = nonzero(rand128(r)); (a, max / a) }
                2 => { let a = nonzero(rand128(r)); (a, (max / a).saturating_add(a.signum())) }
                3 => { let a = nonzero(rand128(r)); (a, min.checked_div(a).unwrap_or(max)) }
                4 => { let ba: u32 = r.gen_range(0..=127); let bb: u32 = (128 - ba).saturating_sub(r.gen_range(0..=2u32)).min(127);
                       (exact_bits(r, ba), exact_bits(r, bb)) }
                _ => (pick128(r, lat), pick128(r, lat)),
            };
            if r.gen_bool(0.5) { mk(f, a, b, 0) } else { mk(f, b, a, 0) }
        }
        "cdiv_int" | "div_int" => {
            let (a, b) = match r.gen_range(0..10) {
                0 => (pick128(r, lat), 0),
                1 => (*pick(r, &[min, min + 1, max, -1]), -1),
                2 | 3 => { let n = nonzero(rand_bits(r, 63)); (n * rand_bits(r, 63), n) }
                4..=6 => (pick128(r, lat), nonzero(rand_bits(r, 100))),
                _ => (pick128(r, lat), pick128(r, lat)),
            };
            mk(f, a, b, 0)
        }
        "abs" | "neg" => {
            let a = if r.gen_bool(0.3) { *pick(r, &[min, min + 1, max, 0, -1, 1]) } else { pick128(r, lat) };
            mk(f, a, 0, 0)
        }
        "min" | "max" => {
            let a = pick128(r, lat);
            let b = match r.gen_range(0..4) { 0 => a, 1 => a.saturating_add(r.gen_range(-1..=1)), _ => pick128(r, lat) };
            mk(f, a, b, 0)
        }
        _ => gen_case2(r, e, lat, f),
    }
}

fn gen_case2(r: &mut StdRng, e: &Env, lat: &[i128], f: &str) -> Value {
    let max = i128::MAX;
    match f {
        "mul" => {
            let (a, b) = match r.gen_range(0..12) {
                // the raw product fits
                0..=2 => { let ba = r.gen_range(0..=126); let bb = r.gen_range(0..=(126 - ba)); (exact_bits(r, ba), exact_bits(r, bb)) }
                // exact multiples of the scale
                3 => (rand_bits(r, 30) * p10(9), rand_bits(r, 30) * p10(9)),
                4 => (r.gen_range(-100..=100) * WAD, rand_bits(r, 58)),
                // the raw product does not fit, the Wad product does (aimed at a random value q)
                5 | 6 => { let a = nonzero(bits_in(r, 64, 127)); let q = rand128(r);
                           (a, wide_muldiv(e, q, WAD, a).unwrap_or(1)) }
                // boundary between "raw product fits" and not
                7 => { let a = nonzero(rand128(r)); (a, (max / a).saturating_add(r.gen_range(0..=1) * a.signum())) }
                // boundary between "Wad product fits" and not
                8 => { let a = nonzero(bits_in(r, 61, 127));
                       (a, wide_muldiv(e, max, WAD, a).unwrap_or(1).saturating_add(r.gen_range(-1..=1))) }
                9 => (bits_in(r, 90, 127), bits_in(r, 100, 127)),
                _ => (pick128(r, lat), pick128(r, lat)),
            };
            if r.gen_bool(0.5) { mk(f, a, b, 0) } else { mk(f, b, a, 0) }
        }
        "div" => {
            let lim = max / WAD; // the largest a with a * 10^18 in range
            let (a, b) = match r.gen_range(0..12) {
                0 => (pick128(r, lat), 0),
                1..=3 => (rand_bits(r, 66), nonzero(pick128(r, lat))),
                // exact quotients
                4 => (rand_bits(r, 66), p10(r.gen_range(0..=18)) * *pick(r, &[1, -1, 2, 5])),
                5 => { let b = nonzero(rand_bits(r, 30)); (b * rand_bits(r, 30), b * *pick(r, &[1, -1, WAD, 1000])) }
                6 => (*pick(r, &[lim, lim + 1, -lim, -lim - 1, lim - 1]), nonzero(pick128(r, lat))),
                // a * 10^18 does not fit, the quotient does (aimed at a random value q)
                7 | 8 => { let a = nonzero(bits_in(r, 68, 127)); let q = nonzero(rand128(r));
                           (a, nonzero(wide_muldiv(e, a, WAD, q).unwrap_or(max))) }
                // boundary between "quotient fits" and not
                9 => { let a = nonzero(bits_in(r, 68, 127));
                       (a, nonzero(wide_muldiv(e, a, WAD, max).unwrap_or(1).saturating_add(r.gen_range(-1..=1)))) }
                10 => (bits_in(r, 68, 127), *pick(r, &[1, -1, 2, 3, 1000])),
                _ => (pick128(r, lat), pick128(r, lat)),
            };
            mk(f, a, b, 0)
        }
        "cpow" => {
            let base = match r.gen_range(0..10) {
                0 => WAD,
                1 => 0,
                2 => *pick(r, &[2 * WAD, -WAD, -2 * WAD, WAD / 2, -3 * WAD / 2, 10 * WAD, WAD + 1, WAD - 1, -WAD + 1]),
                3 | 4 => r.gen_range(-5 * WAD..5 * WAD),
                // so close to one that long chains stay in range
                5 => WAD + r.gen_range(-1_000_000_000..=1_000_000_000),
                6 => -(WAD + r.gen_range(-1_000_000_000..=1_000_000_000)),
                7 => rand_bits(r, 80),
                _ => pick128(r, lat),
            };
            let n: i128 = match r.gen_range(0..10) {
                0..=5 => *pick(r, &[0i128, 1, 2, 3, 4, 5, 7, 10, 16, 31, 64, 127, 128, 200, 1000]),
                6 | 7 => r.gen_range(0..=40),
                8 => rand_bits(r, 32).abs().min(u32::MAX as i128),
                _ => u32::MAX as i128 - r.gen_range(0..=1),
            };
            mk(f, base, n, 0)
        }
        k => panic!("fn {k}"),
    }
}

/// at least one case of every class of WadOps.tla (ReachableClasses) and the extreme inputs
fn directed() -> Vec<Value> {
    let (max, min, w) = (i128::MAX, i128::MIN, WAD);
    let mut v = vec![
        mk("from_integer", 5, 0, 0), mk("from_integer", max / w, 0, 0), mk("from_integer", max / w + 1, 0, 0),
        mk("from_integer", min / w, 0, 0), mk("from_integer", min / w - 1, 0, 0), mk("from_integer", min, 0, 0),
        mk("to_integer", 5 * w, 0, 0), mk("to_integer", 5 * w + 1, 0, 0), mk("to_integer", -5 * w - 1, 0, 0),
        mk("to_integer", max, 0, 0), mk("to_integer", min, 0, 0), mk("to_integer", w - 1, 0, 0), mk("to_integer", 1 - w, 0, 0),
    ];
    for f in ["from_token", "from_price"] {
        v.extend([mk(f, 1_500_000, 0, 6), mk(f, max, 0, 0), mk(f, max / w, 0, 0), mk(f, min, 0, 17), mk(f, 123, 0, 18), mk(f, min, 0, 18),
                  mk(f, p10(20), 0, 20), mk(f, p10(20) + 1, 0, 20), mk(f, -p10(20) - 1, 0, 20), mk(f, 99, 0, 20), mk(f, -99, 0, 20),
                  mk(f, max, 0, 56), mk(f, min, 0, 56), mk(f, p10(38), 0, 56), mk(f, 1_000_000, 0, 57), mk(f, 0, 0, 57),
                  mk(f, max, 0, 255), mk(f, min, 0, 58)]);
    }
    v.extend([mk("to_token", w, 0, 6), mk("to_token", w + 1, 0, 6), mk("to_token", -w - 1, 0, 6), mk("to_token", max, 0, 0),
              mk("to_token", min, 0, 0), mk("to_token", 77, 0, 18), mk("to_token", w, 0, 20), mk("to_token", max / 100, 0, 20),
              mk("to_token", max / 100 + 1, 0, 20), mk("to_token", 1, 0, 56), mk("to_token", 2, 0, 56), mk("to_token", max, 0, 56),
              mk("to_token", 0, 0, 57), mk("to_token", 1, 0, 57), mk("to_token", 0, 0, 255), mk("to_token", min, 0, 19)]);
    for f in ["cadd", "add"] {
        v.extend([mk(f, 1, 2, 0), mk(f, max, 1, 0), mk(f, max, 0, 0), mk(f, min, -1, 0), mk(f, min, max, 0), mk(f, min, min, 0)]);
    }
    for f in ["csub", "sub"] {
        v.extend([mk(f, 1, 2, 0), mk(f, min, 1, 0), mk(f, min, 0, 0), mk(f, max, -1, 0), mk(f, 0, min, 0), mk(f, -1, min, 0), mk(f, min, min, 0)]);
    }
    for f in ["cmul_int", "mul_int", "int_mul"] {
        v.extend([mk(f, 3, 4, 0), mk(f, max, 2, 0), mk(f, min, -1, 0), mk(f, -1, min, 0), mk(f, min, 1, 0), mk(f, 1 << 64, 1 << 63, 0),
                  mk(f, -(1 << 64), 1 << 63, 0), mk(f, 0, min, 0)]);
    }
    for f in ["cdiv_int", "div_int"] {
        v.extend([mk(f, 7, 0, 0), mk(f, 0, 0, 0), mk(f, min, -1, 0), mk(f, 6, 3, 0), mk(f, 7, 2, 0), mk(f, -7, 2, 0), mk(f, 7, -2, 0),
                  mk(f, -7, -2, 0), mk(f, min, 1, 0), mk(f, max, -1, 0), mk(f, min, min, 0), mk(f, max, min, 0), mk(f, min + 1, -1, 0)]);
    }
    for f in ["abs", "neg"] {
        v.extend([mk(f, -5, 0, 0), mk(f, 5, 0, 0), mk(f, 0, 0, 0), mk(f, min, 0, 0), mk(f, min + 1, 0, 0), mk(f, max, 0, 0)]);
    }
    for f in ["min", "max"] {
        v.extend([mk(f, 1, 2, 0), mk(f, 2, 2, 0), mk(f, 3, 2, 0), mk(f, min, max, 0), mk(f, max, min, 0), mk(f, -1, 0, 0)]);
    }
    v.extend([mk("mul", max, 2 * w, 0), mk("mul", 100 * w, 100 * w, 0), mk("mul", 14 * w, 14 * w, 0), mk("mul", 2 * w, 3 * w, 0),
              mk("mul", 3, 5 * w / 10, 0), mk("mul", -3, 5 * w / 10, 0), mk("mul", 3, -5 * w / 10, 0), mk("mul", min, w, 0),
              mk("mul", min, 1, 0), mk("mul", min, -1, 0), mk("mul", 1 << 64, 1 << 63, 0), mk("mul", -(1 << 64), 1 << 63, 0), mk("mul", 0, min, 0),
              mk("div", w, 0, 0), mk("div", 0, 0, 0), mk("div", max, 1, 0), mk("div", p10(22), p10(22), 0), mk("div", 6 * w, 3 * w, 0),
              mk("div", 1, 3, 0), mk("div", -1, 3, 0), mk("div", 1, -3, 0), mk("div", max / w, 1, 0), mk("div", max / w + 1, 1, 0),
              mk("div", min, w, 0), mk("div", min, min, 0), mk("div", max / w, -1, 0), mk("div", min / w, -1, 0),
              mk("cpow", 2 * w, 0, 0), mk("cpow", 0, 0, 0), mk("cpow", min, 0, 0), mk("cpow", 2 * w, 1, 0), mk("cpow", min, 1, 0),
              mk("cpow", 0, 5, 0), mk("cpow", 0, u32::MAX as i128, 0), mk("cpow", w, 5, 0), mk("cpow", w, u32::MAX as i128, 0),
              mk("cpow", 2 * w, 10, 0), mk("cpow", 2 * w, 67, 0), mk("cpow", 2 * w, 68, 0), mk("cpow", 2 * w, 200, 0), mk("cpow", -2 * w, 67, 0),
              mk("cpow", -w, u32::MAX as i128, 0), mk("cpow", -w, u32::MAX as i128 - 1, 0), mk("cpow", w + 1, u32::MAX as i128, 0),
              mk("cpow", w - 1, u32::MAX as i128, 0), mk("cpow", 105 * w / 100, 10, 0), mk("cpow", min, 2, 0), mk("cpow", max, 2, 0),
              mk("cpow", 13_043_817_825 * p10(18), 2, 0), mk("cpow", 13_043_817_826 * p10(18), 2, 0), mk("cpow", w / 2, 70, 0),
              mk("cpow", 3 * w / 2, 3, 0), mk("cpow", -3 * w / 2, 3, 0), mk("cpow", 1, 2, 0), mk("cpow", p10(9), 2, 0), mk("cpow", p10(9) - 1, 2, 0)]);
    v
}

fn main() {
    match cli() {
        Mode::Exec { input, output } => {
            let mut t = Trace::create(&output);
            let sys = Sys::new();
            for b in read_behaviours(&input) {
                t.reset(json!({"op": {"op": "reset"}}));
                for op in &b.ops {
                    t.step(sys.step(op));
                }
            }
            t.finish();
        }
        Mode::Drive { seed, runs, len, output } => {
            let mut t = Trace::create(&output);
            let mut r = StdRng::seed_from_u64(seed);
            let lat = lattice128();
            let sys = Sys::new();
            // directed cases: every class and the extreme inputs are covered in every check
            // (only the first of the parallel workers replays them: seeds are seed*1000 + worker)
            t.reset(json!({"op": {"op": "reset", "part": "directed"}}));
            if seed % 1000 == 0 {
                for op in directed() {
                    t.step(sys.step(&op));
                }
            }
            for _ in 0..runs {
                t.reset(json!({"op": {"op": "reset", "part": "random"}}));
                for _ in 0..len {
                    // the Wad * Wad, Wad / Wad operators and checked_pow have the richest case analysis
                    let f = match r.gen_range(0..26) {
                        k @ 0..=20 => FNS[k],
                        21 | 22 => "mul",
                        23 | 24 => "div",
                        _ => "cpow",
                    };
                    let op = gen_case(&mut r, &sys.e, &lat, f);
                    t.step(sys.step(&op));
                }
            }
            t.finish();
        }
    }
}
