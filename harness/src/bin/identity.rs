//! Binding of spec/Identity.tla (C15): the RWA identity stack, every contract a thin 1:1 forward
//! to the library:
//!
//! * `verifier::Verifier` — `identity_verifier::storage::verify_identity` with its two collaborators
//!   configured at construction;
//! * `cti::Registry` — `ClaimTopicsAndIssuers` over `claim_topics_and_issuers::storage` (registered
//!   twice: "A" is the token's registry, "B" another registry that trusts every issuer for every topic);
//! * `irs::Irs` — `identity_registry_storage::{add_identity, stored_identity, get_recovered_to}`;
//! * `ident::Identity` — the library's `identity_claims::{add_claim, get_claim, get_claim_ids_by_topic,
//!   remove_claim}` ("ida");
//! * `rogue::Rogue` — an identity contract that is NOT built on the library: it stores whatever claim it
//!   is given under whatever slot ("idb"); the verifier must be sound for any identity contract;
//! * `issuer::Issuer` — a claim issuer composed from the library's helpers exactly as the module
//!   documentation of `claim_issuer` prescribes (extract signature data, key allowed for topic, expiry,
//!   message with current nonce, revocation, signature verification) for three schemes
//!   (101 Ed25519, 102 Secp256k1, 103 Secp256r1), plus 1:1 forwards of the key / revocation / nonce
//!   management helpers.
//!
//! Claims are genuinely signed off-chain (ed25519-dalek, k256, p256) over a message the harness
//! builds itself: network id || issuer || identity || topic || nonce || data.  Every static defect is
//! ONE concrete corruption of such a claim (see `Sys::make_claim`).
#![allow(dead_code)]
use soroban_sdk::{testutils::Address as _, xdr::ToXdr, Address, Bytes, BytesN, Env, String as SStr, Vec as SVec};
use verif_harness::*;

mod cti {
    use soroban_sdk::{contract, contractimpl, Address, Env, Map, Vec};
    use stellar_tokens::rwa::claim_topics_and_issuers::{storage as st, ClaimTopicsAndIssuers};

    #[contract]
    pub struct Registry;

    #[contractimpl]
    impl ClaimTopicsAndIssuers for Registry {
        fn add_claim_topic(e: &Env, claim_topic: u32, _operator: Address) {
            st::add_claim_topic(e, claim_topic)
        }
        fn remove_claim_topic(e: &Env, claim_topic: u32, _operator: Address) {
            st::remove_claim_topic(e, claim_topic)
        }
        fn get_claim_topics(e: &Env) -> Vec<u32> {
            st::get_claim_topics(e)
        }
        fn add_trusted_issuer(e: &Env, trusted_issuer: Address, claim_topics: Vec<u32>, _operator: Address) {
            st::add_trusted_issuer(e, &trusted_issuer, &claim_topics)
        }
        fn remove_trusted_issuer(e: &Env, trusted_issuer: Address, _operator: Address) {
            st::remove_trusted_issuer(e, &trusted_issuer)
        }
        fn update_issuer_claim_topics(e: &Env, trusted_issuer: Address, claim_topics: Vec<u32>, _operator: Address) {
            st::update_issuer_claim_topics(e, &trusted_issuer, &claim_topics)
        }
        fn get_trusted_issuers(e: &Env) -> Vec<Address> {
            st::get_trusted_issuers(e)
        }
        fn get_claim_topic_issuers(e: &Env, claim_topic: u32) -> Vec<Address> {
            st::get_claim_topic_issuers(e, claim_topic)
        }
        fn get_claim_topics_and_issuers(e: &Env) -> Map<u32, Vec<Address>> {
            st::get_claim_topics_and_issuers(e)
        }
        fn is_trusted_issuer(e: &Env, issuer: Address) -> bool {
            st::is_trusted_issuer(e, &issuer)
        }
        fn get_trusted_issuer_claim_topics(e: &Env, trusted_issuer: Address) -> Vec<u32> {
            st::get_trusted_issuer_claim_topics(e, &trusted_issuer)
        }
        fn has_claim_topic(e: &Env, issuer: Address, claim_topic: u32) -> bool {
            st::has_claim_topic(e, &issuer, claim_topic)
        }
    }
}

mod verifier {
    use soroban_sdk::{contract, contractimpl, Address, Env};
    use stellar_tokens::rwa::identity_verifier::storage as st;

    #[contract]
    pub struct Verifier;

    #[contractimpl]
    impl Verifier {
        pub fn __constructor(e: &Env, irs: Address, cti: Address) {
            st::set_identity_registry_storage(e, &irs);
            st::set_claim_topics_and_issuers(e, &cti);
        }
        pub fn verify_identity(e: &Env, account: Address) {
            st::verify_identity(e, &account)
        }
    }
}

mod irs {
    use soroban_sdk::{contract, contractimpl, vec, Address, Env};
    use stellar_tokens::rwa::identity_registry_storage as st;

    #[contract]
    pub struct Irs;

    #[contractimpl]
    impl Irs {
        pub fn add_identity(e: &Env, account: Address, identity: Address) {
            let cd = st::CountryData {
                country: st::CountryRelation::Individual(st::IndividualCountryRelation::Residence(840)),
                metadata: None,
            };
            st::add_identity(e, &account, &identity, st::IdentityType::Individual, &vec![e, cd])
        }
        pub fn stored_identity(e: &Env, account: Address) -> Address {
            st::stored_identity(e, &account)
        }
        pub fn get_recovered_to(e: &Env, old_account: Address) -> Option<Address> {
            st::get_recovered_to(e, &old_account)
        }
    }
}

mod ident {
    use soroban_sdk::{contract, contractimpl, Address, Bytes, BytesN, Env, String, Vec};
    use stellar_tokens::rwa::identity_claims as st;

    #[contract]
    pub struct Identity;

    #[contractimpl]
    impl st::IdentityClaims for Identity {
        fn add_claim(e: &Env, topic: u32, scheme: u32, issuer: Address, signature: Bytes, data: Bytes, uri: String) -> BytesN<32> {
            st::add_claim(e, topic, scheme, &issuer, &signature, &data, &uri)
        }
        fn get_claim(e: &Env, claim_id: BytesN<32>) -> st::Claim {
            st::get_claim(e, &claim_id)
        }
        fn get_claim_ids_by_topic(e: &Env, topic: u32) -> Vec<BytesN<32>> {
            st::get_claim_ids_by_topic(e, topic)
        }
    }

    #[contractimpl]
    impl Identity {
        pub fn remove_claim(e: &Env, claim_id: BytesN<32>) {
            st::remove_claim(e, &claim_id)
        }
    }
}

/// An identity contract that does not use the library: stores any claim under any slot.
mod rogue {
    use soroban_sdk::{contract, contractimpl, contracttype, Address, BytesN, Env, Vec};
    use stellar_tokens::rwa::identity_claims::{generate_claim_id, Claim};

    #[contracttype]
    pub enum K {
        C(BytesN<32>),
        T(u32),
    }

    #[contract]
    pub struct Rogue;

    #[contractimpl]
    impl Rogue {
        /// files `claim` under the slot of (slot_issuer, slot_topic), whatever the claim itself says
        pub fn put(e: &Env, slot_topic: u32, slot_issuer: Address, claim: Claim) {
            let id = generate_claim_id(e, &slot_issuer, slot_topic);
            e.storage().persistent().set(&K::C(id.clone()), &claim);
            let mut ids: Vec<BytesN<32>> = e.storage().persistent().get(&K::T(slot_topic)).unwrap_or(Vec::new(e));
            if !ids.contains(&id) {
                ids.push_back(id);
            }
            e.storage().persistent().set(&K::T(slot_topic), &ids);
        }
        pub fn del(e: &Env, slot_topic: u32, slot_issuer: Address) {
            let id = generate_claim_id(e, &slot_issuer, slot_topic);
            if !e.storage().persistent().has(&K::C(id.clone())) {
                panic!("no such claim");
            }
            e.storage().persistent().remove(&K::C(id.clone()));
            let mut ids: Vec<BytesN<32>> = e.storage().persistent().get(&K::T(slot_topic)).unwrap_or(Vec::new(e));
            if let Some(p) = ids.first_index_of(&id) {
                ids.remove(p);
            }
            e.storage().persistent().set(&K::T(slot_topic), &ids);
        }
        pub fn get_claim(e: &Env, claim_id: BytesN<32>) -> Claim {
            e.storage().persistent().get(&K::C(claim_id)).expect("claim")
        }
        pub fn get_claim_ids_by_topic(e: &Env, topic: u32) -> Vec<BytesN<32>> {
            e.storage().persistent().get(&K::T(topic)).unwrap_or(Vec::new(e))
        }
    }
}

/// Claim issuer composed from the library's helpers as the `claim_issuer` module doc prescribes.
mod issuer {
    use soroban_sdk::{contract, contractimpl, panic_with_error, Address, Bytes, Env};
    use stellar_tokens::rwa::{
        claim_issuer::{self as ci, ClaimIssuer, SignatureVerifier},
        identity_claims::ClaimsError,
    };

    pub const ED25519: u32 = 101;
    pub const SECP256K1: u32 = 102;
    pub const SECP256R1: u32 = 103;

    #[contract]
    pub struct Issuer;

    fn common(e: &Env, public_key: &Bytes, scheme: u32, identity: &Address, claim_topic: u32, claim_data: &Bytes) {
        if !ci::is_key_allowed_for_topic(e, public_key, scheme, claim_topic) {
            panic_with_error!(e, ClaimsError::ClaimNotValid)
        }
        if ci::is_claim_expired(e, claim_data) {
            panic_with_error!(e, ClaimsError::ClaimNotValid)
        }
        if ci::is_claim_revoked(e, identity, claim_topic, claim_data) {
            panic_with_error!(e, ClaimsError::ClaimNotValid)
        }
    }

    #[contractimpl]
    impl ClaimIssuer for Issuer {
        fn is_claim_valid(e: &Env, identity: Address, claim_topic: u32, scheme: u32, sig_data: Bytes, claim_data: Bytes) {
            match scheme {
                ED25519 => {
                    let sd = ci::Ed25519Verifier::extract_signature_data(e, &sig_data);
                    common(e, &sd.public_key.clone().into(), scheme, &identity, claim_topic, &claim_data);
                    let m = ci::Ed25519Verifier::build_message(e, &identity, claim_topic, &claim_data);
                    ci::Ed25519Verifier::verify(e, &m, &sd)
                }
                SECP256K1 => {
                    let sd = ci::Secp256k1Verifier::extract_signature_data(e, &sig_data);
                    common(e, &sd.public_key.clone().into(), scheme, &identity, claim_topic, &claim_data);
                    let m = ci::Secp256k1Verifier::build_message(e, &identity, claim_topic, &claim_data);
                    ci::Secp256k1Verifier::verify(e, &m, &sd)
                }
                SECP256R1 => {
                    let sd = ci::Secp256r1Verifier::extract_signature_data(e, &sig_data);
                    common(e, &sd.public_key.clone().into(), scheme, &identity, claim_topic, &claim_data);
                    let m = ci::Secp256r1Verifier::build_message(e, &identity, claim_topic, &claim_data);
                    ci::Secp256r1Verifier::verify(e, &m, &sd)
                }
                _ => panic_with_error!(e, ClaimsError::ClaimNotValid),
            }
        }
    }

    #[contractimpl]
    impl Issuer {
        pub fn allow_key(e: &Env, public_key: Bytes, registry: Address, scheme: u32, claim_topic: u32) {
            ci::allow_key(e, &public_key, &registry, scheme, claim_topic)
        }
        pub fn remove_key(e: &Env, public_key: Bytes, registry: Address, scheme: u32, claim_topic: u32) {
            ci::remove_key(e, &public_key, &registry, scheme, claim_topic)
        }
        pub fn set_claim_revoked(e: &Env, identity: Address, claim_topic: u32, claim_data: Bytes, revoked: bool) {
            ci::set_claim_revoked(e, &identity, claim_topic, &claim_data, revoked)
        }
        pub fn invalidate_claim_signatures(e: &Env, identity: Address, claim_topic: u32) {
            ci::invalidate_claim_signatures(e, &identity, claim_topic)
        }
        pub fn get_current_nonce_for(e: &Env, identity: Address, claim_topic: u32) -> u32 {
            ci::get_current_nonce_for(e, &identity, claim_topic)
        }
        pub fn is_key_allowed_for_topic(e: &Env, public_key: Bytes, scheme: u32, claim_topic: u32) -> bool {
            ci::is_key_allowed_for_topic(e, &public_key, scheme, claim_topic)
        }
    }
}

mod vissuer {
    //! An issuer in the style of ERC-3643 `isClaimValid`: it ANSWERS (here: always "no") instead of trapping. For the
    //! library a claim is confirmed only by a call that returns nothing; an answer, whatever it says, confirms nothing.
    #![allow(unused_imports, dead_code)]
    use soroban_sdk::{contract, contractimpl, panic_with_error, Address, Bytes, Env};
    use stellar_tokens::rwa::{
        claim_issuer::{self as ci, ClaimIssuer, SignatureVerifier},
        identity_claims::ClaimsError,
    };

    pub const ED25519: u32 = 101;
    pub const SECP256K1: u32 = 102;
    pub const SECP256R1: u32 = 103;

    #[contract]
    pub struct VerdictIssuer;

    fn common(e: &Env, public_key: &Bytes, scheme: u32, identity: &Address, claim_topic: u32, claim_data: &Bytes) {
        if !ci::is_key_allowed_for_topic(e, public_key, scheme, claim_topic) {
            panic_with_error!(e, ClaimsError::ClaimNotValid)
        }
        if ci::is_claim_expired(e, claim_data) {
            panic_with_error!(e, ClaimsError::ClaimNotValid)
        }
        if ci::is_claim_revoked(e, identity, claim_topic, claim_data) {
            panic_with_error!(e, ClaimsError::ClaimNotValid)
        }
    }

    #[contractimpl]
    impl VerdictIssuer {
        pub fn is_claim_valid(_e: &Env, _identity: Address, _claim_topic: u32, _scheme: u32, _sig_data: Bytes, _claim_data: Bytes) -> bool {
            false
        }
    }

    #[contractimpl]
    impl VerdictIssuer {
        pub fn allow_key(e: &Env, public_key: Bytes, registry: Address, scheme: u32, claim_topic: u32) {
            ci::allow_key(e, &public_key, &registry, scheme, claim_topic)
        }
        pub fn remove_key(e: &Env, public_key: Bytes, registry: Address, scheme: u32, claim_topic: u32) {
            ci::remove_key(e, &public_key, &registry, scheme, claim_topic)
        }
        pub fn set_claim_revoked(e: &Env, identity: Address, claim_topic: u32, claim_data: Bytes, revoked: bool) {
            ci::set_claim_revoked(e, &identity, claim_topic, &claim_data, revoked)
        }
        pub fn invalidate_claim_signatures(e: &Env, identity: Address, claim_topic: u32) {
            ci::invalidate_claim_signatures(e, &identity, claim_topic)
        }
        pub fn get_current_nonce_for(e: &Env, identity: Address, claim_topic: u32) -> u32 {
            ci::get_current_nonce_for(e, &identity, claim_topic)
        }
        pub fn is_key_allowed_for_topic(e: &Env, public_key: Bytes, scheme: u32, claim_topic: u32) -> bool {
            ci::is_key_allowed_for_topic(e, &public_key, scheme, claim_topic)
        }
    }
}

// ---------------------------------------------------------------------------------------------
// universe and key material
// ---------------------------------------------------------------------------------------------
const TOPICS: [&str; 3] = ["t1", "t2", "t3"];
const ISSUERS: [&str; 2] = ["i1", "i2"];
const IDS: [&str; 2] = ["ida", "idb"];
const ACCTS: [&str; 3] = ["a", "b", "c"];
const KEYS: [&str; 3] = ["k1", "k2", "k3"];
const T0: u64 = 1_700_000_000;
const SCHEMES: [u32; 3] = [issuer::ED25519, issuer::SECP256K1, issuer::SECP256R1];

/// topic numbers: deliberately not in the order the topics are usually added
fn topic_no(t: &str) -> u32 {
    match t {
        "t1" => 10,
        "t2" => 3,
        "t3" => 7,
        x => panic!("topic {x}"),
    }
}

fn other<'a>(xs: &[&'a str], x: &str) -> &'a str {
    let p = xs.iter().position(|y| *y == x).unwrap_or_else(|| panic!("{x} not in universe"));
    xs[(p + 1) % xs.len()]
}

enum Sk {
    Ed(ed25519_dalek::SigningKey),
    K1(k256::ecdsa::SigningKey),
    R1(p256::ecdsa::SigningKey),
}

struct KeyMat {
    scheme: u32,
    public: Vec<u8>,
    sk: Sk,
}

impl KeyMat {
    /// deterministic key pair number `idx` of the given scheme
    fn new(idx: usize, scheme: u32) -> KeyMat {
        let mut secret = [0u8; 32];
        for (j, b) in secret.iter_mut().enumerate() {
            *b = (17 * (idx as u8 + 1)).wrapping_add(j as u8).wrapping_add((scheme % 100) as u8 * 3) | 1;
        }
        secret[0] = 0x11; // keeps secp scalars below the group order
        match scheme {
            issuer::ED25519 => {
                let sk = ed25519_dalek::SigningKey::from_bytes(&secret);
                KeyMat { scheme, public: sk.verifying_key().as_bytes().to_vec(), sk: Sk::Ed(sk) }
            }
            issuer::SECP256K1 => {
                use k256::elliptic_curve::sec1::ToEncodedPoint;
                let s = k256::SecretKey::from_slice(&secret).expect("k256 secret");
                let public = s.public_key().to_encoded_point(false).as_bytes().to_vec();
                KeyMat { scheme, public, sk: Sk::K1(k256::ecdsa::SigningKey::from(&s)) }
            }
            issuer::SECP256R1 => {
                use p256::elliptic_curve::sec1::ToEncodedPoint;
                let s = p256::SecretKey::from_slice(&secret).expect("p256 secret");
                let public = s.public_key().to_encoded_point(false).as_bytes().to_vec();
                KeyMat { scheme, public, sk: Sk::R1(p256::ecdsa::SigningKey::from(&s)) }
            }
            x => panic!("scheme {x}"),
        }
    }

    /// signature part of `sig_data` for this scheme (64 bytes; + 4 bytes recovery id for secp256k1)
    fn sign(&self, e: &Env, msg: &[u8]) -> Vec<u8> {
        match &self.sk {
            Sk::Ed(sk) => {
                use ed25519_dalek::Signer;
                sk.sign(msg).to_bytes().to_vec()
            }
            Sk::K1(sk) => {
                let digest = e.crypto().keccak256(&Bytes::from_slice(e, msg)).to_array();
                let (sig, rid) = sk.sign_prehash_recoverable(&digest).expect("k256 sign");
                let mut v = sig.to_bytes().to_vec();
                v.extend_from_slice(&(rid.to_byte() as u32).to_be_bytes());
                v
            }
            Sk::R1(sk) => {
                use p256::ecdsa::signature::hazmat::PrehashSigner;
                let digest = e.crypto().sha256(&Bytes::from_slice(e, msg)).to_array();
                let sig: p256::ecdsa::Signature = sk.sign_prehash(&digest).expect("p256 sign");
                sig.normalize_s().unwrap_or(sig).to_bytes().to_vec()
            }
        }
    }
}

fn to_vec(b: &Bytes) -> Vec<u8> {
    b.iter().collect()
}

/// claim data = created_at (8) || valid_until (8) || payload, the library's recommended encoding
/// Model times at and below ZERO_AT stand for the first seconds of the u64 clock (ZERO_AT + k = timestamp k: a hand-built
/// header - the library's encoder refuses it - that an off-chain signer is free to produce), FAR for u64::MAX.
const ZERO_AT: i64 = -1_000_000;
const FAR: i64 = 1_000_000_000;
fn real_until(until: i64) -> u64 {
    if until <= ZERO_AT + 1000 {
        (until - ZERO_AT).max(0) as u64
    } else if until >= FAR {
        u64::MAX
    } else {
        (T0 as i64 + until) as u64
    }
}
fn mk_data(e: &Env, until: i64, payload: &[u8]) -> Bytes {
    let mut v = Vec::new();
    v.extend_from_slice(&(if until <= ZERO_AT + 1000 { 0u64 } else { T0 - 1000 }).to_be_bytes());
    v.extend_from_slice(&real_until(until).to_be_bytes());
    v.extend_from_slice(payload);
    Bytes::from_slice(e, &v)
}

// ---------------------------------------------------------------------------------------------
// the system under test
// ---------------------------------------------------------------------------------------------
use stellar_tokens::rwa::{
    claim_issuer::ClaimIssuerClient,
    claim_topics_and_issuers::ClaimTopicsAndIssuersClient,
    identity_claims::{generate_claim_id, Claim, IdentityClaimsClient},
};

struct Sys {
    e: Env,
    names: Names,     // accounts, identities, issuers, registries "A"/"B", verifier, irs
    rot: usize,       // key name -> scheme rotation
    presetk: Vec<String>,
    keys0: Vec<Value>, // <<i, k, t, reg>> allowed during set-up (reported in the reset event)
    op_addr: Address,
    /// regime: the issuer of this name answers is_claim_valid with a value instead of trapping ("" = none)
    verdict: String,
}

struct Made {
    scheme: u32,
    sig_data: Bytes,
    data: Bytes,
    claim_topic: u32,      // the claim's own topic field
    claim_issuer: Address, // the claim's own issuer field
}

impl Sys {
    fn new(cfg: &Value) -> Sys {
        let e = new_env(&LedgerCfg::default());
        let rot = cfg.get("rot").and_then(|v| v.as_u64()).unwrap_or(0) as usize;
        let presetk: Vec<String> = cfg
            .get("presetk")
            .and_then(|v| v.as_array())
            .map(|a| a.iter().map(|x| x.as_str().unwrap().to_string()).collect())
            .unwrap_or_default();
        let mut names = Names::new(&e, &ACCTS);
        let op_addr = Address::generate(&e);
        let reg_a = e.register(cti::Registry, ());
        let reg_b = e.register(cti::Registry, ());
        names.insert("A", reg_a.clone());
        names.insert("B", reg_b.clone());
        let irs = e.register(irs::Irs, ());
        names.insert("irs", irs.clone());
        names.insert("verifier", e.register(verifier::Verifier, (irs.clone(), reg_a.clone())));
        names.insert("ida", e.register(ident::Identity, ()));
        names.insert("idb", e.register(rogue::Rogue, ()));
        let verdict = cfg.get("verdict").and_then(|v| v.as_str()).unwrap_or("").to_string();
        for i in ISSUERS {
            if i == verdict {
                names.insert(i, e.register(vissuer::VerdictIssuer, ()));
            } else {
                names.insert(i, e.register(issuer::Issuer, ()));
            }
        }
        let mut sys = Sys { e, names, rot, presetk, keys0: vec![], op_addr, verdict };
        sys.setup();
        sys
    }

    fn setup(&mut self) {
        let e = &self.e;
        no_auth(e);
        let irs = irs::IrsClient::new(e, &self.names.get("irs"));
        irs.add_identity(&self.names.get("a"), &self.names.get("ida"));
        irs.add_identity(&self.names.get("b"), &self.names.get("idb"));
        // registry "B" trusts every issuer for every topic
        let rb = ClaimTopicsAndIssuersClient::new(e, &self.names.get("B"));
        let mut all = SVec::new(e);
        for t in TOPICS {
            rb.add_claim_topic(&topic_no(t), &self.op_addr);
            all.push_back(topic_no(t));
        }
        for i in ISSUERS {
            rb.add_trusted_issuer(&self.names.get(i), &all, &self.op_addr);
        }
        for i in ISSUERS {
            let ic = issuer::IssuerClient::new(e, &self.names.get(i));
            for k in self.presetk.clone() {
                let km = self.key(&k);
                for t in TOPICS {
                    let r = ic.try_allow_key(&Bytes::from_slice(e, &km.public), &self.names.get("B"), &km.scheme, &topic_no(t));
                    if res_of(&r).0 == "ok" {
                        self.keys0.push(json!([i, k, t, "B"]));
                    }
                }
            }
        }
    }

    /// "k1s".."k3s": the public-key bytes of k1..k3 registered under another scheme number - a different signing
    /// key as far as the registry is concerned (never used to sign: the bytes are no key of that scheme)
    fn key(&self, k: &str) -> KeyMat {
        if let Some(base) = k.strip_suffix('s') {
            let km = self.key(base);
            let other = SCHEMES[(SCHEMES.iter().position(|x| *x == km.scheme).unwrap() + 1) % 3];
            return KeyMat { scheme: other, ..km };
        }
        let idx = match k {
            "k1" => 0,
            "k2" => 1,
            "k3" => 2,
            "kx" => 3,
            x => panic!("key {x}"),
        };
        KeyMat::new(idx, SCHEMES[(idx + self.rot) % 3])
    }

    fn now(&self) -> i64 {
        self.e.ledger().timestamp() as i64 - T0 as i64
    }

    fn nonce(&self, i: &str, id: &str, tn: u32) -> u32 {
        issuer::IssuerClient::new(&self.e, &self.names.get(i)).get_current_nonce_for(&self.names.get(id), &tn)
    }
}

impl Sys {
    /// A genuinely signed claim of issuer `i` about identity `id` and topic `t`, signed by key `k` with
    /// the issuer's current nonce, expiring at model time `until` -- with exactly ONE corruption `def`.
    fn make_claim(&self, i: &str, id: &str, t: &str, k: &str, def: &str, until: i64) -> Made {
        let e = &self.e;
        // what the claim says / where it is filed
        let mut s_issuer = i.to_string();
        let mut s_topic = t.to_string();
        match def {
            // a valid claim for ANOTHER topic, filed under this topic's slot (claim.topic = other)
            "slot_topic" => s_topic = other(&TOPICS, t).to_string(),
            // a valid claim of the OTHER issuer, filed under this issuer's slot (claim.issuer = other)
            "slot_issuer" => s_issuer = other(&ISSUERS, i).to_string(),
            _ => {}
        }
        let key = self.key(k);
        let nonce = self.nonce(&s_issuer, id, topic_no(&s_topic));
        // the message that gets signed
        let mut net = self.e.ledger().network_id().to_array();
        let mut m_issuer = self.names.get(&s_issuer);
        let mut m_identity = self.names.get(id);
        let mut m_topic = topic_no(&s_topic);
        let mut m_nonce = nonce;
        match def {
            "network" => net[0] ^= 0x01,                                   // signed for another network
            "issuer" => m_issuer = self.names.get(other(&ISSUERS, i)),    // signed naming another issuer
            "identity" => m_identity = self.names.get(other(&IDS, id)),   // signed for another identity
            "topic" => m_topic = topic_no(other(&TOPICS, t)),             // signed for another topic
            "nonce" => m_nonce = nonce + 1,                                // signed with a nonce that is not current
            // two fields of the same type exchanged in the signed message
            "swap_ii" => std::mem::swap(&mut m_issuer, &mut m_identity),
            "swap_tn" => {
                // (topic and nonce are both 4 bytes wide in the message only if they are equal types: exchange their values)
                let (t0, n0) = (m_topic, m_nonce);
                // (equal values: the exchange would change nothing - sign for a topic nobody uses instead)
                m_topic = if t0 == n0 { t0 ^ 0x100 } else { n0 };
                m_nonce = t0;
            }
            _ => {}
        }
        let data_signed = mk_data(e, until, b"kyc-ok");
        let mut msg: Vec<u8> = net.to_vec();
        msg.extend(to_vec(&m_issuer.to_xdr(e)));
        msg.extend(to_vec(&m_identity.to_xdr(e)));
        msg.extend_from_slice(&m_topic.to_be_bytes());
        msg.extend_from_slice(&m_nonce.to_be_bytes());
        msg.extend(to_vec(&data_signed));
        // signature
        let mut sig = match def {
            // signed by a key the issuer never allowed, presented with the allowed key's public key
            "forged" => KeyMat::new(3, key.scheme).sign(e, &msg),
            _ => key.sign(e, &msg),
        };
        if def == "sigbyte" {
            sig[5] ^= 0x40; // one flipped signature bit
        }
        let mut sig_data = key.public.clone();
        sig_data.extend(sig);
        // what is presented
        let data = match def {
            "data" => mk_data(e, until, b"kyc-OK"),          // payload altered after signing
            "until" => mk_data(e, until + 1000, b"kyc-ok"),  // expiry extended after signing
            _ => data_signed,
        };
        let scheme = match def {
            // stated scheme differs from the key's scheme
            "scheme" => SCHEMES[(SCHEMES.iter().position(|x| *x == key.scheme).unwrap() + 1) % 3],
            _ => key.scheme,
        };
        Made {
            scheme,
            sig_data: Bytes::from_slice(e, &sig_data),
            data,
            claim_topic: topic_no(&s_topic),
            claim_issuer: self.names.get(&s_issuer),
        }
    }

    /// obs.val[id][t][i]: does `id` expose under topic t a claim with topic t and issuer i that
    /// issuer i confirms?  Public getters and the issuer's public `is_claim_valid` only.
    fn slot(&self, id: &str, t: &str, i: &str) -> &'static str {
        let e = &self.e;
        let idc = IdentityClaimsClient::new(e, &self.names.get(id));
        let tn = topic_no(t);
        let ia = self.names.get(i);
        let cid = generate_claim_id(e, &ia, tn);
        let listed = match idc.try_get_claim_ids_by_topic(&tn) {
            Ok(Ok(ids)) => ids.contains(&cid),
            _ => false,
        };
        if !listed {
            return "absent";
        }
        let claim: Claim = match idc.try_get_claim(&cid) {
            Ok(Ok(c)) => c,
            _ => return "no",
        };
        if claim.topic != tn || claim.issuer != ia {
            return "no";
        }
        let r = ClaimIssuerClient::new(e, &ia).try_is_claim_valid(&self.names.get(id), &tn, &claim.scheme, &claim.signature, &claim.data);
        if matches!(r, Ok(Ok(_))) {
            "yes"
        } else {
            "no"
        }
    }

    fn obs(&self) -> Value {
        no_auth(&self.e);
        let vc = verifier::VerifierClient::new(&self.e, &self.names.get("verifier"));
        let mut ver = JMap::new();
        for a in ACCTS {
            let ok = res_of(&vc.try_verify_identity(&self.names.get(a))).0 == "ok";
            ver.insert(a.to_string(), json!(if ok { "yes" } else { "no" }));
        }
        let mut val = JMap::new();
        for id in IDS {
            let mut mt = JMap::new();
            for t in TOPICS {
                let mut mi = JMap::new();
                for i in ISSUERS {
                    mi.insert(i.to_string(), json!(self.slot(id, t, i)));
                }
                mt.insert(t.to_string(), Value::Object(mi));
            }
            val.insert(id.to_string(), Value::Object(mt));
        }
        json!({"ver": ver, "val": val})
    }
}

impl Sys {
    fn ts_vec(&self, op: &Value) -> SVec<u32> {
        let mut v = SVec::new(&self.e);
        for t in strs(op, "ts") {
            v.push_back(topic_no(&t));
        }
        v
    }

    fn step(&mut self, op: &Value) -> Value {
        use soroban_sdk::testutils::Ledger as _;
        let e = self.e.clone();
        let dt = n(op, "dt");
        e.ledger().with_mut(|l| l.timestamp += dt as u64);
        no_auth(&e);
        let kind = s(op, "op");
        let ra = ClaimTopicsAndIssuersClient::new(&e, &self.names.get("A"));
        let opr = self.op_addr.clone();
        let (res, code) = match kind {
            "add_topic" => res_of(&ra.try_add_claim_topic(&topic_no(s(op, "t")), &opr)),
            "rm_topic" => res_of(&ra.try_remove_claim_topic(&topic_no(s(op, "t")), &opr)),
            "add_issuer" => res_of(&ra.try_add_trusted_issuer(&self.names.get(s(op, "i")), &self.ts_vec(op), &opr)),
            "rm_issuer" => res_of(&ra.try_remove_trusted_issuer(&self.names.get(s(op, "i")), &opr)),
            "upd_issuer" => res_of(&ra.try_update_issuer_claim_topics(&self.names.get(s(op, "i")), &self.ts_vec(op), &opr)),
            "allow_key" | "remove_key" => {
                let ic = issuer::IssuerClient::new(&e, &self.names.get(s(op, "i")));
                let km = self.key(s(op, "k"));
                let pk = Bytes::from_slice(&e, &km.public);
                let reg = self.names.get(s(op, "reg"));
                let tn = topic_no(s(op, "t"));
                if kind == "allow_key" {
                    res_of(&ic.try_allow_key(&pk, &reg, &km.scheme, &tn))
                } else {
                    res_of(&ic.try_remove_key(&pk, &reg, &km.scheme, &tn))
                }
            }
            "revoke" | "unrevoke" => {
                let ic = issuer::IssuerClient::new(&e, &self.names.get(s(op, "i")));
                let data = mk_data(&e, n(op, "until"), b"kyc-ok");
                res_of(&ic.try_set_claim_revoked(&self.names.get(s(op, "id")), &topic_no(s(op, "t")), &data, &(kind == "revoke")))
            }
            "bump" => {
                let ic = issuer::IssuerClient::new(&e, &self.names.get(s(op, "i")));
                res_of(&ic.try_invalidate_claim_signatures(&self.names.get(s(op, "id")), &topic_no(s(op, "t"))))
            }
            "add_claim" => {
                let (id, t, i) = (s(op, "id"), s(op, "t"), s(op, "i"));
                let m = self.make_claim(i, id, t, s(op, "k"), s(op, "def"), n(op, "until"));
                let uri = SStr::from_str(&e, "");
                if id == "ida" {
                    assert!(!s(op, "def").starts_with("slot_"), "slot corruptions need an identity that stores anything");
                    let c = IdentityClaimsClient::new(&e, &self.names.get(id));
                    res_of(&c.try_add_claim(&m.claim_topic, &m.scheme, &m.claim_issuer, &m.sig_data, &m.data, &uri))
                } else {
                    let c = rogue::RogueClient::new(&e, &self.names.get(id));
                    let claim = Claim { topic: m.claim_topic, scheme: m.scheme, issuer: m.claim_issuer, signature: m.sig_data, data: m.data, uri };
                    res_of(&c.try_put(&topic_no(t), &self.names.get(i), &claim))
                }
            }
            "rm_claim" => {
                let (id, t, i) = (s(op, "id"), s(op, "t"), s(op, "i"));
                if id == "ida" {
                    let cid: BytesN<32> = generate_claim_id(&e, &self.names.get(i), topic_no(t));
                    res_of(&ident::IdentityClient::new(&e, &self.names.get(id)).try_remove_claim(&cid))
                } else {
                    res_of(&rogue::RogueClient::new(&e, &self.names.get(id)).try_del(&topic_no(t), &self.names.get(i)))
                }
            }
            "tick" => ("ok", 0),
            k => panic!("op {k}"),
        };
        json!({"op": op, "now": self.now(), "res": res, "err": code, "obs": self.obs()})
    }

    fn reset_event(&self) -> Value {
        json!({"op": {"op": "reset", "presetk": self.presetk, "rot": self.rot, "verdict": self.verdict,
                      "ident": {"a": "ida", "b": "idb", "c": "none"}, "lib": ["ida"], "keys": self.keys0},
               "now": 0, "res": "ok", "err": 0, "obs": self.obs()})
    }
}

// ---------------------------------------------------------------------------------------------
// exec / drive
// ---------------------------------------------------------------------------------------------
const STATIC_DEFECTS: [&str; 12] = ["data", "until", "topic", "identity", "issuer", "network", "nonce", "scheme", "sigbyte", "forged",
    "swap_ii", "swap_tn"];

fn mkop(kind: &str, t: &str, i: &str, id: &str, k: &str, reg: &str, ts: Vec<String>, def: &str, until: i64, dt: i64) -> Value {
    json!({"op": kind, "t": t, "i": i, "id": id, "k": k, "reg": reg, "ts": ts, "def": def, "until": until, "dt": dt})
}

fn main() {
    match cli() {
        Mode::Exec { input, output } => {
            let mut t = Trace::create(&output);
            for b in read_behaviours(&input) {
                let mut sys = Sys::new(&b.cfg);
                t.reset(sys.reset_event());
                for op in &b.ops {
                    let ev = sys.step(op);
                    t.step(ev);
                }
            }
            t.finish();
        }
        Mode::Drive { seed, runs, len, output } => {
            let mut t = Trace::create(&output);
            let mut r = StdRng::seed_from_u64(seed);
            for run in 0..runs {
                let presetk: Vec<&str> = match r.gen_range(0..4) {
                    0 => vec![],
                    1 | 2 => vec!["k1"],
                    _ => vec!["k1", "k2", "k3"],
                };
                let verdict = if run % 4 == 3 { "i2" } else { "" };
                let mut sys = Sys::new(&json!({"rot": (run + seed as usize) % 3, "presetk": presetk, "verdict": verdict}));
                t.reset(sys.reset_event());
                // untils used so far per slot, so that revocations can aim at existing claims
                let mut untils: std::collections::BTreeMap<(String, String, String), i64> = Default::default();
                for step in 0..len {
                    let op = drive_op(&mut r, &sys, step, &mut untils);
                    let ev = sys.step(&op);
                    t.step(ev);
                }
            }
            t.finish();
        }
    }
}

/// One random call, biased by the current state (public getters) so that a good share succeeds:
/// registries are grown first, issuers mostly get keys for topics they hold, claims mostly aim at
/// trusted (topic, issuer) pairs, invalidations mostly aim at claims that exist.
fn drive_op(r: &mut StdRng, sys: &Sys, step: usize, untils: &mut std::collections::BTreeMap<(String, String, String), i64>) -> Value {
    let e = &sys.e;
    no_auth(e);
    let ra = ClaimTopicsAndIssuersClient::new(e, &sys.names.get("A"));
    let topics: Vec<&str> = TOPICS.iter().copied().filter(|t| ra.get_claim_topics().contains(topic_no(t))).collect();
    let trusted: Vec<&str> = ISSUERS.iter().copied().filter(|i| ra.is_trusted_issuer(&sys.names.get(i))).collect();
    let now = sys.now();
    let none = "none";
    let early = step < 6;
    let kinds: &[&str] = if early {
        &["add_topic", "add_topic", "add_issuer", "add_issuer", "allow_key", "allow_key", "add_claim", "upd_issuer"]
    } else {
        &["add_topic", "rm_topic", "add_issuer", "add_issuer", "rm_issuer", "upd_issuer", "upd_issuer", "allow_key",
          "allow_key", "remove_key", "add_claim", "add_claim", "add_claim", "add_claim", "add_claim", "rm_claim",
          "revoke", "unrevoke", "bump", "tick", "tick"]
    };
    let kind = *pick(r, kinds);
    let t = if !topics.is_empty() && r.gen_bool(0.7) { *pick(r, &topics) } else { *pick(r, &TOPICS) };
    // issuers currently trusted for t; keys the chosen issuer currently allows for t
    let for_t: Vec<&str> = if topics.contains(&t) {
        let l = ra.get_claim_topic_issuers(&topic_no(t));
        ISSUERS.iter().copied().filter(|i| l.contains(sys.names.get(i))).collect()
    } else {
        vec![]
    };
    let i = if !for_t.is_empty() && r.gen_bool(0.7) { *pick(r, &for_t) } else { *pick(r, &ISSUERS) };
    let id = *pick(r, &IDS);
    let ic = issuer::IssuerClient::new(e, &sys.names.get(i));
    let allowed: Vec<&str> = KEYS
        .iter()
        .copied()
        .filter(|k| {
            let km = sys.key(k);
            ic.is_key_allowed_for_topic(&Bytes::from_slice(e, &km.public), &km.scheme, &topic_no(t))
        })
        .collect();
    let k = if !allowed.is_empty() && r.gen_bool(0.7) { *pick(r, &allowed) } else { *pick(r, &KEYS) };
    match kind {
        "add_topic" | "rm_topic" => mkop(kind, t, none, none, none, none, vec![], none, 0, 0),
        "add_issuer" | "upd_issuer" => {
            let ts: Vec<String> = match r.gen_range(0..10) {
                0 => vec![],                                         // refused: empty
                1 => vec![t.to_string(), t.to_string()],             // refused: duplicate
                2 => subset(r, &TOPICS),                             // may name topics that do not exist
                _ => {
                    let mut v: Vec<String> = topics.iter().filter(|_| r.gen_bool(0.6)).map(|x| x.to_string()).collect();
                    if v.is_empty() && !topics.is_empty() {
                        v.push(pick(r, &topics).to_string());
                    }
                    if r.gen_bool(0.5) {
                        v.reverse();
                    }
                    v
                }
            };
            mkop(kind, none, i, none, none, none, ts, none, 0, 0)
        }
        "rm_issuer" => mkop(kind, none, if !trusted.is_empty() && r.gen_bool(0.8) { *pick(r, &trusted) } else { i }, none, none, none, vec![], none, 0, 0),
        "allow_key" | "remove_key" => {
            // one in four: the same key bytes under another scheme number
            let kk = if r.gen_ratio(1, 4) { format!("{k}s") } else { k.to_string() };
            mkop(kind, t, i, none, &kk, *pick(r, &["A", "A", "B"]), vec![], none, 0, 0)
        }
        "add_claim" => {
            let def = if r.gen_bool(0.6) {
                none
            } else if id == "idb" && r.gen_bool(0.25) {
                *pick(r, &["slot_topic", "slot_issuer"])
            } else {
                *pick(r, &STATIC_DEFECTS)
            };
            // (whatever an answering issuer is asked about, it confirms nothing)
            let def = if i == sys.verdict { "verdict" } else { def };
            // expiry: just ahead (so that ticks cross it), far ahead, exactly now, already past
            let until = if r.gen_ratio(1, 10) {
                // the ends of the u64 clock
                // (FAR + 1000 is FAR again: the defect "expiry extended after signing" would be none)
                *pick(r, &[ZERO_AT, ZERO_AT, ZERO_AT + 1, if def == "until" { ZERO_AT } else { FAR }])
            } else {
                (now + *pick(r, &[1i64, 1, 2, 3, 50, 50, 50, 0, -1])).max(0)
            };
            untils.insert((id.to_string(), t.to_string(), i.to_string()), until);
            mkop(kind, t, i, id, k, none, vec![], def, until, 0)
        }
        "rm_claim" | "bump" => mkop(kind, t, i, id, none, none, vec![], none, 0, 0),
        "revoke" | "unrevoke" => {
            let until = *untils.get(&(id.to_string(), t.to_string(), i.to_string())).unwrap_or(&(now + 50));
            mkop(kind, t, i, id, none, none, vec![], none, until, 0)
        }
        _ => mkop("tick", none, none, none, none, none, vec![], none, 0, *pick(r, &[1i64, 1, 2, 5])),
    }
}
