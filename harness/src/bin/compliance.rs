//! Binding of spec/Compliance.tla (beyond the listed properties, X05): hook dispatch of the modular RWA compliance
//! contract, packages/tokens/src/rwa/compliance/storage.rs over rwa/utils/token_binder/storage.rs.
//!
//! * `sut::ComplianceC` forwards 1:1 to the library functions.  No example in /repo wires the modular compliance
//!   (examples/rwa only mentions it in commented-out tests), and the library leaves operator checks to the
//!   integrator, so add / remove / bind / unbind are unauthenticated here.
//! * `module::ScriptedModule` implements the library's `ComplianceModule` trait: it answers can_transfer /
//!   can_create by a settable rule over the arguments it RECEIVES, traps in the functions of a settable bit set,
//!   and reports every call it gets (who, kind, arguments) to `recorder::Recorder`.  The recorder's log, drained
//!   after every judged call, is `obs.notes` (one global sequence, so that the order of consultation is visible).
//! * tokens are plain addresses signing the root invocation (`token.require_auth()` sees the root call).
//!
//! Amounts are logged as small model numbers: see `amount_of` / `units_of`.
#![allow(dead_code)]
use soroban_sdk::{Address, Env, Symbol};
use stellar_tokens::rwa::compliance::ComplianceHook;
use verif_harness::*;

mod recorder {
    use soroban_sdk::{contract, contractimpl, contracttype, symbol_short, Address, Env, Symbol, Vec};

    #[contracttype]
    #[derive(Clone, Debug)]
    pub struct Note {
        pub who: Address,
        pub kind: Symbol,
        pub from: Option<Address>,
        pub to: Option<Address>,
        pub amount: i128,
        pub token: Address,
    }

    const LOG: Symbol = symbol_short!("log");

    #[contract]
    pub struct Recorder;

    #[contractimpl]
    impl Recorder {
        pub fn record(e: &Env, note: Note) {
            let mut l: Vec<Note> = e.storage().instance().get(&LOG).unwrap_or(Vec::new(e));
            l.push_back(note);
            e.storage().instance().set(&LOG, &l);
        }

        pub fn take(e: &Env) -> Vec<Note> {
            let l: Vec<Note> = e.storage().instance().get(&LOG).unwrap_or(Vec::new(e));
            e.storage().instance().set(&LOG, &Vec::<Note>::new(e));
            l
        }
    }
}

mod module {
    use super::recorder::{Note, RecorderClient};
    use soroban_sdk::{contract, contractimpl, contracttype, symbol_short, Address, Env, String, Symbol};
    use stellar_tokens::rwa::compliance::ComplianceModule;

    /// A rule denies what it matches: k = all (deny nothing) | none (deny everything) | from | to | tok (deny when
    /// that argument is `a`) | amt (deny amount == n) | lt (deny amount < n).
    #[contracttype]
    #[derive(Clone, Debug)]
    pub struct Rule {
        pub k: Symbol,
        pub a: Address,
        pub n: i128,
    }

    const REC: Symbol = symbol_short!("rec");
    const TRAP: Symbol = symbol_short!("trap");
    const CT: Symbol = symbol_short!("ct");
    const CC: Symbol = symbol_short!("cc");
    pub const B_ON_TRANSFER: u32 = 1;
    pub const B_ON_CREATED: u32 = 2;
    pub const B_ON_DESTROYED: u32 = 4;
    pub const B_CAN_TRANSFER: u32 = 8;
    pub const B_CAN_CREATE: u32 = 16;

    fn called(e: &Env, bit: u32, kind: &str, from: Option<Address>, to: Option<Address>, amount: i128, token: Address) {
        let t: u32 = e.storage().instance().get(&TRAP).unwrap_or(0);
        if t & bit != 0 {
            panic!("scripted module traps");
        }
        let rec: Address = e.storage().instance().get(&REC).expect("recorder");
        let note = Note { who: e.current_contract_address(), kind: Symbol::new(e, kind), from, to, amount, token };
        RecorderClient::new(e, &rec).record(&note);
    }

    fn answer(e: &Env, key: &Symbol, from: Option<&Address>, to: &Address, amount: i128, token: &Address) -> bool {
        let r: Option<Rule> = e.storage().instance().get(key);
        let Some(r) = r else { return true };
        let is = |s: &str| r.k == Symbol::new(e, s);
        if is("none") {
            false
        } else if is("from") {
            from != Some(&r.a)
        } else if is("to") {
            *to != r.a
        } else if is("tok") {
            *token != r.a
        } else if is("amt") {
            amount != r.n
        } else if is("lt") {
            amount >= r.n
        } else {
            true
        }
    }

    #[contract]
    pub struct ScriptedModule;

    #[contractimpl]
    impl ScriptedModule {
        pub fn __constructor(e: &Env, recorder: Address) {
            e.storage().instance().set(&REC, &recorder);
        }

        pub fn set_rule(e: &Env, for_create: bool, rule: Rule) {
            let key = if for_create { CC } else { CT };
            e.storage().instance().set(&key, &rule);
        }

        pub fn set_trap(e: &Env, bits: u32) {
            e.storage().instance().set(&TRAP, &bits);
        }
    }

    #[contractimpl]
    impl ComplianceModule for ScriptedModule {
        fn on_transfer(e: &Env, from: Address, to: Address, amount: i128, token: Address) {
            called(e, B_ON_TRANSFER, "on_transfer", Some(from), Some(to), amount, token);
        }

        fn on_created(e: &Env, to: Address, amount: i128, token: Address) {
            called(e, B_ON_CREATED, "on_created", None, Some(to), amount, token);
        }

        fn on_destroyed(e: &Env, from: Address, amount: i128, token: Address) {
            called(e, B_ON_DESTROYED, "on_destroyed", Some(from), None, amount, token);
        }

        fn can_transfer(e: &Env, from: Address, to: Address, amount: i128, token: Address) -> bool {
            called(e, B_CAN_TRANSFER, "can_transfer", Some(from.clone()), Some(to.clone()), amount, token.clone());
            answer(e, &CT, Some(&from), &to, amount, &token)
        }

        fn can_create(e: &Env, to: Address, amount: i128, token: Address) -> bool {
            called(e, B_CAN_CREATE, "can_create", None, Some(to.clone()), amount, token.clone());
            answer(e, &CC, None, &to, amount, &token)
        }

        fn name(e: &Env) -> String {
            String::from_str(e, "scripted")
        }

        fn get_compliance_address(e: &Env) -> Address {
            e.current_contract_address()
        }

        fn set_compliance_address(_e: &Env, _compliance: Address) {}
    }
}

mod sut {
    use soroban_sdk::{contract, contractimpl, Address, Env, Vec};
    use stellar_tokens::rwa::{
        compliance::{storage as lib, ComplianceHook},
        utils::token_binder as binder,
    };

    #[contract]
    pub struct ComplianceC;

    #[contractimpl]
    impl ComplianceC {
        pub fn add_module_to(e: &Env, hook: ComplianceHook, module: Address) {
            lib::add_module_to(e, hook, module);
        }
        pub fn remove_module_from(e: &Env, hook: ComplianceHook, module: Address) {
            lib::remove_module_from(e, hook, module);
        }
        pub fn get_modules_for_hook(e: &Env, hook: ComplianceHook) -> Vec<Address> {
            lib::get_modules_for_hook(e, hook)
        }
        pub fn is_module_registered(e: &Env, hook: ComplianceHook, module: Address) -> bool {
            lib::is_module_registered(e, hook, module)
        }
        pub fn transferred(e: &Env, from: Address, to: Address, amount: i128, token: Address) {
            lib::transferred(e, from, to, amount, token);
        }
        pub fn created(e: &Env, to: Address, amount: i128, token: Address) {
            lib::created(e, to, amount, token);
        }
        pub fn destroyed(e: &Env, from: Address, amount: i128, token: Address) {
            lib::destroyed(e, from, amount, token);
        }
        pub fn can_transfer(e: &Env, from: Address, to: Address, amount: i128, token: Address) -> bool {
            lib::can_transfer(e, from, to, amount, token)
        }
        pub fn can_create(e: &Env, to: Address, amount: i128, token: Address) -> bool {
            lib::can_create(e, to, amount, token)
        }
        pub fn require_bound(e: &Env, token: Address) {
            lib::require_auth_from_bound_token(e, &token);
        }
        pub fn bind_token(e: &Env, token: Address) {
            binder::bind_token(e, &token);
        }
        pub fn unbind_token(e: &Env, token: Address) {
            binder::unbind_token(e, &token);
        }
        pub fn is_token_bound(e: &Env, token: Address) -> bool {
            binder::is_token_bound(e, &token)
        }
    }
}

const HOOKS: [&str; 5] = ["Transferred", "Created", "Destroyed", "CanTransfer", "CanCreate"];
const CORE: [&str; 5] = ["m1", "m2", "m3", "m4", "z"];
const TOKS: [&str; 3] = ["t1", "t2", "t3"];
const USERS: [&str; 3] = ["a", "b", "c"];
const NFILL: usize = 18;
const BAD: i64 = 777_777_777;

fn hook_of(name: &str) -> ComplianceHook {
    match name {
        "Transferred" => ComplianceHook::Transferred,
        "Created" => ComplianceHook::Created,
        "Destroyed" => ComplianceHook::Destroyed,
        "CanTransfer" => ComplianceHook::CanTransfer,
        "CanCreate" => ComplianceHook::CanCreate,
        h => panic!("hook {h}"),
    }
}

fn hook_of_op(op: &str) -> &'static str {
    match op {
        "transferred" => "Transferred",
        "created" => "Created",
        "destroyed" => "Destroyed",
        "can_transfer" => "CanTransfer",
        "can_create" => "CanCreate",
        o => panic!("no hook for {o}"),
    }
}

/// model number -> i128: small numbers verbatim, a few constants for the far ends of the range
fn amount_of(n: i64) -> i128 {
    match n {
        1_000_000 => i128::MAX,
        999_999 => i128::MAX - 1,
        500_000 => 1i128 << 64,
        -1_000_000 => i128::MIN,
        _ => n as i128,
    }
}

fn units_of(v: i128) -> i64 {
    if v == i128::MAX {
        1_000_000
    } else if v == i128::MAX - 1 {
        999_999
    } else if v == 1i128 << 64 {
        500_000
    } else if v == i128::MIN {
        -1_000_000
    } else if v.abs() < 400_000 {
        v as i64
    } else {
        BAD
    }
}

fn trap_bits(fns: &[String]) -> u32 {
    fns.iter()
        .map(|f| match f.as_str() {
            "on_transfer" => module::B_ON_TRANSFER,
            "on_created" => module::B_ON_CREATED,
            "on_destroyed" => module::B_ON_DESTROYED,
            "can_transfer" => module::B_CAN_TRANSFER,
            "can_create" => module::B_CAN_CREATE,
            f => panic!("trap fn {f}"),
        })
        .fold(0, |a, b| a | b)
}

struct Sys {
    e: Env,
    names: Names,
    c: Address,
    rec: Address,
    fill: bool,
    mset: Vec<String>,
}

impl Sys {
    /// cfg: {fill: bool} — whether the 18 filler modules f01..f18 exist (needed to reach MAX_MODULES = 20)
    fn new(cfg: &Value) -> Sys {
        let fill = cfg.get("fill").and_then(|v| v.as_bool()).unwrap_or(false);
        let e = new_env(&LedgerCfg::default());
        let mut names = Names::new(&e, &["a", "b", "c", "t1", "t2", "t3", "z"]);
        let rec = e.register(recorder::Recorder, ());
        let c = e.register(sut::ComplianceC, ());
        let mut mset: Vec<String> = vec![];
        for m in ["m1", "m2", "m3", "m4"] {
            names.insert(m, e.register(module::ScriptedModule, (rec.clone(),)));
            mset.push(m.to_string());
        }
        mset.push("z".to_string());
        if fill {
            for i in 1..=NFILL {
                let n = format!("f{i:02}");
                names.insert(&n, e.register(module::ScriptedModule, (rec.clone(),)));
                mset.push(n);
            }
        }
        Sys { e, names, c, rec, fill, mset }
    }

    fn opt(&self, a: &Option<Address>) -> String {
        match a {
            Some(a) => self.names.name_of(a),
            None => String::new(),
        }
    }

    fn obs(&self) -> Value {
        no_auth(&self.e);
        let cl = sut::ComplianceCClient::new(&self.e, &self.c);
        let mut mods = JMap::new();
        let mut reg = JMap::new();
        for h in HOOKS {
            let l: Vec<String> = match cl.try_get_modules_for_hook(&hook_of(h)) {
                Ok(Ok(v)) => v.iter().map(|a| self.names.name_of(&a)).collect(),
                _ => vec!["?".to_string()],
            };
            mods.insert(h.to_string(), json!(l));
            let r: Vec<&str> = CORE
                .iter()
                .copied()
                .filter(|m| matches!(cl.try_is_module_registered(&hook_of(h), &self.names.get(m)), Ok(Ok(true))))
                .collect();
            reg.insert(h.to_string(), json!(r));
        }
        let bound: Vec<&str> =
            TOKS.iter().copied().filter(|t| matches!(cl.try_is_token_bound(&self.names.get(t)), Ok(Ok(true)))).collect();
        let notes: Vec<Value> = recorder::RecorderClient::new(&self.e, &self.rec)
            .take()
            .iter()
            .map(|x| {
                json!({"m": self.names.name_of(&x.who), "kind": x.kind.to_string(), "from": self.opt(&x.from),
                       "to": self.opt(&x.to), "amt": units_of(x.amount), "tok": self.names.name_of(&x.token)})
            })
            .collect();
        json!({"mods": mods, "reg": reg, "bound": bound, "notes": notes})
    }

    fn addr(&self, op: &Value, k: &str, dflt: &str) -> Address {
        let n = s(op, k);
        self.names.get(if n.is_empty() { dflt } else { n })
    }

    fn step(&mut self, op: &Value) -> Value {
        let e = self.e.clone();
        let e = &e;
        let cl = sut::ComplianceCClient::new(e, &self.c);
        let name = s(op, "op");
        no_auth(e);
        let mut ret = false;
        let r: (&'static str, i64) = match name {
            "add" => res_of(&cl.try_add_module_to(&hook_of(s(op, "hook")), &self.names.get(s(op, "m")))),
            "remove" => res_of(&cl.try_remove_module_from(&hook_of(s(op, "hook")), &self.names.get(s(op, "m")))),
            "bind" => res_of(&cl.try_bind_token(&self.names.get(s(op, "tok")))),
            "unbind" => res_of(&cl.try_unbind_token(&self.names.get(s(op, "tok")))),
            "rule" => {
                // scripting a module is set-up, not code under test
                let rule = module::Rule { k: Symbol::new(e, s(op, "k")), a: self.addr(op, "a", "c"), n: amount_of(n(op, "n")) };
                module::ScriptedModuleClient::new(e, &self.names.get(s(op, "m"))).set_rule(&(s(op, "fn") == "cc"), &rule);
                ("ok", 0)
            }
            "trap" => {
                module::ScriptedModuleClient::new(e, &self.names.get(s(op, "m"))).set_trap(&trap_bits(&strs(op, "fns")));
                ("ok", 0)
            }
            _ => {
                let who = auth_addrs(op, &self.names);
                let ax = op.get("ax").and_then(|v| v.as_bool()).expect("ax");
                let amt = amount_of(n(op, "amt"));
                // a signature for other arguments: the same call with another amount
                let signed = if ax { amt } else { amt.wrapping_add(1) };
                let tok = self.names.get(s(op, "tok"));
                let (from, to) = (self.addr(op, "from", "c"), self.addr(op, "to", "c"));
                let inv = |a| Inv::new(&self.c, if name == "require" { "require_bound" } else { name }, a);
                match name {
                    "transferred" | "can_transfer" => {
                        set_auth_same(e, &who, &inv(args(e, (from.clone(), to.clone(), signed, tok.clone()))));
                        if name == "transferred" {
                            res_of(&cl.try_transferred(&from, &to, &amt, &tok))
                        } else {
                            let x = cl.try_can_transfer(&from, &to, &amt, &tok);
                            ret = matches!(x, Ok(Ok(true)));
                            res_of(&x)
                        }
                    }
                    "created" | "can_create" => {
                        set_auth_same(e, &who, &inv(args(e, (to.clone(), signed, tok.clone()))));
                        if name == "created" {
                            res_of(&cl.try_created(&to, &amt, &tok))
                        } else {
                            let x = cl.try_can_create(&to, &amt, &tok);
                            ret = matches!(x, Ok(Ok(true)));
                            res_of(&x)
                        }
                    }
                    "destroyed" => {
                        set_auth_same(e, &who, &inv(args(e, (from.clone(), signed, tok.clone()))));
                        res_of(&cl.try_destroyed(&from, &amt, &tok))
                    }
                    "require" => {
                        // one argument only: a signature "for other arguments" names another token
                        let signed_tok = if ax { tok.clone() } else { self.names.get("c") };
                        set_auth_same(e, &who, &inv(args(e, (signed_tok,))));
                        res_of(&cl.try_require_bound(&tok))
                    }
                    o => panic!("op {o}"),
                }
            }
        };
        json!({"op": op, "res": r.0, "err": r.1, "ret": ret, "obs": self.obs()})
    }

    fn reset_event(&self) -> Value {
        json!({"op": {"op": "reset", "fill": self.fill, "mset": self.mset, "core": CORE, "toks": TOKS, "inert": ["z"]},
               "res": "ok", "err": 0, "ret": false, "obs": self.obs()})
    }
}

fn base(op: &str) -> Value {
    json!({"op": op, "hook": "", "m": "", "tok": "", "from": "", "to": "", "amt": 0, "auth": [], "ax": true,
           "fn": "", "k": "", "a": "", "n": 0, "fns": []})
}

fn names_in(obs: &Value, path: &[&str]) -> Vec<String> {
    let mut v = obs;
    for p in path {
        v = &v[*p];
    }
    v.as_array().map(|a| a.iter().map(|x| x.as_str().unwrap().to_string()).collect()).unwrap_or_default()
}

const AMOUNTS: [i64; 14] = [0, 0, 1, 1, 2, 2, 7, 100, 399_999, 500_000, 999_999, 1_000_000, -1, -1_000_000];

/// one random call, biased by the current state (module lists, bound tokens) so that a good share succeeds
fn random_op(r: &mut StdRng, obs: &Value, fill: bool) -> Value {
    // the filler modules (when they exist) are scripted now and then, too
    let filler = format!("f{:02}", r.gen_range(1..=NFILL));
    let scripted: Vec<&str> =
        if fill && r.gen_bool(0.3) { vec![filler.as_str()] } else { vec!["m1", "m2", "m3", "m4"] };
    let x = r.gen_range(0..100);
    if x < 20 {
        // register: mostly a module that is not yet there, sometimes a duplicate
        let h = *pick(r, &HOOKS);
        let cur = names_in(obs, &["mods", h]);
        let absent: Vec<&str> = CORE.iter().copied().filter(|m| !cur.iter().any(|c| c == m) && (*m != "z" || r.gen_bool(0.08))).collect();
        let m = if !absent.is_empty() && r.gen_bool(0.85) { *pick(r, &absent) } else { *pick(r, &CORE) };
        let mut o = base("add");
        o["hook"] = json!(h);
        o["m"] = json!(m);
        o
    } else if x < 30 {
        let full: Vec<&str> = HOOKS.iter().copied().filter(|h| !names_in(obs, &["mods", h]).is_empty()).collect();
        let h = if !full.is_empty() && r.gen_bool(0.8) { *pick(r, &full) } else { *pick(r, &HOOKS) };
        let cur = names_in(obs, &["mods", h]);
        let m = if cur.iter().any(|c| c == "z") && r.gen_bool(0.5) { "z".to_string() } else if !cur.is_empty() && r.gen_bool(0.8) { pick(r, &cur).clone() } else { pick(r, &CORE).to_string() };
        let mut o = base("remove");
        o["hook"] = json!(h);
        o["m"] = json!(m);
        o
    } else if x < 38 {
        let bound = names_in(obs, &["bound"]);
        let t = *pick(r, &TOKS);
        let is = bound.iter().any(|b| b == t);
        // mostly the call that works, and more binding than unbinding
        let op = if r.gen_bool(0.85) { if is { "unbind" } else { "bind" } } else if is { "bind" } else { "unbind" };
        let mut o = base(if op == "unbind" && r.gen_bool(0.4) { "bind" } else { op });
        o["tok"] = json!(t);
        o
    } else if x < 47 {
        let mut o = base("rule");
        o["m"] = json!(*pick(r, &scripted));
        o["fn"] = json!(*pick(r, &["ct", "cc"]));
        let k = *pick(r, &["all", "all", "none", "none", "none", "from", "to", "tok", "amt", "amt", "lt", "lt"]);
        o["k"] = json!(k);
        match k {
            "from" | "to" => o["a"] = json!(*pick(r, &USERS)),
            "tok" => o["a"] = json!(*pick(r, &TOKS)),
            "amt" => o["n"] = json!(*pick(r, &[0i64, 1, 1, 2, 1_000_000, -1])),
            "lt" => o["n"] = json!(*pick(r, &[0i64, 1, 2, 8, 1_000_000])),
            _ => {}
        }
        o
    } else if x < 52 {
        let mut o = base("trap");
        o["m"] = json!(*pick(r, &scripted));
        let all = ["on_transfer", "on_created", "on_destroyed", "can_transfer", "can_create"];
        let fns: Vec<String> = match r.gen_range(0..10) {
            0..=5 => vec![],
            6..=7 => vec![pick(r, &all).to_string()],
            8 => subset(r, &all),
            _ => all.iter().map(|x| x.to_string()).collect(),
        };
        o["fns"] = json!(fns);
        o
    } else {
        let name = *pick(r, &["transferred", "created", "destroyed", "can_transfer", "can_create", "transferred",
                              "created", "destroyed", "can_transfer", "can_create", "require"]);
        let bound = names_in(obs, &["bound"]);
        let tok = if !bound.is_empty() && r.gen_bool(0.85) { pick(r, &bound).clone() } else { pick(r, &TOKS).to_string() };
        let mut o = base(name);
        o["tok"] = json!(tok);
        if matches!(name, "transferred" | "destroyed" | "can_transfer") {
            o["from"] = json!(*pick(r, &USERS));
        }
        if matches!(name, "transferred" | "created" | "can_transfer" | "can_create") {
            o["to"] = json!(*pick(r, &USERS));
        }
        if name != "require" {
            o["amt"] = json!(*pick(r, &AMOUNTS));
        }
        let mut auth: Vec<String> = match r.gen_range(0..24) {
            0..=17 => vec![tok.clone()],
            18 => vec![],
            19 => vec![pick(r, &TOKS).to_string()],
            20 => vec![pick(r, &USERS).to_string()],
            21 => TOKS.iter().map(|t| t.to_string()).filter(|t| *t != tok).collect(),
            _ => subset(r, &["a", "b", "c", "t1", "t2", "t3"]),
        };
        if matches!(name, "can_transfer" | "can_create") && r.gen_bool(0.6) {
            auth.clear();
        }
        auth.sort();
        auth.dedup();
        o["auth"] = json!(auth);
        o["ax"] = json!(!r.gen_ratio(1, 20));
        o
    }
}

fn main() {
    match cli() {
        Mode::Exec { input, output } => {
            let mut t = Trace::create(&output);
            for b in read_behaviours(&input) {
                let mut sys = Sys::new(&b.cfg);
                t.reset(sys.reset_event());
                for op in &b.ops {
                    let ev = sys.step(op);
                    t.step(ev);
                }
            }
            t.finish();
        }
        Mode::Drive { seed, runs, len, output } => {
            let mut t = Trace::create(&output);
            let mut r = StdRng::seed_from_u64(seed);
            for _ in 0..runs {
                let fill = r.gen_ratio(1, 6);
                let mut sys = Sys::new(&json!({"fill": fill}));
                let first = sys.reset_event();
                let mut obs = first["obs"].clone();
                t.reset(first);
                // prologue: script some of the modules and bind a token or two (ordinary judged steps)
                let mut pro: Vec<Value> = vec![];
                for t in TOKS {
                    if r.gen_bool(0.6) {
                        let mut o = base("bind");
                        o["tok"] = json!(t);
                        pro.push(o);
                    }
                }
                for _ in 0..r.gen_range(0..6) {
                    let mut o = random_op(&mut r, &obs, fill);
                    while s(&o, "op") != "rule" {
                        o = random_op(&mut r, &obs, fill);
                    }
                    pro.push(o);
                }
                for _ in 0..r.gen_range(2..10) {
                    let mut o = base("add");
                    o["hook"] = json!(*pick(&mut r, &HOOKS));
                    o["m"] = json!(*pick(&mut r, &["m1", "m2", "m3", "m4"]));
                    pro.push(o);
                }
                for o in &pro {
                    let ev = sys.step(o);
                    obs = ev["obs"].clone();
                    t.step(ev);
                }
                let burst_at = if fill { r.gen_range(0..len.max(1)) } else { usize::MAX };
                for i in 0..len {
                    if i == burst_at {
                        // fill one hook up to (and one past) MAX_MODULES with the filler modules
                        let h = *pick(&mut r, &HOOKS);
                        for k in 1..=NFILL {
                            time_passes(&sys.e, &mut r, 3000);
                            let mut o = base("add");
                            o["hook"] = json!(h);
                            o["m"] = json!(format!("f{k:02}"));
                            let ev = sys.step(&o);
                            obs = ev["obs"].clone();
                            t.step(ev);
                        }
                    }
                    time_passes(&sys.e, &mut r, 3000);
                    time_passes_long(&sys.e, &mut r);
                    let op = random_op(&mut r, &obs, fill);
                    let ev = sys.step(&op);
                    obs = ev["obs"].clone();
                    t.step(ev);
                }
            }
            t.finish();
        }
    }
}
