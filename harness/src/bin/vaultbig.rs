//! Binding of spec/VaultBig.tla: the fungible-vault example at real magnitudes (offsets 0..=10,
//! amounts up to ~10^30, products beyond i128).  Numbers are logged as sign + limbs (base 2^15).
#![allow(dead_code)]
use soroban_sdk::{Address, Env, String as SStr};
use stellar_tokens::{fungible::FungibleToken as _, vault::FungibleVault as _};
use verif_harness::*;

#[path = "/repo/examples/fungible-vault/src/contract.rs"]
mod vault;

mod asset {
    use soroban_sdk::{contract, contractimpl, Address, Env, MuxedAddress, String};
    use stellar_tokens::fungible::{Base, FungibleToken};

    #[contract]
    pub struct AssetToken;

    #[contractimpl]
    impl AssetToken {
        pub fn __constructor(e: &Env) {
            Base::set_metadata(e, 7, String::from_str(e, "A"), String::from_str(e, "A"));
        }
        pub fn mint(e: &Env, to: Address, amount: i128) {
            Base::mint(e, &to, amount);
        }
    }

    #[contractimpl(contracttrait)]
    impl FungibleToken for AssetToken {
        type ContractType = Base;
    }
}

const UNTIL: u32 = 90_000;   // far beyond any run, time_passes() included

fn limbs(v: i128) -> Value {
    let mut m = Vec::new();
    let mut u = v.unsigned_abs();
    while u > 0 {
        m.push((u & 0x7fff) as u32);
        u >>= 15;
    }
    json!({"n": if v < 0 { 1 } else { 0 }, "m": m})
}

struct Sys {
    e: Env,
    names: Names,
    accts: Vec<String>,
    v: Address,
    a: Address,
    off: u32,
}

impl Sys {
    fn new(users: &[&str], off: u32, funds: &[i128]) -> Sys {
        let e = new_env(&LedgerCfg { seq: 10, min_temp: 16, min_persistent: 1_000_000, max_ttl: 100_000 });
        let mut names = Names::new(&e, users);
        let a = e.register(asset::AssetToken, ());
        let nm = SStr::from_str(&e, "V");
        let v = e.register(vault::ExampleContract, (nm.clone(), nm.clone(), a.clone(), off));
        names.insert("v", v.clone());
        let mut accts: Vec<String> = users.iter().map(|s| s.to_string()).collect();
        accts.push("v".into());
        let sys = Sys { e, names, accts, v, a, off };
        for (u, f) in users.iter().zip(funds) {
            asset::AssetTokenClient::new(&sys.e, &sys.a).mint(&sys.names.get(u), f);
        }
        sys
    }

    fn raw(&self) -> (Vec<i128>, Vec<i128>, i128) {
        no_auth(&self.e);
        let ac = asset::AssetTokenClient::new(&self.e, &self.a);
        let vc = vault::ExampleContractClient::new(&self.e, &self.v);
        let a: Vec<i128> = self.accts.iter().map(|x| ac.balance(&self.names.get(x))).collect();
        let s: Vec<i128> = self.accts.iter().map(|x| vc.balance(&self.names.get(x))).collect();
        (a, s, vc.total_supply())
    }

    fn obs(&self) -> Value {
        let (a, s, sup) = self.raw();
        let (mut asset, mut sh) = (JMap::new(), JMap::new());
        for (i, x) in self.accts.iter().enumerate() {
            asset.insert(x.clone(), limbs(a[i]));
            sh.insert(x.clone(), limbs(s[i]));
        }
        json!({"A": limbs(*a.last().unwrap()), "S": limbs(sup), "asset": asset, "sh": sh})
    }

    fn step(&mut self, op: &Value) -> Value {
        let e = self.e.clone();
        let e = &e;
        let kind = s(op, "op");
        let who = auth_addrs(op, &self.names);
        let x: i128 = s(op, "x").parse().expect("x decimal");
        let nm = |k: &str| -> Address { self.names.get(s(op, k)) };
        let vc = vault::ExampleContractClient::new(e, &self.v);
        let ac = asset::AssetTokenClient::new(e, &self.a);
        no_auth(e);
        let pv: Option<i128> = match kind {
            "deposit" => vc.try_preview_deposit(&x).ok().and_then(|r| r.ok()),
            "mint" => vc.try_preview_mint(&x).ok().and_then(|r| r.ok()),
            "withdraw" => vc.try_preview_withdraw(&x).ok().and_then(|r| r.ok()),
            "redeem" => vc.try_preview_redeem(&x).ok().and_then(|r| r.ok()),
            _ => None,
        };
        let mut ret: Option<i128> = None;
        let r: (&'static str, i64) = match kind {
            "deposit" | "mint" => {
                let (recv, own, oper) = (nm("recv"), nm("own"), nm("oper"));
                let assets: i128 = if kind == "deposit" { x } else { pv.unwrap_or(0) };
                let mut trees: Vec<(Address, Inv)> = Vec::new();
                for w in &who {
                    for delta in [0i128, -1, 1] {
                        let Some(amt) = assets.checked_add(delta) else { continue };
                        if amt < 0 {
                            continue;
                        }
                        let sub = if oper == own {
                            Inv::new(&self.a, "transfer", args(e, (own.clone(), self.v.clone(), amt)))
                        } else {
                            Inv::new(&self.a, "transfer_from", args(e, (oper.clone(), own.clone(), self.v.clone(), amt)))
                        };
                        trees.push((w.clone(), Inv::new(&self.v, kind, args(e, (x, recv.clone(), own.clone(), oper.clone()))).with_subs(vec![sub])));
                    }
                }
                // "blanket" (see the Vault harness): the signer signs whatever the entry turns out to pull
                if op.get("blanket").and_then(|v| v.as_bool()).unwrap_or(false) && who.contains(&oper) {
                    e.mock_all_auths_allowing_non_root_auth();
                } else {
                    set_auths(e, &trees);
                }
                let rr = if kind == "deposit" { vc.try_deposit(&x, &recv, &own, &oper) } else { vc.try_mint(&x, &recv, &own, &oper) };
                if let Ok(Ok(v)) = &rr { ret = Some(*v); }
                res_of(&rr)
            }
            "withdraw" | "redeem" => {
                let (recv, own, oper) = (nm("recv"), nm("own"), nm("oper"));
                set_auth_same(e, &who, &Inv::new(&self.v, kind, args(e, (x, recv.clone(), own.clone(), oper.clone()))));
                let rr = if kind == "withdraw" { vc.try_withdraw(&x, &recv, &own, &oper) } else { vc.try_redeem(&x, &recv, &own, &oper) };
                if let Ok(Ok(v)) = &rr { ret = Some(*v); }
                res_of(&rr)
            }
            "donate" => {
                let own = nm("own");
                set_auth_same(e, &who, &Inv::new(&self.a, "transfer", args(e, (own.clone(), self.v.clone(), x))));
                res_of(&ac.try_transfer(&own, &self.v, &x))
            }
            "sapprove" => {
                let (own, oper) = (nm("own"), nm("oper"));
                set_auth_same(e, &who, &Inv::new(&self.v, "approve", args(e, (own.clone(), oper.clone(), x, UNTIL))));
                res_of(&vc.try_approve(&own, &oper, &x, &UNTIL))
            }
            "aapprove" => {
                let (own, oper) = (nm("own"), nm("oper"));
                set_auth_same(e, &who, &Inv::new(&self.a, "approve", args(e, (own.clone(), oper.clone(), x, UNTIL))));
                res_of(&ac.try_approve(&own, &oper, &x, &UNTIL))
            }
            k => panic!("op {k}"),
        };
        json!({"op": op, "res": r.0, "err": r.1, "off": self.off, "x": limbs(x),
               "pvok": pv.is_some(), "pv": limbs(pv.unwrap_or(0)), "ret": limbs(ret.unwrap_or(0)), "obs": self.obs()})
    }

    fn reset_event(&self, funds: &[i128]) -> Value {
        let f: Vec<String> = funds.iter().map(|x| x.to_string()).collect();
        json!({"op": {"op": "reset", "off": self.off, "funds": f, "x": "0", "recv": "none", "own": "none", "oper": "none", "auth": []},
               "res": "ok", "err": 0, "off": self.off, "x": limbs(0), "pvok": false, "pv": limbs(0), "ret": limbs(0), "obs": self.obs()})
    }
}

/// log-uniform amount in 0..=cap with boundary bias
fn amount(r: &mut StdRng, cap: i128) -> i128 {
    match r.gen_range(0..12) {
        0 => 0,
        1 => 1,
        2 => cap,
        3 => cap.saturating_add(1),
        4 => cap / 2,
        5 => cap / 3 + 1,
        _ => {
            if cap <= 0 {
                return r.gen_range(0..3);
            }
            let bits = 128 - cap.leading_zeros();
            let b = r.gen_range(1..=bits);
            let v = (r.gen::<u128>() >> (128 - b)) as i128;
            v.min(cap).max(0)
        }
    }
}

fn main() {
    let users = ["a", "b", "c"];
    match cli() {
        Mode::Exec { input, output } => {
            let mut t = Trace::create(&output);
            for b in read_behaviours(&input) {
                let off = b.cfg.get("off").and_then(|v| v.as_u64()).unwrap_or(0) as u32;
                let funds: Vec<i128> = b.cfg.get("funds").and_then(|v| v.as_array())
                    .map(|a| a.iter().map(|x| x.as_str().unwrap().parse().unwrap()).collect()).unwrap_or(vec![1000, 1000, 0]);
                let mut sys = Sys::new(&users, off, &funds);
                t.reset(sys.reset_event(&funds));
                for op in &b.ops {
                    let ev = sys.step(op);
                    t.step(ev);
                }
            }
            t.finish();
        }
        Mode::Drive { seed, runs, len, output } => {
            let mut t = Trace::create(&output);
            let mut r = StdRng::seed_from_u64(seed);
            for run in 0..runs {
                let off = (run % 11) as u32;
                let scale: i128 = *pick(&mut r, &[1_000i128, 1_000_000_000, 10i128.pow(18), 10i128.pow(27), 10i128.pow(30), i128::MAX / 4]);
                let funds = vec![scale, scale / 3 + 7, scale / 1000];
                let mut sys = Sys::new(&users, off, &funds);
                t.reset(sys.reset_event(&funds));
                for _ in 0..len {
                    time_passes(&sys.e, &mut r, 700);
                    let (a, sbal, sup) = sys.raw();
                    let oi = r.gen_range(0..3usize);
                    let own = users[oi];
                    let oper = if r.gen_bool(0.8) { own } else { *pick(&mut r, &users) };
                    let recv = if r.gen_bool(0.6) { own } else { *pick(&mut r, &users) };
                    let p10 = 10i128.pow(off);
                    let kind = *pick(&mut r, &["deposit", "deposit", "mint", "mint", "withdraw", "withdraw", "redeem", "redeem", "donate", "sapprove", "aapprove"]);
                    let x = match kind {
                        "deposit" | "donate" | "aapprove" => amount(&mut r, a[oi]),
                        "mint" => amount(&mut r, a[oi].saturating_mul(p10)),
                        "withdraw" => amount(&mut r, sbal[oi] / p10 + 1),
                        _ => amount(&mut r, sbal[oi]),
                    };
                    // one call in five: the amount whose product with the conversion's multiplier sits right at the top of
                    // i128 (the last amounts the native multiplication can take, the first ones that need the wide path)
                    let x = if r.gen_bool(0.2) && matches!(kind, "deposit" | "withdraw" | "mint" | "redeem") {
                        let mult = match kind { "deposit" | "withdraw" => sup.saturating_add(p10), _ => a.last().unwrap().saturating_add(1) };
                        (i128::MAX / mult.max(1)).saturating_add(*pick(&mut r, &[-2i128, -1, 0, 0, 0, 1])).max(0)
                    } else {
                        x
                    };
                    let signer = match kind { "donate" | "sapprove" | "aapprove" => own, _ => oper };
                    let auth: Vec<String> = if r.gen_bool(0.92) { vec![signer.to_string()] } else { vec![] };
                    let blanket = matches!(kind, "deposit" | "mint") && r.gen_bool(0.5);
                    let op = json!({"op": kind, "x": x.to_string(), "recv": recv, "own": own, "oper": oper, "auth": auth, "blanket": blanket});
                    let ev = sys.step(&op);
                    t.step(ev);
                }
            }
            t.finish();
        }
    }
}
