//! Binding of spec/SmartAccount.tla (C03, context-rule registry part of C20): the real multisig
//! smart-account example, driven through its own entry points and through
//! `try_invoke_contract_check_auth` with crafted (payload, signatures, contexts).
//!
//! Collaborators (harness contracts):
//! * `ByteVerifier` — `verify` accepts iff the first signature byte is 1 and the hash is the payload
//!   of the running check; every call is logged;
//! * `LogPolicy` (p1..p6) — `can_enforce` accepts iff at least `k` authenticated signers are passed,
//!   `enforce` panics when the policy's `rf` flag is set; every call is logged with the rule id,
//!   the context and the authenticated signers it received.  The logs live on the Rust side
//!   (thread-local) so that the calls of a failing check stay visible; the *committed* enforcements
//!   are additionally counted in the policy's own storage (rolled back by the host on failure).
//! * delegated signers are instances of an always-yes custom account; such a signer "signs" a check iff a
//!   genuine authorization entry for `__check_auth(payload)` on the smart account is attached for it
//!   (`Env::set_auths`; nothing is mocked for a check);
//! * `Target` (c1..c3) — `ping(who, next)` requires `who`'s authorization and optionally calls the next
//!   target: the end-to-end op `e2e` invokes it with a genuine `SorobanAuthorizationEntry` for the smart
//!   account whose signature is the crafted `Signatures` map, so the host itself derives the contexts and
//!   the payload and runs the account's `__check_auth`.
//!
//! The management entry points (add/remove/update rule, signer, policy) require the account's own
//! authorization; it is granted by the test host's recording mode for exactly that call — they are set-up for
//! C03 and judged by the C20 registry monitors only (refusals, capacity, ids, getters), not for who may call them.
#![allow(dead_code)]
use std::{cell::RefCell, collections::BTreeMap};

use soroban_sdk::{
    auth::{
        Context, ContractContext, ContractExecutable, CreateContractHostFnContext,
        CreateContractWithConstructorHostFnContext,
    },
    contract, contractimpl, symbol_short,
    testutils::MockAuthInvoke,
    xdr::{
        Hash, HashIdPreimage, HashIdPreimageSorobanAuthorization, Limits, ScVal, SorobanAddressCredentials,
        SorobanAuthorizationEntry, SorobanCredentials, WriteXdr,
    },
    Address, Bytes, BytesN, Env, IntoVal, Map, String as SStr, Symbol, TryFromVal, Val, Vec as SVec,
};
use sha2::{Digest, Sha256};
use stellar_accounts::smart_account::{ContextRule, ContextRuleType, Signatures, Signer, SmartAccountError};
use verif_harness::*;

#[path = "/repo/examples/multisig-smart-account/account/src/contract.rs"]
mod multisig;
use multisig::{MultisigContract, MultisigContractClient};

const NOW0: u32 = 10;
const POLS: [&str; 6] = ["p1", "p2", "p3", "p4", "p5", "p6"];
const CALLS: [&str; 3] = ["c1", "c2", "c3"];
const WASMS: [&str; 2] = ["w1", "w2"];
const TYPES: [&str; 6] = ["D", "c1", "c2", "c3", "w1", "w2"];

// ---------------------------------------------------------------------------------------------
// the Rust-side world the collaborator contracts consult and log into
// ---------------------------------------------------------------------------------------------
#[derive(Default)]
struct World {
    verifier: Option<Address>,
    pols: BTreeMap<String, Address>,
    dels: BTreeMap<String, Address>,
    calls: BTreeMap<String, Address>,
    wasms: BTreeMap<String, BytesN<32>>,
    pcfg: BTreeMap<String, (u32, bool)>,
    payload: Option<Bytes>,
    ver: Vec<Value>,
    can: Vec<Value>,
    enf: Vec<Value>,
    in_call: bool,
}

thread_local! {
    static W: RefCell<World> = RefCell::new(World::default());
}

fn w<R>(f: impl FnOnce(&mut World) -> R) -> R {
    W.with(|c| f(&mut c.borrow_mut()))
}

fn bytes_to_string(b: &Bytes) -> String {
    let mut v = vec![0u8; b.len() as usize];
    b.copy_into_slice(&mut v);
    String::from_utf8_lossy(&v).to_string()
}

fn sstr_to_string(s: &SStr) -> String {
    let mut v = vec![0u8; s.len() as usize];
    s.copy_into_slice(&mut v);
    String::from_utf8_lossy(&v).to_string()
}

fn rev<T: PartialEq + Clone>(m: &BTreeMap<String, T>, x: &T) -> String {
    m.iter().find(|(_, v)| *v == x).map(|(k, _)| k.clone()).unwrap_or_else(|| "?".to_string())
}

fn signer_name(wd: &World, s: &Signer) -> String {
    match s {
        Signer::External(v, key) => {
            if Some(v) == wd.verifier.as_ref() {
                bytes_to_string(key)
            } else {
                "?".to_string()
            }
        }
        Signer::Delegated(a) => rev(&wd.dels, a),
    }
}

fn ct_name(wd: &World, ct: &ContextRuleType) -> String {
    match ct {
        ContextRuleType::Default => "D".to_string(),
        ContextRuleType::CallContract(a) => rev(&wd.calls, a),
        ContextRuleType::CreateContract(h) => rev(&wd.wasms, h),
    }
}

/// name of a context as the model writes it: c* call, w* create without, v* create with constructor
fn ctx_name(wd: &World, c: &Context) -> String {
    match c {
        Context::Contract(ContractContext { contract, .. }) => rev(&wd.calls, contract),
        Context::CreateContractHostFn(CreateContractHostFnContext { executable: ContractExecutable::Wasm(h), .. }) => {
            rev(&wd.wasms, h)
        }
        Context::CreateContractWithCtorHostFn(CreateContractWithConstructorHostFnContext {
            executable: ContractExecutable::Wasm(h),
            ..
        }) => rev(&wd.wasms, h).replacen('w', "v", 1),
    }
}

fn signer_names(wd: &World, v: &SVec<Signer>) -> Vec<String> {
    v.iter().map(|s| signer_name(wd, &s)).collect()
}

// ---------------------------------------------------------------------------------------------
// collaborator contracts
// ---------------------------------------------------------------------------------------------
#[contract]
pub struct ByteVerifier;

#[contractimpl]
impl ByteVerifier {
    pub fn verify(_e: Env, hash: Bytes, key_data: Bytes, sig_data: Bytes) -> bool {
        let name = bytes_to_string(&key_data);
        w(|wd| {
            let right_msg = wd.payload.as_ref() == Some(&hash);
            let ok = right_msg && sig_data.len() >= 1 && sig_data.get(0) == Some(1);
            wd.ver.push(json!({"s": name, "ok": ok}));
            ok
        })
    }
}

/// Custom account that accepts every authorization request made with an attached entry.
#[contract]
pub struct YesAccount;

#[contractimpl]
impl YesAccount {
    #[allow(non_snake_case)]
    pub fn __check_auth(_signature_payload: Val, _signatures: Val, _auth_context: Val) {}
}

/// Call target of the end-to-end op: needs `who`'s authorization, then optionally calls the next target.
#[contract]
pub struct Target;

#[contractimpl]
impl Target {
    pub fn ping(e: Env, who: Address, next: Option<Address>) {
        who.require_auth();
        if let Some(n) = next {
            TargetClient::new(&e, &n).ping(&who, &None);
        }
    }
}

const TRAP_K: u32 = 77;

#[contract]
pub struct LogPolicy;

fn policy_call(e: &Env, context: &Context, signers: &SVec<Signer>, rule: &ContextRule) -> (Value, u32, bool) {
    let me = e.current_contract_address();
    w(|wd| {
        let p = rev(&wd.pols, &me);
        let (k, rf) = wd.pcfg.get(&p).cloned().unwrap_or((0, false));
        let rec = json!({"p": p, "rule": rule.id, "ctx": ctx_name(wd, context), "sg": signer_names(wd, signers)});
        (rec, k, rf)
    })
}

#[contractimpl]
impl LogPolicy {
    pub fn can_enforce(
        e: Env,
        context: Context,
        authenticated_signers: soroban_sdk::Vec<Signer>,
        context_rule: ContextRule,
        _smart_account: Address,
    ) -> bool {
        let (mut rec, k, _) = policy_call(&e, &context, &authenticated_signers, &context_rule);
        let ok = authenticated_signers.len() >= k;
        rec["ok"] = json!(ok);
        w(|wd| wd.can.push(rec));
        if k == TRAP_K {
            // a policy that cannot make sense of the question (k = 77): it traps instead of answering
            panic!("enforce refuses");
        }
        ok
    }

    pub fn enforce(
        e: Env,
        context: Context,
        authenticated_signers: soroban_sdk::Vec<Signer>,
        context_rule: ContextRule,
        _smart_account: Address,
    ) {
        let (mut rec, _, rf) = policy_call(&e, &context, &authenticated_signers, &context_rule);
        rec["ok"] = json!(!rf);
        w(|wd| wd.enf.push(rec));
        if rf {
            panic!("enforce refuses");
        }
        let n: u32 = e.storage().persistent().get(&symbol_short!("enforced")).unwrap_or(0);
        e.storage().persistent().set(&symbol_short!("enforced"), &(n + 1));
    }

    pub fn install(_e: Env, _install_params: Val, _context_rule: ContextRule, _smart_account: Address) {}

    pub fn uninstall(_e: Env, _context_rule: ContextRule, _smart_account: Address) {}

    pub fn enforced(e: Env) -> u32 {
        e.storage().persistent().get(&symbol_short!("enforced")).unwrap_or(0)
    }
}

// ---------------------------------------------------------------------------------------------
// the system under test
// ---------------------------------------------------------------------------------------------
struct Sys {
    e: Env,
    account: Option<Address>,
    verifier: Address,
    probe: u32,
    nonce: u8,
    auth_nonce: i64,
}

fn arr(op: &Value, k: &str) -> Vec<String> {
    match op.get(k) {
        Some(Value::Array(a)) => a.iter().map(|x| x.as_str().expect("string").to_string()).collect(),
        _ => vec![],
    }
}
fn st<'a>(op: &'a Value, k: &str) -> &'a str {
    op.get(k).and_then(|v| v.as_str()).unwrap_or("")
}
fn num(op: &Value, k: &str) -> i64 {
    op.get(k).and_then(|v| v.as_i64()).unwrap_or(-1)
}

impl Sys {
    fn new() -> Sys {
        let e = new_env(&LedgerCfg { seq: NOW0, ..Default::default() });
        let verifier = e.register(ByteVerifier, ());
        let mut wd = World { verifier: Some(verifier.clone()), ..Default::default() };
        for p in POLS {
            wd.pols.insert(p.to_string(), e.register(LogPolicy, ()));
            wd.pcfg.insert(p.to_string(), (0, false));
        }
        for c in CALLS {
            wd.calls.insert(c.to_string(), e.register(Target, ()));
        }
        for (i, h) in WASMS.iter().enumerate() {
            wd.wasms.insert(h.to_string(), BytesN::from_array(&e, &[i as u8 + 1; 32]));
        }
        W.with(|c| *c.borrow_mut() = wd);
        Sys { e, account: None, verifier, probe: 2, nonce: 0, auth_nonce: 0 }
    }

    fn signer(&self, name: &str) -> Signer {
        if name.starts_with('d') {
            let a = w(|wd| wd.dels.get(name).cloned());
            let a = a.unwrap_or_else(|| {
                let a = self.e.register(YesAccount, ());
                w(|wd| wd.dels.insert(name.to_string(), a.clone()));
                a
            });
            Signer::Delegated(a)
        } else {
            Signer::External(self.verifier.clone(), Bytes::from_slice(&self.e, name.as_bytes()))
        }
    }

    /// a genuine authorization entry by which `addr` authorizes exactly the invocation tree `root`
    fn entry(&mut self, addr: &Address, signature: ScVal, root: &MockAuthInvoke) -> SorobanAuthorizationEntry {
        self.auth_nonce += 1;
        SorobanAuthorizationEntry {
            root_invocation: root.into(),
            credentials: SorobanCredentials::Address(SorobanAddressCredentials {
                address: addr.try_into().unwrap(),
                nonce: self.auth_nonce,
                signature_expiration_ledger: seq(&self.e) + 1000,
                signature,
            }),
        }
    }

    /// the signature map of a check and the delegated signers that really authorize it
    fn signatures(&self, op: &Value) -> (Map<Signer, Bytes>, Vec<Address>) {
        let e = &self.e;
        let bad = arr(op, "bad");
        let mut m: Map<Signer, Bytes> = Map::new(e);
        let mut dels = Vec::new();
        for n in arr(op, "sigs") {
            let sg = self.signer(&n);
            let valid = !bad.contains(&n);
            match &sg {
                Signer::Delegated(a) => {
                    if valid {
                        dels.push(a.clone());
                    }
                    m.set(sg, Bytes::new(e));
                }
                Signer::External(..) => {
                    m.set(sg, Bytes::from_array(e, &[if valid { 1 } else { 0 }, 42]));
                }
            }
        }
        (m, dels)
    }

    fn signers(&self, names: &[String]) -> SVec<Signer> {
        let mut v = SVec::new(&self.e);
        for n in names {
            v.push_back(self.signer(n));
        }
        v
    }

    fn policy(&self, name: &str) -> Address {
        w(|wd| wd.pols.get(name).cloned()).unwrap_or_else(|| panic!("unknown policy {name}"))
    }

    fn policies(&self, names: &[String]) -> Map<Address, Val> {
        let mut m = Map::new(&self.e);
        for n in names {
            m.set(self.policy(n), Val::from_void().into());
        }
        m
    }

    fn ctype(&self, name: &str) -> ContextRuleType {
        if name == "D" {
            ContextRuleType::Default
        } else if name.starts_with('c') {
            ContextRuleType::CallContract(w(|wd| wd.calls.get(name).cloned()).unwrap_or_else(|| panic!("type {name}")))
        } else {
            ContextRuleType::CreateContract(w(|wd| wd.wasms.get(name).cloned()).unwrap_or_else(|| panic!("type {name}")))
        }
    }

    fn context(&self, name: &str) -> Context {
        let e = &self.e;
        if name.starts_with('c') {
            Context::Contract(ContractContext {
                contract: w(|wd| wd.calls.get(name).cloned()).unwrap_or_else(|| panic!("ctx {name}")),
                fn_name: Symbol::new(e, "f"),
                args: SVec::new(e),
            })
        } else if name.starts_with('w') {
            Context::CreateContractHostFn(CreateContractHostFnContext {
                executable: ContractExecutable::Wasm(w(|wd| wd.wasms.get(name).cloned()).unwrap_or_else(|| panic!("ctx {name}"))),
                salt: BytesN::from_array(e, &[7; 32]),
            })
        } else {
            let wn = name.replacen('v', "w", 1);
            Context::CreateContractWithCtorHostFn(CreateContractWithConstructorHostFnContext {
                executable: ContractExecutable::Wasm(w(|wd| wd.wasms.get(&wn).cloned()).unwrap_or_else(|| panic!("ctx {name}"))),
                salt: BytesN::from_array(e, &[7; 32]),
                constructor_args: (1u32,).into_val(e),
            })
        }
    }

    fn rule_json(&self, r: &ContextRule) -> Value {
        w(|wd| {
            json!({
                "id": r.id,
                "ct": ct_name(wd, &r.context_type),
                // (u32::MAX, the "never expires" idiom, is logged as i32::MAX: trace numbers are 32-bit)
                "vu": r.valid_until.map(|x| if x == u32::MAX { i32::MAX as i64 } else { x as i64 }).unwrap_or(-1),
                "name": sstr_to_string(&r.name),
                "signers": signer_names(wd, &r.signers),
                "pols": r.policies.iter().map(|p| rev(&wd.pols, &p)).collect::<Vec<_>>(),
            })
        })
    }

    /// projection of the registry through the public getters
    fn obs(&self) -> Value {
        let e = &self.e;
        no_auth(e);
        let mut rules = Vec::new();
        let mut types = JMap::new();
        let mut count = 0u32;
        if let Some(acc) = &self.account {
            let cl = MultisigContractClient::new(e, acc);
            count = cl.get_context_rules_count();
            for id in 0..self.probe {
                if let Ok(Ok(r)) = cl.try_get_context_rule(&id) {
                    rules.push(self.rule_json(&r));
                }
            }
            for t in TYPES {
                let mut ids = Vec::new();
                let mut eq = true;
                match cl.try_get_context_rules(&self.ctype(t)) {
                    Ok(Ok(rs)) => {
                        for r in rs.iter() {
                            ids.push(r.id);
                            match cl.try_get_context_rule(&r.id) {
                                Ok(Ok(r2)) => eq &= r2 == r,
                                _ => eq = false,
                            }
                        }
                    }
                    _ => eq = false,
                }
                types.insert(t.to_string(), json!({"ids": ids, "eq": eq}));
            }
        } else {
            for t in TYPES {
                types.insert(t.to_string(), json!({"ids": [], "eq": true}));
            }
        }
        json!({"count": count, "n": self.probe, "rules": rules, "types": types})
    }

    fn commits(&self) -> BTreeMap<String, u32> {
        no_auth(&self.e);
        let pols = w(|wd| wd.pols.clone());
        pols.iter().map(|(n, a)| (n.clone(), LogPolicyClient::new(&self.e, a).enforced())).collect()
    }

    fn step(&mut self, given: &Value) -> Value {
        // the op is echoed as given, with the fields a hand-written replay file may omit at their defaults
        let mut full = mkop(s(given, "op"));
        for (k, v) in given.as_object().expect("op object") {
            full[k.as_str()] = v.clone();
        }
        let op = &full;
        let e = self.e.clone();
        set_seq(&e, seq(&e) + num(op, "dt").max(0) as u32);
        let now = seq(&e);
        let kind = s(op, "op");
        let before = self.commits();
        w(|wd| {
            wd.ver.clear();
            wd.can.clear();
            wd.enf.clear();
            wd.payload = None;
            wd.in_call = true;
        });
        let mut ret: i64 = -1;
        let (res, code): (&str, i64) = match kind {
            "cfg" => {
                let (p, k, rf) = (st(op, "p").to_string(), num(op, "k").max(0) as u32, op.get("rf").and_then(|v| v.as_bool()).unwrap_or(false));
                self.policy(&p);
                w(|wd| wd.pcfg.insert(p, (k, rf)));
                ("ok", 0)
            }
            "init" => {
                assert!(self.account.is_none(), "init twice");
                let signers = self.signers(&arr(op, "signers"));
                let pols = self.policies(&arr(op, "pols"));
                no_auth(&e);
                let acc = e.register(MultisigContract, (signers, pols));
                let cl = MultisigContractClient::new(&e, &acc);
                let rs = cl.get_context_rules(&ContextRuleType::Default);
                ret = rs.iter().map(|r| r.id as i64).max().unwrap_or(-1);
                self.account = Some(acc);
                ("ok", 0)
            }
            _ => {
                let acc = self.account.clone().expect("op before init");
                let cl = MultisigContractClient::new(&e, &acc);
                let id = num(op, "id").max(0) as u32;
                // Management entry points require the account's own authorization.  `mock_auths` for a
                // contract address would replace the account's code by the SDK's mock account, so the
                // account's authorization is granted through the recording mode for exactly this one call
                // (it is switched off again by `no_auth` before anything is observed).
                let own = |_f: &str, _a: SVec<Val>| e.mock_all_auths();
                match kind {
                    "add_rule" => {
                        let ct = self.ctype(st(op, "ct"));
                        let name = SStr::from_str(&e, st(op, "name"));
                        let vu = if num(op, "vu") < 0 { None } else if num(op, "vu") == i32::MAX as i64 { Some(u32::MAX) } else { Some(num(op, "vu") as u32) };
                        let signers = self.signers(&arr(op, "signers"));
                        let pols = self.policies(&arr(op, "pols"));
                        own("add_context_rule", args(&e, (ct.clone(), name.clone(), vu, signers.clone(), pols.clone())));
                        let r = cl.try_add_context_rule(&ct, &name, &vu, &signers, &pols);
                        if let Ok(Ok(rule)) = &r {
                            ret = rule.id as i64;
                        }
                        res_of(&r)
                    }
                    "rm_rule" => {
                        own("remove_context_rule", args(&e, (id,)));
                        res_of(&cl.try_remove_context_rule(&id))
                    }
                    "upd_name" => {
                        let name = SStr::from_str(&e, st(op, "name"));
                        own("update_context_rule_name", args(&e, (id, name.clone())));
                        res_of(&cl.try_update_context_rule_name(&id, &name))
                    }
                    "upd_vu" => {
                        let vu = if num(op, "vu") < 0 { None } else if num(op, "vu") == i32::MAX as i64 { Some(u32::MAX) } else { Some(num(op, "vu") as u32) };
                        own("update_context_rule_valid_until", args(&e, (id, vu)));
                        res_of(&cl.try_update_context_rule_valid_until(&id, &vu))
                    }
                    "add_signer" => {
                        let sg = self.signer(st(op, "s"));
                        own("add_signer", args(&e, (id, sg.clone())));
                        res_of(&cl.try_add_signer(&id, &sg))
                    }
                    "rm_signer" => {
                        let sg = self.signer(st(op, "s"));
                        own("remove_signer", args(&e, (id, sg.clone())));
                        res_of(&cl.try_remove_signer(&id, &sg))
                    }
                    "add_policy" => {
                        let p = self.policy(st(op, "p"));
                        let param: Val = Val::from_void().into();
                        own("add_policy", args(&e, (id, p.clone(), param)));
                        res_of(&cl.try_add_policy(&id, &p, &param))
                    }
                    "rm_policy" => {
                        let p = self.policy(st(op, "p"));
                        own("remove_policy", args(&e, (id, p.clone())));
                        res_of(&cl.try_remove_policy(&id, &p))
                    }
                    "check" => {
                        self.nonce = self.nonce.wrapping_add(1);
                        let payload = BytesN::from_array(&e, &[self.nonce; 32]);
                        w(|wd| wd.payload = Some(Bytes::from_array(&e, &[self.nonce; 32])));
                        let (m, dels) = self.signatures(op);
                        let mut entries = Vec::new();
                        for a in dels {
                            let inv = MockAuthInvoke { contract: &acc, fn_name: "__check_auth", args: args(&e, (payload.clone(),)), sub_invokes: &[] };
                            entries.push(self.entry(&a, ScVal::Void, &inv));
                        }
                        let mut ctxs = SVec::new(&e);
                        for c in arr(op, "ctxs") {
                            ctxs.push_back(self.context(&c));
                        }
                        e.set_auths(&entries);
                        let r = e.try_invoke_contract_check_auth::<SmartAccountError>(&acc, &payload, Signatures(m).into_val(&e), &ctxs);
                        match r {
                            Ok(()) => ("ok", 0),
                            Err(Ok(err)) => ("fail", err as u32 as i64),
                            Err(Err(_)) => ("fail", -1),
                        }
                    }
                    "e2e" => {
                        // an invocation that requires the account's authorization, authorized by a genuine entry:
                        // the host derives payload and contexts and calls the account's __check_auth
                        let names = arr(op, "ctxs");
                        assert!(!names.is_empty() && names.len() <= 2 && names.iter().all(|c| c.starts_with('c')) && names.first() != names.get(1), "e2e contexts {names:?}");
                        let t: Vec<Address> = names.iter().map(|c| w(|wd| wd.calls.get(c).cloned()).expect("target")).collect();
                        let next: Option<Address> = t.get(1).cloned();
                        let (m, dels) = self.signatures(op);
                        let sig_val: Val = Signatures(m).into_val(&e);
                        let sub_args = args(&e, (acc.clone(), None::<Address>));
                        let subs: Vec<MockAuthInvoke> = match &next {
                            Some(n) => vec![MockAuthInvoke { contract: n, fn_name: "ping", args: sub_args, sub_invokes: &[] }],
                            None => vec![],
                        };
                        let root = MockAuthInvoke { contract: &t[0], fn_name: "ping", args: args(&e, (acc.clone(), next.clone())), sub_invokes: &subs };
                        let own = self.entry(&acc, ScVal::try_from_val(&e, &sig_val).expect("signature"), &root);
                        let SorobanCredentials::Address(cr) = &own.credentials else { unreachable!() };
                        let pre = HashIdPreimage::SorobanAuthorization(HashIdPreimageSorobanAuthorization {
                            network_id: Hash(e.ledger().network_id().to_array()),
                            nonce: cr.nonce,
                            signature_expiration_ledger: cr.signature_expiration_ledger,
                            invocation: own.root_invocation.clone(),
                        });
                        let digest: [u8; 32] = Sha256::digest(pre.to_xdr(Limits::none()).expect("xdr")).into();
                        let payload = BytesN::from_array(&e, &digest);
                        w(|wd| wd.payload = Some(Bytes::from_array(&e, &digest)));
                        let mut entries = vec![own];
                        for a in dels {
                            let inv = MockAuthInvoke { contract: &acc, fn_name: "__check_auth", args: args(&e, (payload.clone(),)), sub_invokes: &[] };
                            entries.push(self.entry(&a, ScVal::Void, &inv));
                        }
                        e.set_auths(&entries);
                        res_of(&TargetClient::new(&e, &t[0]).try_ping(&acc, &next))
                    }
                    k => panic!("op {k}"),
                }
            }
        };
        if ret >= 0 && ret as u32 + 2 > self.probe {
            self.probe = ret as u32 + 2;
        }
        let (ver, can, enf) = w(|wd| {
            wd.in_call = false;
            (std::mem::take(&mut wd.ver), std::mem::take(&mut wd.can), std::mem::take(&mut wd.enf))
        });
        let after = self.commits();
        let commit: JMap<String, Value> = after.iter().map(|(k, v)| (k.clone(), json!(*v as i64 - before[k] as i64))).collect();
        json!({"op": op, "now": now, "res": res, "err": code, "ret": ret, "obs": self.obs(),
               "log": {"ver": ver, "can": can, "enf": enf, "commit": commit}})
    }

    fn reset_event(&self) -> Value {
        let commit: JMap<String, Value> = POLS.iter().map(|p| (p.to_string(), json!(0))).collect();
        json!({"op": mkop("reset"), "now": NOW0, "res": "ok", "err": 0, "ret": -1, "obs": self.obs(),
               "log": {"ver": [], "can": [], "enf": [], "commit": commit}})
    }
}

/// an op record with every field of the model's op records at its default
fn mkop(kind: &str) -> Value {
    json!({"op": kind, "dt": 0, "id": -1, "ct": "", "vu": -1, "name": "", "signers": [], "pols": [], "s": "", "p": "",
           "k": 0, "rf": false, "sigs": [], "bad": [], "ctxs": []})
}

fn with(mut op: Value, kv: &[(&str, Value)]) -> Value {
    for (k, v) in kv {
        op[*k] = v.clone();
    }
    op
}

// ---------------------------------------------------------------------------------------------
// seeded random driver at real scale (documented limits: 15 rules, 15 signers, 5 policies)
// ---------------------------------------------------------------------------------------------
// (20 external signers: one check over two or three contexts served by different rules can carry more signatures than
// any single rule may hold signers)
const EXT: [&str; 21] = ["s1", "s2", "s3", "s4", "s5", "s6", "s7", "s8", "s9", "s10", "s11", "s12", "s13", "s14", "s15", "s16",
                         "s17", "s18", "s19", "s20", "u"];
const UNKNOWN: [&str; 6] = ["u", "u1", "u2", "u3", "u4", "u5"];
const DEL: [&str; 4] = ["d", "d1", "d2", "d3"];
const CTXS: [&str; 7] = ["c1", "c2", "c3", "w1", "w2", "v1", "v2"];

struct Drv {
    r: StdRng,
}

impl Drv {
    fn some(&mut self, xs: &[&str], pr: f64) -> Vec<String> {
        xs.iter().filter(|_| self.r.gen_bool(pr)).map(|x| x.to_string()).collect()
    }
    fn signer_pool(&mut self, small: bool) -> Vec<&'static str> {
        if small {
            vec!["s1", "s2", "d", "s3"]
        } else {
            EXT[..20].iter().chain(DEL.iter()).cloned().collect()
        }
    }
}

fn type_of_ctx(c: &str) -> String {
    c.replacen('v', "w", 1)
}

fn drive_run(t: &mut Trace, d: &mut Drv, run: usize, len: usize) {
    let mut sys = Sys::new();
    t.reset(sys.reset_event());
    let flavour = run % 8; // 0..4 small universes, 5 rule capacity, 6 signer capacity, 7 policy capacity
    let small = flavour <= 4;
    let pool = d.signer_pool(small);
    let npol = if small { 2 } else { 6 };
    // policy behaviour
    for p in &POLS[..npol] {
        let k = *pick(&mut d.r, &[0i64, 0, 1, 1, 2, 3, 99, 0, 0, 1, 1, 2, 3, 99, 77]);
        let rf = d.r.gen_bool(0.15);
        let ev = sys.step(&with(mkop("cfg"), &[("p", json!(p)), ("k", json!(k)), ("rf", json!(rf))]));
        t.step(ev);
    }
    // constructor
    let mut sg = d.some(&pool, if small { 0.4 } else { 0.2 });
    let mut pl = d.some(&POLS[..npol], 0.25);
    // the constructor itself enforces the documented limits (15 signers, 5 policies): stay inside them here,
    // the limits are exercised by the judged add_* operations
    pl.truncate(5);
    sg.truncate(15);
    if sg.is_empty() && pl.is_empty() {
        sg.push("s1".to_string());
    }
    let ev = sys.step(&with(mkop("init"), &[("ct", json!("D")), ("name", json!("multisig")), ("signers", json!(sg)), ("pols", json!(pl))]));
    t.step(ev);
    let types: &[&str] = if small { &["D", "c1", "c2", "w1"] } else { &TYPES };
    let mut nm = 0;
    let mut return_pl: Option<Vec<String>> = None;
    // definitions of rules that were removed, for re-adding them later
    let mut grave: Vec<(String, Vec<String>, Vec<String>)> = Vec::new();
    // Directed: a rule is identified by its context type and its SETS of signers and policies, however they came about.
    // A rule built as {x, y} + add_policy(z) equals the rule {x, y, z}: adding the latter must be refused as a duplicate,
    // whichever of the three policies came last (the one whose address sorts in the middle included).
    if !small && run % 2 == 1 {
        for k in 0..3usize {
            let sgk = vec![pool[k].to_string()];
            let (two, third) = (vec![POLS[k % 3].to_string(), POLS[(k + 1) % 3].to_string()], POLS[(k + 2) % 3]);
            nm += 1;
            let ev = sys.step(&with(mkop("add_rule"), &[("ct", json!("D")), ("vu", json!(-1)), ("name", json!(format!("r{nm}"))),
                                                        ("signers", json!(sgk)), ("pols", json!(two))]));
            t.step(ev);
            let o = sys.obs();
            let id = o["rules"].as_array().unwrap().iter().filter(|r| arr(r, "signers") == sgk && st(r, "ct") == "D")
                .filter_map(|r| r["id"].as_i64()).max().unwrap_or(-1);
            let ev = sys.step(&with(mkop("add_policy"), &[("id", json!(id)), ("p", json!(third))]));
            t.step(ev);
            nm += 1;
            let all3: Vec<String> = POLS[..3].iter().map(|x| x.to_string()).collect();
            let ev = sys.step(&with(mkop("add_rule"), &[("ct", json!("D")), ("vu", json!(-1)), ("name", json!(format!("r{nm}"))),
                                                        ("signers", json!(sgk)), ("pols", json!(all3))]));
            t.step(ev);
        }
    }
    for i in 0..len {
        let o = sys.obs();
        let rules: Vec<Value> = o["rules"].as_array().unwrap().clone();
        let now = seq(&sys.e) as i64;
        let dt = if d.r.gen_ratio(1, 25) { 3000 } else { *pick(&mut d.r, &[0i64, 0, 0, 0, 1, 1, 2]) };
        let anyid = |d: &mut Drv| -> i64 {
            if !rules.is_empty() && d.r.gen_bool(0.85) {
                pick(&mut d.r, &rules)["id"].as_i64().unwrap()
            } else {
                d.r.gen_range(0..sys.probe as i64 + 1)
            }
        };
        let vus = [-1i64, -1, now + dt - 1, now + dt, now + dt + 1, now + dt + 2, now + dt + 5, i32::MAX as i64, i32::MAX as i64 - 1];
        // capacity flavours: push towards the limits first
        let kind = match flavour {
            5 if i < 22 => "add_rule",
            6 if i < 24 => *pick(&mut d.r, &["add_signer", "add_signer", "add_signer", "add_rule"]),
            7 if i < 16 => *pick(&mut d.r, &["add_policy", "add_policy", "add_rule"]),
            _ => *pick(&mut d.r, &["add_rule", "add_rule", "rm_rule", "upd_name", "upd_vu", "upd_vu", "add_signer", "rm_signer",
                                    "add_policy", "rm_policy", "check", "check", "check", "check", "check", "check", "cfg"]),
        };
        let op = match kind {
            "cfg" => with(mkop("cfg"), &[("p", json!(pick(&mut d.r, &POLS[..npol]))), ("k", json!(pick(&mut d.r, &[0i64, 1, 2, 3, 99, 0, 1, 2, 3, 99, 77]))),
                                         ("rf", json!(d.r.gen_bool(0.2)))]),
            "add_rule" => {
                let mut sg = match flavour {
                    6 if d.r.gen_bool(0.5) => {
                        // exactly at, or one past, the signer limit
                        let n = *pick(&mut d.r, &[14usize, 15, 15, 16]);
                        pool[..n].iter().map(|x| x.to_string()).collect()
                    }
                    5 => d.some(&pool, 0.15),
                    _ => d.some(&pool, if small { 0.4 } else { 0.15 }),
                };
                if d.r.gen_bool(0.04) && !sg.is_empty() {
                    sg.push(sg[0].clone()); // duplicate signer in the list
                }
                let pl = match flavour {
                    7 if d.r.gen_bool(0.5) => {
                        let n = *pick(&mut d.r, &[4usize, 5, 5, 6]);
                        POLS[..n].iter().map(|x| x.to_string()).collect()
                    }
                    _ => d.some(&POLS[..npol], if small { 0.3 } else { 0.12 }),
                };
                nm += 1;
                let mut ct = pick(&mut d.r, types).to_string();
                if flavour < 5 && !grave.is_empty() && d.r.gen_bool(0.3) {
                    // re-add a rule that was removed (possibly under another type: a fresh combination)
                    let g = pick(&mut d.r, &grave).clone();
                    if d.r.gen_bool(0.8) {
                        ct = g.0;
                    }
                    sg = g.1;
                    return_pl = Some(g.2);
                }
                let mut pl = return_pl.take().unwrap_or(pl);
                if !rules.is_empty() && d.r.gen_bool(0.1) {
                    // an exact copy of a live rule as it stands after all edits: a duplicate, to be refused
                    let live = pick(&mut d.r, &rules).clone();
                    ct = st(&live, "ct").to_string();
                    sg = arr(&live, "signers");
                    pl = arr(&live, "pols");
                }
                with(mkop("add_rule"), &[("ct", json!(ct)), ("vu", json!(pick(&mut d.r, &vus))),
                                         ("name", json!(format!("r{nm}"))), ("signers", json!(sg)), ("pols", json!(pl))])
            }
            "rm_rule" => {
                let id = anyid(d);
                if let Some(r) = rules.iter().find(|r| r["id"].as_i64() == Some(id)) {
                    grave.push((st(r, "ct").to_string(), arr(r, "signers"), arr(r, "pols")));
                }
                with(mkop("rm_rule"), &[("id", json!(id))])
            }
            "upd_name" => {
                nm += 1;
                with(mkop("upd_name"), &[("id", json!(anyid(d))), ("name", json!(format!("n{nm}")))])
            }
            "upd_vu" => with(mkop("upd_vu"), &[("id", json!(anyid(d))), ("vu", json!(pick(&mut d.r, &vus)))]),
            "add_signer" | "rm_signer" => {
                let id = anyid(d);
                let cur: Vec<String> = rules.iter().find(|r| r["id"].as_i64() == Some(id)).map(|r| arr(r, "signers")).unwrap_or_default();
                let want_member = (kind == "rm_signer") == d.r.gen_bool(0.8);
                let s = if want_member && !cur.is_empty() {
                    pick(&mut d.r, &cur).clone()
                } else {
                    let free: Vec<&str> = pool.iter().filter(|x| !cur.contains(&x.to_string())).cloned().collect();
                    if free.is_empty() { pool[0].to_string() } else { pick(&mut d.r, &free).to_string() }
                };
                with(mkop(kind), &[("id", json!(id)), ("s", json!(s))])
            }
            "add_policy" | "rm_policy" => {
                let id = anyid(d);
                let cur: Vec<String> = rules.iter().find(|r| r["id"].as_i64() == Some(id)).map(|r| arr(r, "pols")).unwrap_or_default();
                let want_member = (kind == "rm_policy") == d.r.gen_bool(0.8);
                let p = if want_member && !cur.is_empty() {
                    pick(&mut d.r, &cur).clone()
                } else {
                    let free: Vec<&str> = POLS[..npol].iter().filter(|x| !cur.contains(&x.to_string())).cloned().collect();
                    if free.is_empty() { POLS[0].to_string() } else { pick(&mut d.r, &free).to_string() }
                };
                with(mkop(kind), &[("id", json!(id)), ("p", json!(p))])
            }
            _ => {
                // a check: 1-3 contexts; the supplied signers are built around the rules that could serve them
                // a third of them end-to-end (a real invocation chain over one or two call targets)
                let e2e = d.r.gen_bool(0.33);
                let nctx = if e2e { *pick(&mut d.r, &[1usize, 2]) } else { *pick(&mut d.r, &[1usize, 1, 2, 2, 3]) };
                let cpool: &[&str] = if e2e { &CALLS } else if small { &["c1", "c2", "w1", "v1", "c3"] } else { &CTXS };
                let mut ctxs: Vec<String> = (0..nctx).map(|_| pick(&mut d.r, cpool).to_string()).collect();
                if e2e && nctx == 2 && ctxs[0] == ctxs[1] {
                    // a contract cannot be re-entered: the chain needs two different targets
                    ctxs[1] = CALLS.iter().find(|c| **c != ctxs[0]).unwrap().to_string();
                }
                let mut sigs: Vec<String> = Vec::new();
                for c in &ctxs {
                    let ty = type_of_ctx(c);
                    let cands: Vec<&Value> = rules.iter().filter(|r| r["ct"] == json!(ty) || r["ct"] == json!("D")).collect();
                    if !cands.is_empty() && d.r.gen_bool(0.85) {
                        for s in arr(*pick(&mut d.r, &cands[..]), "signers") {
                            if !sigs.contains(&s) && d.r.gen_bool(0.9) {
                                sigs.push(s);
                            }
                        }
                    }
                }
                for s in d.some(&pool[..pool.len().min(5)], 0.12) {
                    if !sigs.contains(&s) {
                        sigs.push(s);
                    }
                }
                if d.r.gen_bool(0.15) && !sigs.contains(&"u".to_string()) {
                    sigs.push("u".to_string());
                }
                if d.r.gen_bool(0.06) {
                    // a handful of valid signatures of signers no rule names
                    for x in UNKNOWN {
                        if !sigs.contains(&x.to_string()) {
                            sigs.push(x.to_string());
                        }
                    }
                }
                let bad: Vec<String> = if d.r.gen_bool(0.2) && !sigs.is_empty() { vec![pick(&mut d.r, &sigs).clone()] } else { vec![] };
                with(mkop(if e2e { "e2e" } else { "check" }), &[("sigs", json!(sigs)), ("bad", json!(bad)), ("ctxs", json!(ctxs))])
            }
        };
        let op = with(op, &[("dt", json!(dt))]);
        let ev = sys.step(&op);
        t.step(ev);
    }
}

fn main() {
    // panics inside the contracts under test are data; keep them quiet, but let harness panics speak
    let default_hook = std::panic::take_hook();
    std::panic::set_hook(Box::new(move |info| {
        let in_call = W.with(|c| c.try_borrow().map(|wd| wd.in_call).unwrap_or(true));
        let mine = info.location().map(|l| l.file().ends_with("smartaccount.rs")).unwrap_or(false);
        let refusal = info.payload().downcast_ref::<&str>().map(|m| *m == "enforce refuses").unwrap_or(false);
        if std::env::var("VERIF_LOUD").is_ok() || !(in_call && (!mine || refusal)) {
            default_hook(info);
        }
    }));
    match cli() {
        Mode::Exec { input, output } => {
            let mut t = Trace::create(&output);
            for b in read_behaviours(&input) {
                let mut sys = Sys::new();
                t.reset(sys.reset_event());
                for op in &b.ops {
                    let ev = sys.step(op);
                    t.step(ev);
                }
            }
            t.finish();
        }
        Mode::Drive { seed, runs, len, output } => {
            let mut t = Trace::create(&output);
            let mut d = Drv { r: StdRng::seed_from_u64(seed) };
            for run in 0..runs {
                drive_run(&mut t, &mut d, run, len);
            }
            t.finish();
        }
    }
}
