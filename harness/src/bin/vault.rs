//! Binding of spec/Vault.tla: the fungible-vault example over a thin Base asset token.
#![allow(dead_code)]
use soroban_sdk::{Address, Env, String as SStr};
use stellar_tokens::{fungible::FungibleToken as _, vault::FungibleVault as _};
use verif_harness::*;

#[path = "/repo/examples/fungible-vault/src/contract.rs"]
mod vault;

mod asset {
    use soroban_sdk::{contract, contractimpl, Address, Env, MuxedAddress, String};
    use stellar_tokens::fungible::{Base, FungibleToken};

    #[contract]
    pub struct AssetToken;

    #[contractimpl]
    impl AssetToken {
        pub fn __constructor(e: &Env) {
            Base::set_metadata(e, 7, String::from_str(e, "A"), String::from_str(e, "A"));
        }
        pub fn mint(e: &Env, to: Address, amount: i128) {
            Base::mint(e, &to, amount);
        }
    }

    #[contractimpl(contracttrait)]
    impl FungibleToken for AssetToken {
        type ContractType = Base;
    }
}

const NOW0: u32 = 10;
const BAD: i64 = -999_999;
const UNTIL: u32 = 90_000;   // far beyond any run, time_passes() included

struct Sys {
    e: Env,
    names: Names,
    accts: Vec<String>, // users + "v"
    v: Address,
    a: Address,
    off: u32,
    fund: i64,
    /// for behaviours printed by TLC (their ops carry no "blanket" field): every other behaviour runs its entries
    /// under blanket authorization
    blanket_default: bool,
}

fn small(v: i128) -> Value {
    if v.abs() < (1 << 30) { json!(v as i64) } else { json!(BAD) }
}

/// a getter that traps is data (BAD), never a harness abort
fn got<E1, E2>(r: Result<Result<i128, E1>, E2>) -> Value {
    match r {
        Ok(Ok(v)) => small(v),
        _ => json!(BAD),
    }
}

impl Sys {
    fn new(users: &[&str], off: u32, fund: i64) -> Sys {
        let e = new_env(&LedgerCfg { seq: NOW0, min_temp: 16, min_persistent: 1_000_000, max_ttl: 100_000 });
        let mut names = Names::new(&e, users);
        let a = e.register(asset::AssetToken, ());
        let nm = SStr::from_str(&e, "V");
        let v = e.register(vault::ExampleContract, (nm.clone(), nm.clone(), a.clone(), off));
        names.insert("v", v.clone());
        let mut accts: Vec<String> = users.iter().map(|s| s.to_string()).collect();
        accts.push("v".into());
        let sys = Sys { e, names, accts, v, a, off, fund, blanket_default: false };
        // funding (genesis of the asset token; not judged)
        for u in users.iter().take(2) {
            asset::AssetTokenClient::new(&sys.e, &sys.a).mint(&sys.names.get(u), &(fund as i128));
        }
        sys
    }

    fn obs(&self) -> Value {
        let e = &self.e;
        no_auth(e);
        let ac = asset::AssetTokenClient::new(e, &self.a);
        let vc = vault::ExampleContractClient::new(e, &self.v);
        let (mut asset, mut sh, mut sal, mut aal) = (JMap::new(), JMap::new(), JMap::new(), JMap::new());
        for x in &self.accts {
            let xa = self.names.get(x);
            asset.insert(x.clone(), got(ac.try_balance(&xa)));
            sh.insert(x.clone(), got(vc.try_balance(&xa)));
            let (mut r1, mut r2) = (JMap::new(), JMap::new());
            for y in &self.accts {
                let ya = self.names.get(y);
                r1.insert(y.clone(), got(vc.try_allowance(&xa, &ya)));
                r2.insert(y.clone(), got(ac.try_allowance(&xa, &ya)));
            }
            sal.insert(x.clone(), Value::Object(r1));
            aal.insert(x.clone(), Value::Object(r2));
        }
        json!({"asset": asset, "sh": sh, "supply": got(vc.try_total_supply()), "sal": sal, "aal": aal})
    }

    /// read-only getters of the vault trait, asked after the judged call: total_assets, the two conversions for 1 and
    /// for `px`, max_withdraw / max_redeem of every account
    fn probes(&self, px: i128) -> Value {
        let e = &self.e;
        no_auth(e);
        let vc = vault::ExampleContractClient::new(e, &self.v);
        let (mut maxw, mut maxr) = (JMap::new(), JMap::new());
        for x in &self.accts {
            let xa = self.names.get(x);
            maxw.insert(x.clone(), got(vc.try_max_withdraw(&xa)));
            maxr.insert(x.clone(), got(vc.try_max_redeem(&xa)));
        }
        json!({"ta": got(vc.try_total_assets()), "px": small(px),
               "cs1": got(vc.try_convert_to_shares(&1)), "csx": got(vc.try_convert_to_shares(&px)),
               "ca1": got(vc.try_convert_to_assets(&1)), "cax": got(vc.try_convert_to_assets(&px)),
               "maxw": maxw, "maxr": maxr})
    }

    fn share_events(&self) -> Value {
        let conv = |v: i128| small(v);
        let mut out = Vec::new();
        for (t, d) in events_of(&self.e, &self.names, &self.v, &conv) {
            let k = t.first().and_then(|v| v.as_str()).unwrap_or("?").to_string();
            let g = |i: usize| t.get(i).cloned().unwrap_or(json!("none"));
            let f = |n: &str| d.get(n).cloned().unwrap_or(json!(0));
            out.push(match k.as_str() {
                "deposit" => json!({"k": "deposit", "o": g(1), "f": g(2), "t": g(3), "a": f("assets"), "s": f("shares")}),
                // topics: operator, receiver, owner
                "withdraw" => json!({"k": "withdraw", "o": g(1), "f": g(3), "t": g(2), "a": f("assets"), "s": f("shares")}),
                "transfer" => json!({"k": "transfer", "o": "none", "f": g(1), "t": g(2), "a": 0, "s": f("amount")}),
                "mint" => json!({"k": "mint", "o": "none", "f": "none", "t": g(1), "a": 0, "s": f("amount")}),
                "burn" => json!({"k": "burn", "o": "none", "f": g(1), "t": "none", "a": 0, "s": f("amount")}),
                other => json!({"k": other, "o": "none", "f": "none", "t": "none", "a": 0, "s": 0}),
            });
        }
        Value::Array(out)
    }

    fn step(&mut self, op: &Value) -> Value {
        let e = self.e.clone();
        let e = &e;
        let kind = s(op, "op");
        let who = auth_addrs(op, &self.names);
        let x = n(op, "x") as i128;
        let nosub = op.get("nosub").and_then(|v| v.as_bool()).unwrap_or(false);
        let nm = |k: &str| -> Address { self.names.get(s(op, k)) };
        let vc = vault::ExampleContractClient::new(e, &self.v);
        let ac = asset::AssetTokenClient::new(e, &self.a);
        no_auth(e);
        // preview in the pre-state
        let pv: i64 = match kind {
            "deposit" => vc.try_preview_deposit(&x).ok().and_then(|r| r.ok()),
            "mint" => vc.try_preview_mint(&x).ok().and_then(|r| r.ok()),
            "withdraw" => vc.try_preview_withdraw(&x).ok().and_then(|r| r.ok()),
            "redeem" => vc.try_preview_redeem(&x).ok().and_then(|r| r.ok()),
            _ => None,
        }
        .map(|v| if v.abs() < (1 << 30) { v as i64 } else { BAD })
        .unwrap_or(BAD);
        let mut ret: i64 = BAD;
        let r: (&'static str, i64) = match kind {
            "deposit" | "mint" => {
                let (recv, own, oper) = (nm("recv"), nm("own"), nm("oper"));
                let assets: i128 = if kind == "deposit" { x } else if pv == BAD { 0 } else { pv as i128 };
                // The operator signs what a simulation of the call shows.  The harness cannot simulate without
                // side effects, so it authorizes the nested asset movement for the previewed amount and its two
                // neighbours: an operation that pulls a differently rounded amount than its preview then still
                // runs, and is judged by the monitors (C05_round, C05_preview, C05_movement) instead of being
                // masked by an authorization mismatch.
                let mut trees: Vec<(Address, Inv)> = Vec::new();
                for w in &who {
                    for delta in [0i128, -1, 1] {
                        let amt = assets + delta;
                        if amt < 0 || (nosub && delta != 0) {
                            continue;
                        }
                        let sub = if oper == own {
                            Inv::new(&self.a, "transfer", args(e, (own.clone(), self.v.clone(), amt)))
                        } else {
                            Inv::new(&self.a, "transfer_from", args(e, (oper.clone(), own.clone(), self.v.clone(), amt)))
                        };
                        let mut inv = Inv::new(&self.v, kind, args(e, (x, recv.clone(), own.clone(), oper.clone())));
                        if !nosub {
                            inv = inv.with_subs(vec![sub]);
                        }
                        trees.push((w.clone(), inv));
                    }
                }
                // (Several entries with the same root do not help when the nested amount differs by more than the host's
                // matching allows - the call then merely fails. "blanket": the signer is among the authorizers and signs
                // whatever the call turns out to need (the host waves every authorization through), so that an entry that
                // pulls another amount than previewed RUNS and is judged.)
                let signer_ok = who.contains(&oper) && !nosub;
                if op.get("blanket").and_then(|v| v.as_bool()).unwrap_or(self.blanket_default) && signer_ok {
                    e.mock_all_auths_allowing_non_root_auth();
                } else {
                    set_auths(e, &trees);
                }
                let rr = if kind == "deposit" { vc.try_deposit(&x, &recv, &own, &oper) } else { vc.try_mint(&x, &recv, &own, &oper) };
                if let Ok(Ok(v)) = &rr { ret = if v.abs() < (1 << 30) { *v as i64 } else { BAD }; }
                res_of(&rr)
            }
            "withdraw" | "redeem" => {
                let (recv, own, oper) = (nm("recv"), nm("own"), nm("oper"));
                set_auth_same(e, &who, &Inv::new(&self.v, kind, args(e, (x, recv.clone(), own.clone(), oper.clone()))));
                let rr = if kind == "withdraw" { vc.try_withdraw(&x, &recv, &own, &oper) } else { vc.try_redeem(&x, &recv, &own, &oper) };
                if let Ok(Ok(v)) = &rr { ret = if v.abs() < (1 << 30) { *v as i64 } else { BAD }; }
                res_of(&rr)
            }
            "donate" => {
                let own = nm("own");
                set_auth_same(e, &who, &Inv::new(&self.a, "transfer", args(e, (own.clone(), self.v.clone(), x))));
                res_of(&ac.try_transfer(&own, &self.v, &x))
            }
            "sapprove" => {
                let (own, oper) = (nm("own"), nm("oper"));
                set_auth_same(e, &who, &Inv::new(&self.v, "approve", args(e, (own.clone(), oper.clone(), x, UNTIL))));
                res_of(&vc.try_approve(&own, &oper, &x, &UNTIL))
            }
            "aapprove" => {
                let (own, oper) = (nm("own"), nm("oper"));
                set_auth_same(e, &who, &Inv::new(&self.a, "approve", args(e, (own.clone(), oper.clone(), x, UNTIL))));
                res_of(&ac.try_approve(&own, &oper, &x, &UNTIL))
            }
            "stransfer" => {
                let (own, recv) = (nm("own"), nm("recv"));
                set_auth_same(e, &who, &Inv::new(&self.v, "transfer", args(e, (own.clone(), recv.clone(), x))));
                res_of(&vc.try_transfer(&own, &recv, &x))
            }
            "stransfer_from" => {
                let (own, recv, oper) = (nm("own"), nm("recv"), nm("oper"));
                set_auth_same(e, &who, &Inv::new(&self.v, "transfer_from", args(e, (oper.clone(), own.clone(), recv.clone(), x))));
                res_of(&vc.try_transfer_from(&oper, &own, &recv, &x))
            }
            k => panic!("op {k}"),
        };
        let evs = self.share_events();
        let px = { let x = n(op, "x") as i128; if x > 0 { x } else { 3 } };
        // (the echoed op records the authorization regime that was in force, so that a replay repeats it)
        let mut op_out = op.clone();
        if matches!(kind, "deposit" | "mint") {
            op_out["blanket"] = json!(op.get("blanket").and_then(|v| v.as_bool()).unwrap_or(self.blanket_default));
        }
        json!({"op": op_out, "res": r.0, "err": r.1, "pv": pv, "ret": ret, "obs": self.obs(), "q": self.probes(px), "evs": evs})
    }

    fn reset_event(&self) -> Value {
        json!({"op": {"op": "reset", "off": self.off, "fund": self.fund, "x": 0, "recv": "none", "own": "none",
                      "oper": "none", "auth": [], "nosub": false},
               "res": "ok", "err": 0, "pv": BAD, "ret": BAD, "obs": self.obs(), "q": self.probes(3), "evs": []})
    }
}

fn main() {
    match cli() {
        Mode::Exec { input, output } => {
            let mut t = Trace::create(&output);
            for (bi, b) in read_behaviours(&input).iter().enumerate() {
                let off = b.cfg.get("off").and_then(|v| v.as_u64()).unwrap_or(0) as u32;
                let fund = b.cfg.get("fund").and_then(|v| v.as_i64()).unwrap_or(6);
                let mut sys = Sys::new(&["a", "b", "c"], off, fund);
                sys.blanket_default = bi % 2 == 1;
                t.reset(sys.reset_event());
                for op in &b.ops {
                    let ev = sys.step(op);
                    t.step(ev);
                }
            }
            t.finish();
        }
        Mode::Drive { seed, runs, len, output } => {
            let mut t = Trace::create(&output);
            let mut r = StdRng::seed_from_u64(seed);
            let users = ["a", "b", "c"];
            for run in 0..runs {
                let off = (run % 3) as u32;
                let fund = *pick(&mut r, &[6i64, 50, 400]);
                let mut sys = Sys::new(&users, off, fund);
                t.reset(sys.reset_event());
                let mut last = sys.obs();
                for _ in 0..len {
                    time_passes(&sys.e, &mut r, 700);
                    let own = *pick(&mut r, &users);
                    let oper = if r.gen_bool(0.7) { own } else { *pick(&mut r, &users) };
                    // (now and then the vault itself is the receiver: shares held by the vault's own address are shares
                    // like any other in every conversion; assets "paid out" to it stay where they are)
                    let recv = if r.gen_bool(0.6) { own } else if r.gen_bool(0.2) { "v" } else { *pick(&mut r, &users) };
                    let ab = last["asset"][own].as_i64().unwrap_or(0);
                    let sb = last["sh"][own].as_i64().unwrap_or(0);
                    let amt = |r: &mut StdRng, cap: i64| -> i64 {
                        match r.gen_range(0..10) {
                            0 => 0,
                            1 => 1,
                            2 => cap,
                            3 => cap + 1,
                            4 => -1,
                            _ => if cap > 0 { r.gen_range(0..=cap) } else { r.gen_range(0..4) },
                        }
                    };
                    let mut auth: Vec<String> = if r.gen_bool(0.1) { subset(&mut r, &users) } else { vec![] };
                    let good = r.gen_bool(0.85);
                    let kind = *pick(&mut r, &["deposit", "deposit", "mint", "mint", "withdraw", "withdraw", "redeem", "redeem",
                                               "donate", "sapprove", "aapprove", "stransfer", "stransfer_from"]);
                    let x = match kind {
                        "deposit" | "donate" | "aapprove" => amt(&mut r, ab.min(60)),
                        "mint" => amt(&mut r, (ab.min(40)) * 10i64.pow(off)),
                        "withdraw" => amt(&mut r, sb / 10i64.pow(off) + 1),
                        _ => amt(&mut r, sb),
                    };
                    let signer = match kind {
                        "donate" | "sapprove" | "aapprove" | "stransfer" => own,
                        _ => oper,
                    };
                    if good { auth.push(signer.into()); }
                    let nosub = r.gen_bool(0.03);
                    let blanket = matches!(kind, "deposit" | "mint") && r.gen_bool(0.5);
                    let op = json!({"op": kind, "x": x, "recv": recv, "own": own, "oper": oper, "auth": auth, "nosub": nosub, "blanket": blanket});
                    let ev = sys.step(&op);
                    last = ev["obs"].clone();
                    t.step(ev);
                }
            }
            t.finish();
        }
    }
}
