//! Binding of spec/Registries.tla (property C20, RWA registries): one thin contract per registry
//! whose entry points forward 1:1 to the library functions of
//!   packages/tokens/src/rwa/claim_issuer/storage.rs            flavour "keys"
//!   packages/tokens/src/rwa/claim_topics_and_issuers/storage.rs        "cti"
//!   packages/tokens/src/rwa/utils/token_binder/storage.rs              "binder"
//!   packages/tokens/src/rwa/extensions/doc_manager/storage.rs          "docs"
//!   packages/tokens/src/rwa/identity_registry_storage/storage.rs       "irs"
//!   packages/tokens/src/rwa/compliance/storage.rs (module lists)       "modules"
//!   packages/tokens/src/rwa/identity_claims/storage.rs                 "claims"
//! None of these library functions demands an authorization, so every call is made with no
//! authorization attached.  `allow_key` asks the registry contract it is given whether the claim
//! issuer may sign the topic; the registries of the "keys" universe are mock contracts answering yes
//! (`is_authorized_for`, which only forwards that question, is therefore not part of the judged
//! observation).  Capacity limits are read from the library's public constants and travel in the
//! reset event.  `linked_token_count` is not exported by the library: the binder's count is the length
//! of `linked_tokens`.  `add_claim` asks the issuer contract `is_claim_valid` first: the issuers of the
//! "claims" universe are scripted contracts that trap iff their flag is set (op "add_invalid" sets it for
//! the duration of the call); whether a claim is cryptographically valid is property C15's business.
#![allow(dead_code)]
use std::collections::{BTreeMap, BTreeSet, HashMap};

use soroban_sdk::{Address, Bytes, BytesN, Env, Map as SMap, String as SStr, Symbol, Vec as SVec};
use stellar_tokens::rwa::{
    claim_issuer::{SigningKey, MAX_KEYS_PER_TOPIC, MAX_REGISTRIES_PER_KEY},
    claim_topics_and_issuers::{MAX_CLAIM_TOPICS, MAX_ISSUERS},
    compliance::{ComplianceHook, MAX_MODULES},
    extensions::doc_manager as docs_lib,
    identity_claims::Claim,
    identity_registry_storage::{
        CountryData, CountryRelation, IdentityType, IndividualCountryRelation, OrganizationCountryRelation,
        MAX_COUNTRY_ENTRIES,
    },
    utils::token_binder as binder_lib,
};
use verif_harness::*;

mod cti_c {
    use soroban_sdk::{contract, contractimpl, Address, Env, Map, Vec};
    use stellar_tokens::rwa::claim_topics_and_issuers::storage as lib;

    #[contract]
    pub struct CtiReg;

    #[contractimpl]
    impl CtiReg {
        pub fn add_claim_topic(e: &Env, t: u32) {
            lib::add_claim_topic(e, t)
        }
        pub fn remove_claim_topic(e: &Env, t: u32) {
            lib::remove_claim_topic(e, t)
        }
        pub fn add_trusted_issuer(e: &Env, i: Address, ts: Vec<u32>) {
            lib::add_trusted_issuer(e, &i, &ts)
        }
        pub fn remove_trusted_issuer(e: &Env, i: Address) {
            lib::remove_trusted_issuer(e, &i)
        }
        pub fn update_issuer_claim_topics(e: &Env, i: Address, ts: Vec<u32>) {
            lib::update_issuer_claim_topics(e, &i, &ts)
        }
        pub fn get_claim_topics(e: &Env) -> Vec<u32> {
            lib::get_claim_topics(e)
        }
        pub fn get_trusted_issuers(e: &Env) -> Vec<Address> {
            lib::get_trusted_issuers(e)
        }
        pub fn get_claim_topic_issuers(e: &Env, t: u32) -> Vec<Address> {
            lib::get_claim_topic_issuers(e, t)
        }
        pub fn get_trusted_issuer_claim_topics(e: &Env, i: Address) -> Vec<u32> {
            lib::get_trusted_issuer_claim_topics(e, &i)
        }
        pub fn get_claim_topics_and_issuers(e: &Env) -> Map<u32, Vec<Address>> {
            lib::get_claim_topics_and_issuers(e)
        }
        pub fn is_trusted_issuer(e: &Env, i: Address) -> bool {
            lib::is_trusted_issuer(e, &i)
        }
        pub fn has_claim_topic(e: &Env, i: Address, t: u32) -> bool {
            lib::has_claim_topic(e, &i, t)
        }
    }
}

mod keys_c {
    use soroban_sdk::{contract, contractimpl, Address, Bytes, Env, Vec};
    use stellar_tokens::rwa::claim_issuer as lib;

    #[contract]
    pub struct KeyReg;

    #[contractimpl]
    impl KeyReg {
        pub fn allow_key(e: &Env, public_key: Bytes, registry: Address, scheme: u32, claim_topic: u32) {
            lib::allow_key(e, &public_key, &registry, scheme, claim_topic)
        }
        pub fn remove_key(e: &Env, public_key: Bytes, registry: Address, scheme: u32, claim_topic: u32) {
            lib::remove_key(e, &public_key, &registry, scheme, claim_topic)
        }
        pub fn get_keys_for_topic(e: &Env, claim_topic: u32) -> Vec<lib::SigningKey> {
            lib::get_keys_for_topic(e, claim_topic)
        }
        pub fn get_registries(e: &Env, key: lib::SigningKey) -> Vec<Address> {
            lib::get_registries(e, &key)
        }
        pub fn is_key_allowed_for_topic(e: &Env, public_key: Bytes, scheme: u32, claim_topic: u32) -> bool {
            lib::is_key_allowed_for_topic(e, &public_key, scheme, claim_topic)
        }
        pub fn is_key_allowed_for_registry(e: &Env, public_key: Bytes, scheme: u32, registry: Address) -> bool {
            lib::is_key_allowed_for_registry(e, &public_key, scheme, &registry)
        }
    }
}

/// A claim-topics-and-issuers registry that lets the claim issuer sign every topic.
mod yesreg_c {
    use soroban_sdk::{contract, contractimpl, Address, Env};

    #[contract]
    pub struct YesRegistry;

    #[contractimpl]
    impl YesRegistry {
        pub fn has_claim_topic(_e: &Env, _issuer: Address, _claim_topic: u32) -> bool {
            true
        }
    }
}

mod binder_c {
    use soroban_sdk::{contract, contractimpl, Address, Env, Vec};
    use stellar_tokens::rwa::utils::token_binder as lib;

    #[contract]
    pub struct Binder;

    #[contractimpl]
    impl Binder {
        pub fn bind_token(e: &Env, token: Address) {
            lib::bind_token(e, &token)
        }
        pub fn bind_tokens(e: &Env, tokens: Vec<Address>) {
            lib::bind_tokens(e, &tokens)
        }
        pub fn unbind_token(e: &Env, token: Address) {
            lib::unbind_token(e, &token)
        }
        pub fn linked_tokens(e: &Env) -> Vec<Address> {
            lib::linked_tokens(e)
        }
        pub fn get_token_by_index(e: &Env, index: u32) -> Address {
            lib::get_token_by_index(e, index)
        }
        pub fn get_token_index(e: &Env, token: Address) -> u32 {
            lib::get_token_index(e, &token)
        }
        pub fn is_token_bound(e: &Env, token: Address) -> bool {
            lib::is_token_bound(e, &token)
        }
    }
}

mod docs_c {
    use soroban_sdk::{contract, contractimpl, BytesN, Env, String, Vec};
    use stellar_tokens::rwa::extensions::doc_manager as lib;

    #[contract]
    pub struct Docs;

    #[contractimpl]
    impl Docs {
        pub fn set_document(e: &Env, name: BytesN<32>, uri: String, document_hash: BytesN<32>) {
            lib::set_document(e, &name, &uri, &document_hash)
        }
        pub fn remove_document(e: &Env, name: BytesN<32>) {
            lib::remove_document(e, &name)
        }
        pub fn get_document(e: &Env, name: BytesN<32>) -> lib::Document {
            lib::get_document(e, &name)
        }
        pub fn get_document_by_index(e: &Env, index: u32) -> (BytesN<32>, lib::Document) {
            lib::get_document_by_index(e, index)
        }
        pub fn get_document_count(e: &Env) -> u32 {
            lib::get_document_count(e)
        }
        pub fn get_documents(e: &Env, bucket_index: u32) -> Vec<(BytesN<32>, lib::Document)> {
            lib::get_documents(e, bucket_index)
        }
    }
}

mod irs_c {
    use soroban_sdk::{contract, contractimpl, Address, Env, Vec};
    use stellar_tokens::rwa::identity_registry_storage as lib;

    #[contract]
    pub struct Irs;

    #[contractimpl]
    impl Irs {
        pub fn add_identity(e: &Env, account: Address, identity: Address, ty: lib::IdentityType, countries: Vec<lib::CountryData>) {
            lib::add_identity(e, &account, &identity, ty, &countries)
        }
        pub fn modify_identity(e: &Env, account: Address, identity: Address) {
            lib::modify_identity(e, &account, &identity)
        }
        pub fn remove_identity(e: &Env, account: Address) {
            lib::remove_identity(e, &account)
        }
        pub fn recover_identity(e: &Env, old_account: Address, new_account: Address) {
            lib::recover_identity(e, &old_account, &new_account)
        }
        pub fn add_country_data_entries(e: &Env, account: Address, countries: Vec<lib::CountryData>) {
            lib::add_country_data_entries(e, &account, &countries)
        }
        pub fn modify_country_data(e: &Env, account: Address, index: u32, country: lib::CountryData) {
            lib::modify_country_data(e, &account, index, &country)
        }
        pub fn delete_country_data(e: &Env, account: Address, index: u32) {
            lib::delete_country_data(e, &account, index)
        }
        pub fn stored_identity(e: &Env, account: Address) -> Address {
            lib::stored_identity(e, &account)
        }
        pub fn get_identity_profile(e: &Env, account: Address) -> lib::IdentityProfile {
            lib::get_identity_profile(e, &account)
        }
        pub fn get_country_data(e: &Env, account: Address, index: u32) -> lib::CountryData {
            lib::get_country_data(e, &account, index)
        }
        pub fn get_country_data_entries(e: &Env, account: Address) -> Vec<lib::CountryData> {
            lib::get_country_data_entries(e, &account)
        }
        pub fn get_recovered_to(e: &Env, account: Address) -> Option<Address> {
            lib::get_recovered_to(e, &account)
        }
    }
}

mod modules_c {
    use soroban_sdk::{contract, contractimpl, Address, Env, Vec};
    use stellar_tokens::rwa::compliance::{storage as lib, ComplianceHook};

    #[contract]
    pub struct Modules;

    #[contractimpl]
    impl Modules {
        pub fn add_module_to(e: &Env, hook: ComplianceHook, module: Address) {
            lib::add_module_to(e, hook, module)
        }
        pub fn remove_module_from(e: &Env, hook: ComplianceHook, module: Address) {
            lib::remove_module_from(e, hook, module)
        }
        pub fn get_modules_for_hook(e: &Env, hook: ComplianceHook) -> Vec<Address> {
            lib::get_modules_for_hook(e, hook)
        }
        pub fn is_module_registered(e: &Env, hook: ComplianceHook, module: Address) -> bool {
            lib::is_module_registered(e, hook, module)
        }
    }
}

mod claims_c {
    use soroban_sdk::{contract, contractimpl, Address, Bytes, BytesN, Env, String, Vec};
    use stellar_tokens::rwa::identity_claims as lib;

    #[contract]
    pub struct Claims;

    #[contractimpl]
    impl Claims {
        pub fn add_claim(e: &Env, topic: u32, scheme: u32, issuer: Address, signature: Bytes, data: Bytes, uri: String) -> BytesN<32> {
            lib::add_claim(e, topic, scheme, &issuer, &signature, &data, &uri)
        }
        pub fn get_claim(e: &Env, claim_id: BytesN<32>) -> lib::Claim {
            lib::get_claim(e, &claim_id)
        }
        pub fn get_claim_ids_by_topic(e: &Env, topic: u32) -> Vec<BytesN<32>> {
            lib::get_claim_ids_by_topic(e, topic)
        }
        pub fn remove_claim(e: &Env, claim_id: BytesN<32>) {
            lib::remove_claim(e, &claim_id)
        }
        pub fn generate_claim_id(e: &Env, issuer: Address, topic: u32) -> BytesN<32> {
            lib::generate_claim_id(e, &issuer, topic)
        }
    }
}

/// A scripted claim issuer: `is_claim_valid` traps iff the flag is set.
mod issuer_c {
    use soroban_sdk::{contract, contractimpl, symbol_short, Address, Bytes, Env};

    #[contract]
    pub struct ScriptedIssuer;

    #[contractimpl]
    impl ScriptedIssuer {
        pub fn set_reject(e: &Env, reject: bool) {
            e.storage().instance().set(&symbol_short!("reject"), &reject);
        }
        pub fn is_claim_valid(e: &Env, _identity: Address, _claim_topic: u32, _scheme: u32, _sig_data: Bytes, _claim_data: Bytes) {
            if e.storage().instance().get(&symbol_short!("reject")).unwrap_or(false) {
                panic!("claim rejected by the issuer");
            }
        }
    }
}

// ---------------------------------------------------------------------------------------------
// model names <-> values
// ---------------------------------------------------------------------------------------------

/// "t12" -> 12
fn num(name: &str) -> u32 {
    name.trim_start_matches(|c: char| !c.is_ascii_digit()).parse().unwrap_or(0)
}

fn names(prefix: &str, n: u32) -> Vec<String> {
    (1..=n).map(|i| format!("{prefix}{i}")).collect()
}

/// Addresses by model name (generated on first use) and back (by strkey: O(1) for big universes).
struct Pool {
    fwd: BTreeMap<String, Address>,
    rev: HashMap<String, String>,
}

impl Pool {
    fn new() -> Pool {
        Pool { fwd: BTreeMap::new(), rev: HashMap::new() }
    }
    fn put(&mut self, name: &str, a: Address) {
        self.rev.insert(a.to_string().to_string(), name.to_string());
        self.fwd.insert(name.to_string(), a);
    }
    fn has(&self, name: &str) -> bool {
        self.fwd.contains_key(name)
    }
    fn get(&self, name: &str) -> Address {
        self.fwd.get(name).unwrap_or_else(|| panic!("unknown name {name}")).clone()
    }
    fn name(&self, a: &Address) -> String {
        self.rev.get(&a.to_string().to_string()).cloned().unwrap_or_else(|| "?".to_string())
    }
}

/// key "kN": public key number N / 2 under scheme N % 2 (so k2 and k3 share their public key)
fn key_of(e: &Env, name: &str) -> (Bytes, u32) {
    let n = num(name);
    let mut b = [0xA5u8; 32];
    b[..4].copy_from_slice(&(n / 2).to_be_bytes());
    (Bytes::from_slice(e, &b), n % 2)
}

fn key_name(k: &SigningKey) -> String {
    let v: Vec<u8> = k.public_key.iter().collect();
    if v.len() != 32 || v[4..].iter().any(|x| *x != 0xA5) || k.scheme > 1 {
        return "?".to_string();
    }
    let idx = u32::from_be_bytes([v[0], v[1], v[2], v[3]]);
    format!("k{}", idx * 2 + k.scheme)
}

/// document "nN"
fn doc_name(e: &Env, name: &str) -> BytesN<32> {
    let mut b = [0x11u8; 32];
    b[..4].copy_from_slice(&num(name).to_be_bytes());
    BytesN::from_array(e, &b)
}

fn doc_name_back(b: &BytesN<32>) -> String {
    let v = b.to_array();
    if v[4..].iter().any(|x| *x != 0x11) {
        return "?".to_string();
    }
    format!("n{}", u32::from_be_bytes([v[0], v[1], v[2], v[3]]))
}

fn uri_of(e: &Env, name: &str) -> SStr {
    SStr::from_str(e, &format!("https://doc/{name}"))
}

fn hash_of(e: &Env, name: &str) -> BytesN<32> {
    BytesN::from_array(e, &[num(name) as u8; 32])
}

fn doc_json(d: &docs_lib::Document) -> Value {
    let uri = d.uri.to_string();
    let uri = uri.strip_prefix("https://doc/").unwrap_or("?").to_string();
    let h = d.document_hash.to_array();
    let hash = if h.iter().all(|x| *x == h[0]) { format!("h{}", h[0]) } else { "?".to_string() };
    json!({"uri": uri, "hash": hash, "ts": (d.timestamp.min(1 << 30)) as i64})
}

fn no_doc() -> Value {
    json!({"uri": "none", "hash": "none", "ts": 0})
}

/// country "cN": the relation variant and the presence of metadata vary with N
fn country(e: &Env, name: &str) -> CountryData {
    let n = num(name);
    let rel = match n % 4 {
        0 => CountryRelation::Individual(IndividualCountryRelation::Residence(n)),
        1 => CountryRelation::Individual(IndividualCountryRelation::Citizenship(n)),
        2 => CountryRelation::Organization(OrganizationCountryRelation::Incorporation(n)),
        _ => CountryRelation::Individual(IndividualCountryRelation::Custom(Symbol::new(e, "x"), n)),
    };
    let metadata = if n % 3 == 0 {
        let mut m: SMap<Symbol, SStr> = SMap::new(e);
        m.set(Symbol::new(e, "m"), SStr::from_str(e, &format!("v{n}")));
        Some(m)
    } else {
        None
    };
    CountryData { country: rel, metadata }
}

fn country_name(e: &Env, cd: &CountryData) -> String {
    for n in 0..=24 {
        let name = format!("c{n}");
        if country(e, &name) == *cd {
            return name;
        }
    }
    "?".to_string()
}

fn ty_of(name: &str) -> IdentityType {
    if name == "org" {
        IdentityType::Organization
    } else {
        IdentityType::Individual
    }
}

fn ty_name(t: &IdentityType) -> &'static str {
    match t {
        IdentityType::Individual => "ind",
        IdentityType::Organization => "org",
    }
}

const HOOKS: [&str; 5] = ["Transferred", "Created", "Destroyed", "CanTransfer", "CanCreate"];

fn hook_of(name: &str) -> ComplianceHook {
    match name {
        "Transferred" => ComplianceHook::Transferred,
        "Created" => ComplianceHook::Created,
        "Destroyed" => ComplianceHook::Destroyed,
        "CanTransfer" => ComplianceHook::CanTransfer,
        "CanCreate" => ComplianceHook::CanCreate,
        h => panic!("hook {h}"),
    }
}

/// claim topic "tN": odd N is the number (N + 1) / 2, even N the same number with a high byte set, so
/// that t1/t2, t3/t4, ... differ in their high bytes only
fn ctopic(name: &str) -> u32 {
    let n = num(name);
    let low = n.div_ceil(2);
    if n % 2 == 0 {
        low | 0x0100_0000 | ((n & 0xff) << 16)
    } else {
        low
    }
}

/// payload tags of a claim: data "d0" is empty, any other tag is carried literally
fn cdata(e: &Env, tag: &str) -> Bytes {
    if tag == "d0" {
        Bytes::new(e)
    } else {
        Bytes::from_slice(e, tag.as_bytes())
    }
}

fn cdata_name(b: &Bytes) -> String {
    if b.is_empty() {
        return "d0".to_string();
    }
    std::string::String::from_utf8(b.iter().collect()).unwrap_or_else(|_| "?".to_string())
}

fn csig(e: &Env, tag: &str) -> Bytes {
    Bytes::from_slice(e, format!("sig:{tag}").as_bytes())
}

fn csig_name(b: &Bytes) -> String {
    let v = std::string::String::from_utf8(b.iter().collect()).unwrap_or_default();
    v.strip_prefix("sig:").unwrap_or("?").to_string()
}

fn curi(e: &Env, tag: &str) -> SStr {
    SStr::from_str(e, &format!("https://claim/{tag}"))
}

fn curi_name(u: &SStr) -> String {
    u.to_string().strip_prefix("https://claim/").unwrap_or("?").to_string()
}

fn hex32(b: &BytesN<32>) -> String {
    b.to_array().iter().map(|x| format!("{x:02x}")).collect()
}

// ---------------------------------------------------------------------------------------------
// the system under test: one registry contract per run
// ---------------------------------------------------------------------------------------------

struct Sys {
    e: Env,
    fl: String,
    regime: String,
    c: Address,
    pool: Pool,
    /// the probed universes (meaning per flavour, see `universe`)
    u1: Vec<String>,
    u2: Vec<String>,
    u3: Vec<String>,
    /// every element of the universes and every index 0..=count is probed after every call
    full: bool,
    step_no: u64,
    /// claims: the 32-byte ids of the universe by name "topic/issuer" (first pair wins), as
    /// `generate_claim_id` gave them when the run began
    ids: HashMap<[u8; 32], String>,
}

/// keys: signing keys, topics, registries / cti: topics, issuers / binder: tokens / docs: names /
/// irs: accounts / modules: hooks, modules / claims: topics, issuers.  Regime "mc" is the universe of
/// MC_Registries.
fn universe(fl: &str, regime: &str) -> (Vec<String>, Vec<String>, Vec<String>, bool) {
    let none = Vec::new;
    match (fl, regime) {
        ("keys", "mc") => (names("k", 3), names("t", 2), names("r", 2), true),
        ("keys", "small") => (names("k", 4), names("t", 3), names("r", 3), true),
        ("keys", "kpt") => (names("k", MAX_KEYS_PER_TOPIC + 2), names("t", 2), names("r", 2), true),
        ("keys", "rpk") => (names("k", 3), names("t", 3), names("r", MAX_REGISTRIES_PER_KEY + 2), true),
        ("cti", "mc") => (names("t", 3), names("i", 3), none(), true),
        ("cti", "small") => (names("t", 4), names("i", 4), none(), true),
        ("cti", "topics") => (names("t", MAX_CLAIM_TOPICS + 2), names("i", 3), none(), true),
        ("cti", "issuers") | ("cti", "dense") => (names("t", 3), names("i", MAX_ISSUERS + 2), none(), true),
        ("binder", "mc") => (names("x", 5), none(), none(), true),
        ("binder", "small") => (names("x", 6), none(), none(), true),
        ("binder", "bucket") => (names("x", 2 * binder_lib::BUCKET_SIZE + 50), none(), none(), true),
        ("binder", "cap") => (names("x", binder_lib::MAX_TOKENS + 30), none(), none(), false),
        ("docs", "mc") => (names("n", 5), none(), none(), true),
        ("docs", "small") => (names("n", 6), none(), none(), true),
        ("docs", "bucket") => (names("n", 2 * docs_lib::BUCKET_SIZE + 20), none(), none(), true),
        ("docs", "cap") => (names("n", docs_lib::MAX_DOCUMENTS + 10), none(), none(), false),
        ("irs", "mc") => (names("a", 3), none(), none(), true),
        ("irs", "small") => (names("a", 8), none(), none(), true),
        ("modules", "mc") => (vec!["Created".into(), "CanTransfer".into()], names("m", 3), none(), true),
        ("modules", "small") => (HOOKS.iter().map(|h| h.to_string()).collect(), names("m", 4), none(), true),
        ("modules", "cap") => (vec!["Created".into(), "CanTransfer".into()], names("m", MAX_MODULES + 2), none(), true),
        ("claims", "mc") => (names("t", 2), names("i", 3), none(), true),
        ("claims", "small") => (names("t", 3), names("i", 4), none(), true),
        ("claims", "list") => (names("t", 2), names("i", 12), none(), true),
        (f, r) => panic!("flavour {f} regime {r}"),
    }
}

/// the documented capacity limits = the library's public constants
fn limits(fl: &str) -> Value {
    match fl {
        "keys" => json!({"kpt": MAX_KEYS_PER_TOPIC, "rpk": MAX_REGISTRIES_PER_KEY}),
        "cti" => json!({"topics": MAX_CLAIM_TOPICS, "issuers": MAX_ISSUERS}),
        "binder" => json!({"max": binder_lib::MAX_TOKENS, "batch": 2 * binder_lib::BUCKET_SIZE}),
        "docs" => json!({"max": docs_lib::MAX_DOCUMENTS, "bucket": docs_lib::BUCKET_SIZE}),
        "irs" => json!({"countries": MAX_COUNTRY_ENTRIES}),
        "modules" => json!({"modules": MAX_MODULES}),
        "claims" => json!({"none": 0}),
        f => panic!("flavour {f}"),
    }
}

impl Sys {
    fn new(fl: &str, regime: &str) -> Sys {
        let e = new_env(&LedgerCfg::default());
        // the histories go to the documented capacity limits, beyond what one mainnet transaction may
        // read, write or emit (e.g. the 200 `token_bound` events of a full batch exceed 16 KiB)
        e.cost_estimate().disable_resource_limits();
        let c = match fl {
            "keys" => e.register(keys_c::KeyReg, ()),
            "cti" => e.register(cti_c::CtiReg, ()),
            "binder" => e.register(binder_c::Binder, ()),
            "docs" => e.register(docs_c::Docs, ()),
            "irs" => e.register(irs_c::Irs, ()),
            "modules" => e.register(modules_c::Modules, ()),
            "claims" => e.register(claims_c::Claims, ()),
            f => panic!("flavour {f}"),
        };
        let (u1, u2, u3, full) = universe(fl, regime);
        let mut sys =
            Sys { e, fl: fl.into(), regime: regime.into(), c, pool: Pool::new(), u1, u2, u3, full, step_no: 0, ids: HashMap::new() };
        // addresses of the whole universe
        let addr_names: Vec<String> = match fl {
            "keys" => sys.u3.clone(),
            "cti" => sys.u2.clone(),
            "binder" | "irs" => sys.u1.clone(),
            "modules" | "claims" => sys.u2.clone(),
            _ => vec![],
        };
        for n in &addr_names {
            sys.ensure(n);
        }
        no_auth(&sys.e);
        if fl == "claims" {
            let cl = claims_c::ClaimsClient::new(&sys.e, &sys.c);
            for t in &sys.u1 {
                for i in &sys.u2 {
                    if let Ok(Ok(id)) = cl.try_generate_claim_id(&sys.pool.get(i), &ctopic(t)) {
                        sys.ids.entry(id.to_array()).or_insert(format!("{t}/{i}"));
                    }
                }
            }
        }
        sys
    }

    /// a claim id by the name of the first (topic, issuer) of the universe it belongs to, else in hex
    fn id_name(&self, id: &BytesN<32>) -> String {
        self.ids.get(&id.to_array()).cloned().unwrap_or_else(|| hex32(id))
    }

    /// the address behind a model name; registries of the "keys" flavour are contracts that
    /// answer `has_claim_topic` with yes, issuers of the "claims" flavour scripted claim issuers
    fn ensure(&mut self, name: &str) -> Address {
        if !self.pool.has(name) {
            let a = if self.fl == "keys" {
                self.e.register(yesreg_c::YesRegistry, ())
            } else if self.fl == "claims" {
                self.e.register(issuer_c::ScriptedIssuer, ())
            } else {
                use soroban_sdk::testutils::Address as _;
                Address::generate(&self.e)
            };
            self.pool.put(name, a);
        }
        self.pool.get(name)
    }

    fn reset_event(&self) -> Value {
        json!({"op": {"op": "reset", "a": "none", "b": "none", "c": "none", "xs": [], "n": 0,
                      "flavour": self.fl, "regime": self.regime, "lim": limits(&self.fl)},
               "now": seq(&self.e), "res": "ok", "err": 0, "obs": self.obs()})
    }

    fn obs(&self) -> Value {
        no_auth(&self.e);
        match self.fl.as_str() {
            "keys" => self.obs_keys(),
            "cti" => self.obs_cti(),
            "binder" => self.obs_binder(),
            "docs" => self.obs_docs(),
            "irs" => self.obs_irs(),
            "claims" => self.obs_claims(),
            _ => self.obs_modules(),
        }
    }

    /// deterministic pseudo-random numbers for the sparse probes of the "cap" regimes
    fn prn(&self, k: u64, modulus: u64) -> u64 {
        let mut x = self.step_no.wrapping_mul(0x9E37_79B9_7F4A_7C15).wrapping_add(k.wrapping_mul(0xBF58_476D_1CE4_E5B9));
        x ^= x >> 31;
        x = x.wrapping_mul(0x94D0_49BB_1331_11EB);
        x ^= x >> 29;
        x % modulus.max(1)
    }
}

// ---------------------------------------------------------------------------------------------
// observations: every public getter, for the whole universe
// ---------------------------------------------------------------------------------------------

fn listed(ok: bool, v: Vec<String>) -> Value {
    json!({"ok": ok, "v": v})
}

impl Sys {
    fn obs_keys(&self) -> Value {
        let e = &self.e;
        let cl = keys_c::KeyRegClient::new(e, &self.c);
        let (mut kft, mut regs, mut kt, mut kr) = (JMap::new(), JMap::new(), JMap::new(), JMap::new());
        for t in &self.u2 {
            let r = match cl.try_get_keys_for_topic(&num(t)) {
                Ok(Ok(v)) => listed(true, v.iter().map(|k| key_name(&k)).collect()),
                _ => listed(false, vec![]),
            };
            kft.insert(t.clone(), r);
        }
        for k in &self.u1 {
            let (pk, scheme) = key_of(e, k);
            let r = match cl.try_get_registries(&SigningKey { public_key: pk.clone(), scheme }) {
                Ok(Ok(v)) => listed(true, v.iter().map(|a| self.pool.name(&a)).collect()),
                _ => listed(false, vec![]),
            };
            regs.insert(k.clone(), r);
            let ts: Vec<&String> = self
                .u2
                .iter()
                .filter(|t| matches!(cl.try_is_key_allowed_for_topic(&pk, &scheme, &num(t)), Ok(Ok(true))))
                .collect();
            kt.insert(k.clone(), json!(ts));
            let rs: Vec<&String> = self
                .u3
                .iter()
                .filter(|r| matches!(cl.try_is_key_allowed_for_registry(&pk, &scheme, &self.pool.get(r)), Ok(Ok(true))))
                .collect();
            kr.insert(k.clone(), json!(rs));
        }
        json!({"full": true, "kft": kft, "regs": regs, "kt": kt, "kr": kr})
    }

    fn obs_cti(&self) -> Value {
        let e = &self.e;
        let cl = cti_c::CtiRegClient::new(e, &self.c);
        let tname = |t: u32| format!("t{t}");
        let topics: Vec<String> = match cl.try_get_claim_topics() {
            Ok(Ok(v)) => v.iter().map(tname).collect(),
            _ => vec!["?".into()],
        };
        let issuers: Vec<String> = match cl.try_get_trusted_issuers() {
            Ok(Ok(v)) => v.iter().map(|a| self.pool.name(&a)).collect(),
            _ => vec!["?".into()],
        };
        let (mut ti, mut it, mut has) = (JMap::new(), JMap::new(), JMap::new());
        for t in &self.u1 {
            let r = match cl.try_get_claim_topic_issuers(&num(t)) {
                Ok(Ok(v)) => listed(true, v.iter().map(|a| self.pool.name(&a)).collect()),
                _ => listed(false, vec![]),
            };
            ti.insert(t.clone(), r);
        }
        let mut trusted = Vec::new();
        for i in &self.u2 {
            let a = self.pool.get(i);
            let r = match cl.try_get_trusted_issuer_claim_topics(&a) {
                Ok(Ok(v)) => listed(true, v.iter().map(tname).collect()),
                _ => listed(false, vec![]),
            };
            it.insert(i.clone(), r);
            if matches!(cl.try_is_trusted_issuer(&a), Ok(Ok(true))) {
                trusted.push(i.clone());
            }
            let (mut yes, mut err) = (Vec::new(), Vec::new());
            for t in &self.u1 {
                match cl.try_has_claim_topic(&a, &num(t)) {
                    Ok(Ok(true)) => yes.push(t.clone()),
                    Ok(Ok(false)) => {}
                    _ => err.push(t.clone()),
                }
            }
            has.insert(i.clone(), json!({"yes": yes, "err": err}));
        }
        let map = match cl.try_get_claim_topics_and_issuers() {
            Ok(Ok(m)) => {
                let v: Vec<Value> = m
                    .iter()
                    .map(|(t, l)| json!({"t": tname(t), "v": l.iter().map(|a| self.pool.name(&a)).collect::<Vec<_>>()}))
                    .collect();
                json!({"ok": true, "v": v})
            }
            _ => json!({"ok": false, "v": []}),
        };
        json!({"full": true, "topics": topics, "issuers": issuers, "ti": ti, "it": it, "map": map,
               "trusted": trusted, "has": has})
    }
}

impl Sys {
    fn obs_binder(&self) -> Value {
        let e = &self.e;
        let cl = binder_c::BinderClient::new(e, &self.c);
        let toks: Vec<String> = match cl.try_linked_tokens() {
            Ok(Ok(v)) => v.iter().map(|a| self.pool.name(&a)).collect(),
            _ => vec!["?".into()],
        };
        let n = toks.len() as u32;
        let bs = binder_lib::BUCKET_SIZE;
        // probed tokens and indices: everything, or (regime "cap") a sample around the interesting places
        let (ks, is): (Vec<String>, Vec<u32>) = if self.full {
            (self.u1.clone(), (0..=n).collect())
        } else {
            let mut ks: BTreeSet<String> = BTreeSet::new();
            let mut is: BTreeSet<u32> = [0, bs - 1, bs, n.saturating_sub(1), n, n + 1].into_iter().collect();
            for j in 0..3u64 {
                is.insert(self.prn(j, n as u64 + 2) as u32);
                ks.insert(self.u1[self.prn(10 + j, self.u1.len() as u64) as usize].clone());
            }
            for i in is.iter() {
                if let Some(t) = toks.get(*i as usize) {
                    ks.insert(t.clone());
                }
            }
            ks.insert(self.u1[self.u1.len() - 1].clone());
            ks.remove("?");
            (ks.into_iter().collect(), is.into_iter().collect())
        };
        let mut isb = Vec::new();
        let mut idx = Vec::new();
        for k in &ks {
            let a = self.pool.get(k);
            isb.push(json!({"k": k, "v": matches!(cl.try_is_token_bound(&a), Ok(Ok(true)))}));
            let i: i64 = match cl.try_get_token_index(&a) {
                Ok(Ok(i)) => (i as i64).min(1 << 30),
                _ => -1,
            };
            idx.push(json!({"k": k, "v": i}));
        }
        let at: Vec<Value> = is
            .iter()
            .map(|i| {
                let v = match cl.try_get_token_by_index(i) {
                    Ok(Ok(a)) => self.pool.name(&a),
                    _ => "none".to_string(),
                };
                json!({"i": i, "v": v})
            })
            .collect();
        json!({"full": self.full, "tokens": toks, "isb": isb, "idx": idx, "at": at})
    }

    fn obs_docs(&self) -> Value {
        let e = &self.e;
        let cl = docs_c::DocsClient::new(e, &self.c);
        let count: u32 = match cl.try_get_document_count() {
            Ok(Ok(n)) => n.min(1 << 30),
            _ => 1 << 30,
        };
        let bs = docs_lib::BUCKET_SIZE;
        let n = count.min(docs_lib::MAX_DOCUMENTS + 100);
        let (ks, is, bks): (Vec<String>, Vec<u32>, Vec<u32>) = if self.full {
            (self.u1.clone(), (0..=n).collect(), (0..=(n / bs) + 1).collect())
        } else {
            let is: BTreeSet<u32> =
                [0, n.saturating_sub(1), n, self.prn(1, n as u64 + 1) as u32].into_iter().collect();
            let ks: BTreeSet<String> = (0..3u64)
                .map(|j| self.u1[self.prn(10 + j, (n as u64 + 4).min(self.u1.len() as u64)) as usize].clone())
                .collect();
            let bks = if self.step_no % 10 == 0 { vec![n.saturating_sub(1) / bs, n / bs + 1] } else { vec![] };
            (ks.into_iter().collect(), is.into_iter().collect(), bks)
        };
        let byname: Vec<Value> = ks
            .iter()
            .map(|k| match cl.try_get_document(&doc_name(e, k)) {
                Ok(Ok(d)) => json!({"k": k, "ok": true, "d": doc_json(&d)}),
                _ => json!({"k": k, "ok": false, "d": no_doc()}),
            })
            .collect();
        let at: Vec<Value> = is
            .iter()
            .map(|i| match cl.try_get_document_by_index(i) {
                Ok(Ok((name, d))) => json!({"i": i, "ok": true, "k": doc_name_back(&name), "d": doc_json(&d)}),
                _ => json!({"i": i, "ok": false, "k": "none", "d": no_doc()}),
            })
            .collect();
        let buckets: Vec<Value> = bks
            .iter()
            .map(|b| {
                let v: Vec<Value> = match cl.try_get_documents(b) {
                    Ok(Ok(v)) => v.iter().map(|(name, d)| json!({"k": doc_name_back(&name), "d": doc_json(&d)})).collect(),
                    _ => vec![json!({"k": "?", "d": no_doc()})],
                };
                json!({"b": b, "v": v})
            })
            .collect();
        json!({"full": self.full, "count": count, "byname": byname, "at": at, "buckets": buckets})
    }

    fn obs_irs(&self) -> Value {
        let e = &self.e;
        let cl = irs_c::IrsClient::new(e, &self.c);
        let (mut ident, mut prof, mut entries, mut cd, mut rec) =
            (JMap::new(), JMap::new(), JMap::new(), JMap::new(), JMap::new());
        for a in &self.u1 {
            let addr = self.pool.get(a);
            ident.insert(a.clone(), json!(match cl.try_stored_identity(&addr) {
                Ok(Ok(i)) => self.pool.name(&i),
                _ => "none".to_string(),
            }));
            prof.insert(a.clone(), match cl.try_get_identity_profile(&addr) {
                Ok(Ok(p)) => json!({"ok": true, "type": ty_name(&p.identity_type),
                                    "cs": p.countries.iter().map(|c| country_name(e, &c)).collect::<Vec<_>>()}),
                _ => json!({"ok": false, "type": "none", "cs": []}),
            });
            let es: Vec<String> = match cl.try_get_country_data_entries(&addr) {
                Ok(Ok(v)) => v.iter().map(|c| country_name(e, &c)).collect(),
                _ => vec!["?".into()],
            };
            let probes: Vec<Value> = (0..=es.len() as u32)
                .map(|i| match cl.try_get_country_data(&addr, &i) {
                    Ok(Ok(c)) => json!({"ok": true, "c": country_name(e, &c)}),
                    _ => json!({"ok": false, "c": "none"}),
                })
                .collect();
            entries.insert(a.clone(), json!(es));
            cd.insert(a.clone(), json!(probes));
            rec.insert(a.clone(), json!(match cl.try_get_recovered_to(&addr) {
                Ok(Ok(Some(x))) => self.pool.name(&x),
                Ok(Ok(None)) => "none".to_string(),
                _ => "?".to_string(),
            }));
        }
        json!({"full": true, "ident": ident, "prof": prof, "entries": entries, "cd": cd, "rec": rec})
    }

    fn obs_modules(&self) -> Value {
        let e = &self.e;
        let cl = modules_c::ModulesClient::new(e, &self.c);
        let (mut mods, mut reg) = (JMap::new(), JMap::new());
        for h in &self.u1 {
            let l: Vec<String> = match cl.try_get_modules_for_hook(&hook_of(h)) {
                Ok(Ok(v)) => v.iter().map(|a| self.pool.name(&a)).collect(),
                _ => vec!["?".into()],
            };
            mods.insert(h.clone(), json!(l));
            let r: Vec<&String> = self
                .u2
                .iter()
                .filter(|m| matches!(cl.try_is_module_registered(&hook_of(h), &self.pool.get(m)), Ok(Ok(true))))
                .collect();
            reg.insert(h.clone(), json!(r));
        }
        json!({"full": true, "mods": mods, "reg": reg})
    }
}

fn no_claim(t: &str, i: &str, id: String) -> Value {
    json!({"t": t, "i": i, "id": id, "ok": false, "topic": "none", "issuer": "none", "data": "none", "scheme": 0,
           "uri": "none", "sig": "none"})
}

impl Sys {
    fn topic_name(&self, t: u32) -> String {
        self.u1.iter().find(|n| ctopic(n) == t).cloned().unwrap_or_else(|| "?".to_string())
    }

    fn claim_json(&self, t: &str, i: &str, id: String, c: &Claim) -> Value {
        json!({"t": t, "i": i, "id": id, "ok": true, "topic": self.topic_name(c.topic), "issuer": self.pool.name(&c.issuer),
               "data": cdata_name(&c.data), "scheme": c.scheme.min(1 << 30), "uri": curi_name(&c.uri),
               "sig": csig_name(&c.signature)})
    }

    /// generate_claim_id and get_claim for every (topic, issuer), get_claim_ids_by_topic for every topic
    fn obs_claims(&self) -> Value {
        let e = &self.e;
        let cl = claims_c::ClaimsClient::new(e, &self.c);
        let mut claim = Vec::new();
        let mut byt = JMap::new();
        for t in &self.u1 {
            for i in &self.u2 {
                let p = match cl.try_generate_claim_id(&self.pool.get(i), &ctopic(t)) {
                    Ok(Ok(id)) => match cl.try_get_claim(&id) {
                        Ok(Ok(c)) => self.claim_json(t, i, self.id_name(&id), &c),
                        _ => no_claim(t, i, self.id_name(&id)),
                    },
                    _ => no_claim(t, i, "?".to_string()),
                };
                claim.push(p);
            }
            let l: Vec<String> = match cl.try_get_claim_ids_by_topic(&ctopic(t)) {
                Ok(Ok(v)) => v.iter().map(|id| self.id_name(&id)).collect(),
                _ => vec!["?".into()],
            };
            byt.insert(t.clone(), json!(l));
        }
        json!({"full": true, "claim": claim, "byt": byt})
    }
}

// ---------------------------------------------------------------------------------------------
// calls
// ---------------------------------------------------------------------------------------------

impl Sys {
    fn step(&mut self, op: &Value) -> Value {
        self.step_no += 1;
        let e = self.e.clone();
        let e = &e;
        no_auth(e);
        let kind = s(op, "op");
        let (a, b, c) = (s(op, "a").to_string(), s(op, "b").to_string(), s(op, "c").to_string());
        let xs = strs(op, "xs");
        let nn = n(op, "n").clamp(0, u32::MAX as i64) as u32;
        let mut ret = "none".to_string();
        let (res, code) = match kind {
            // ---- keys: a = key, b = topic, c = registry
            "allow" | "remove" => {
                let cl = keys_c::KeyRegClient::new(e, &self.c);
                let (pk, scheme) = key_of(e, &a);
                let reg = self.ensure(&c);
                no_auth(e);
                if kind == "allow" {
                    res_of(&cl.try_allow_key(&pk, &reg, &scheme, &num(&b)))
                } else {
                    res_of(&cl.try_remove_key(&pk, &reg, &scheme, &num(&b)))
                }
            }
            // ---- cti: a = topic | issuer, xs = topics
            "add_topic" => res_of(&cti_c::CtiRegClient::new(e, &self.c).try_add_claim_topic(&num(&a))),
            "remove_topic" => res_of(&cti_c::CtiRegClient::new(e, &self.c).try_remove_claim_topic(&num(&a))),
            "add_issuer" | "update_issuer" | "remove_issuer" => {
                let cl = cti_c::CtiRegClient::new(e, &self.c);
                let i = self.ensure(&a);
                let mut ts: SVec<u32> = SVec::new(e);
                for t in &xs {
                    ts.push_back(num(t));
                }
                match kind {
                    "add_issuer" => res_of(&cl.try_add_trusted_issuer(&i, &ts)),
                    "update_issuer" => res_of(&cl.try_update_issuer_claim_topics(&i, &ts)),
                    _ => res_of(&cl.try_remove_trusted_issuer(&i)),
                }
            }
            // ---- binder: a = token, xs = tokens
            "bind" => {
                let t = self.ensure(&a);
                res_of(&binder_c::BinderClient::new(e, &self.c).try_bind_token(&t))
            }
            "unbind" => {
                let t = self.ensure(&a);
                res_of(&binder_c::BinderClient::new(e, &self.c).try_unbind_token(&t))
            }
            "bind_batch" => {
                let mut ts: SVec<Address> = SVec::new(e);
                for t in &xs {
                    ts.push_back(self.ensure(t));
                }
                res_of(&binder_c::BinderClient::new(e, &self.c).try_bind_tokens(&ts))
            }
            // ---- docs: a = name, b = uri, c = hash, n = ledger timestamp of the call
            "set_doc" => {
                use soroban_sdk::testutils::Ledger as _;
                e.ledger().with_mut(|l| l.timestamp = nn as u64);
                res_of(&docs_c::DocsClient::new(e, &self.c).try_set_document(&doc_name(e, &a), &uri_of(e, &b), &hash_of(e, &c)))
            }
            "remove_doc" => res_of(&docs_c::DocsClient::new(e, &self.c).try_remove_document(&doc_name(e, &a))),
            // ---- irs: a = account, b = identity | new account | country, c = type, xs = countries, n = index
            "add_identity" | "add_countries" => {
                let cl = irs_c::IrsClient::new(e, &self.c);
                let acct = self.ensure(&a);
                let mut cs: SVec<CountryData> = SVec::new(e);
                for x in &xs {
                    cs.push_back(country(e, x));
                }
                if kind == "add_identity" {
                    let id = self.ensure(&b);
                    res_of(&cl.try_add_identity(&acct, &id, &ty_of(&c), &cs))
                } else {
                    res_of(&cl.try_add_country_data_entries(&acct, &cs))
                }
            }
            "modify_identity" => {
                let (acct, id) = (self.ensure(&a), self.ensure(&b));
                res_of(&irs_c::IrsClient::new(e, &self.c).try_modify_identity(&acct, &id))
            }
            "remove_identity" => {
                let acct = self.ensure(&a);
                res_of(&irs_c::IrsClient::new(e, &self.c).try_remove_identity(&acct))
            }
            "recover" => {
                let (old, new) = (self.ensure(&a), self.ensure(&b));
                res_of(&irs_c::IrsClient::new(e, &self.c).try_recover_identity(&old, &new))
            }
            "modify_country" => {
                let acct = self.ensure(&a);
                res_of(&irs_c::IrsClient::new(e, &self.c).try_modify_country_data(&acct, &nn, &country(e, &b)))
            }
            "delete_country" => {
                let acct = self.ensure(&a);
                res_of(&irs_c::IrsClient::new(e, &self.c).try_delete_country_data(&acct, &nn))
            }
            // ---- modules: a = hook, b = module
            "add_module" => {
                let m = self.ensure(&b);
                res_of(&modules_c::ModulesClient::new(e, &self.c).try_add_module_to(&hook_of(&a), &m))
            }
            "remove_module" => {
                let m = self.ensure(&b);
                res_of(&modules_c::ModulesClient::new(e, &self.c).try_remove_module_from(&hook_of(&a), &m))
            }
            // ---- claims: a = topic, b = issuer, c = data, n = scheme, xs = [uri, signature]
            "add_claim" | "add_invalid" => {
                let cl = claims_c::ClaimsClient::new(e, &self.c);
                let issuer = self.ensure(&b);
                let (uri, sig) = (xs.first().cloned().unwrap_or_default(), xs.get(1).cloned().unwrap_or_default());
                let script = issuer_c::ScriptedIssuerClient::new(e, &issuer);
                if kind == "add_invalid" {
                    script.set_reject(&true);
                }
                no_auth(e);
                let r = cl.try_add_claim(&ctopic(&a), &nn, &issuer, &csig(e, &sig), &cdata(e, &c), &curi(e, &uri));
                if let Ok(Ok(id)) = &r {
                    ret = self.id_name(id);
                }
                if kind == "add_invalid" {
                    script.set_reject(&false);
                }
                res_of(&r)
            }
            "remove_claim" => {
                let cl = claims_c::ClaimsClient::new(e, &self.c);
                let issuer = self.ensure(&b);
                match cl.try_generate_claim_id(&issuer, &ctopic(&a)) {
                    Ok(Ok(id)) => res_of(&cl.try_remove_claim(&id)),
                    _ => ("fail", -4),
                }
            }
            k => panic!("op {k}"),
        };
        json!({"op": op, "now": seq(e), "res": res, "ret": ret, "err": code, "obs": self.obs()})
    }
}

// ---------------------------------------------------------------------------------------------
// random driver with state feedback (the shadow state only steers the choice of calls; TLC judges)
// ---------------------------------------------------------------------------------------------

fn mk(kind: &str, a: &str, b: &str, c: &str, xs: &[String], n: i64) -> Value {
    json!({"op": kind, "a": a, "b": b, "c": c, "xs": xs, "n": n})
}

#[derive(Default)]
struct Shadow {
    triples: BTreeSet<(String, String, String)>,
    topics: BTreeSet<String>,
    issuers: BTreeMap<String, Vec<String>>,
    set: BTreeSet<String>,
    /// enumeration order as last observed (binder: linked_tokens, docs: names by index)
    order: Vec<String>,
    ident: BTreeMap<String, usize>, // account -> number of country entries
    recovered: BTreeSet<String>,
    mods: BTreeSet<(String, String)>,
    /// claims: live (topic, issuer) pairs, the ids of each topic in the order last listed, and the
    /// number of live claims at which the current growing phase ends
    claims: BTreeSet<(String, String)>,
    byt: BTreeMap<String, Vec<String>>,
    target: usize,
    /// growing (add-heavy) or shrinking (remove-heavy) phase, and how long it still lasts
    grow: bool,
    left: usize,
    refused_adds: usize,
}

impl Shadow {
    fn apply(&mut self, op: &Value, ev: &Value) {
        let ok = ev["res"] == "ok";
        let kind = s(op, "op");
        let (a, b, c) = (s(op, "a").to_string(), s(op, "b").to_string(), s(op, "c").to_string());
        let xs = strs(op, "xs");
        let is_add = matches!(kind, "allow" | "add_topic" | "add_issuer" | "bind" | "bind_batch" | "set_doc" | "add_module" | "add_countries");
        if !ok {
            if is_add {
                self.refused_adds += 1;
            }
        } else {
            match kind {
                "allow" => drop(self.triples.insert((a, b, c))),
                "remove" => drop(self.triples.remove(&(a, b, c))),
                "add_topic" => drop(self.topics.insert(a)),
                "remove_topic" => {
                    self.topics.remove(&a);
                    for v in self.issuers.values_mut() {
                        v.retain(|t| *t != a);
                    }
                }
                "add_issuer" | "update_issuer" => drop(self.issuers.insert(a, xs)),
                "remove_issuer" => drop(self.issuers.remove(&a)),
                "bind" | "set_doc" => drop(self.set.insert(a)),
                "unbind" | "remove_doc" => drop(self.set.remove(&a)),
                "bind_batch" => self.set.extend(xs),
                "add_identity" => drop(self.ident.insert(a, xs.len())),
                "remove_identity" => drop(self.ident.remove(&a)),
                "recover" => {
                    if let Some(k) = self.ident.remove(&a) {
                        self.ident.insert(b, k);
                    }
                    self.recovered.insert(a);
                }
                "add_countries" => *self.ident.entry(a).or_default() += xs.len(),
                "delete_country" => {
                    if let Some(k) = self.ident.get_mut(&a) {
                        *k = k.saturating_sub(1)
                    }
                }
                "add_module" => drop(self.mods.insert((a, b))),
                "remove_module" => drop(self.mods.remove(&(a, b))),
                "add_claim" => drop(self.claims.insert((a, b))),
                "remove_claim" => drop(self.claims.remove(&(a, b))),
                _ => {}
            }
        }
        // enumeration order, where the registry has one
        let obs = &ev["obs"];
        if let Some(l) = obs.get("tokens").and_then(|v| v.as_array()) {
            self.order = l.iter().map(|x| x.as_str().unwrap_or("?").to_string()).collect();
        } else if let Some(l) = obs.get("at").and_then(|v| v.as_array()) {
            if obs["full"] == true {
                self.order = l.iter().filter(|p| p["ok"] == true).map(|p| p["k"].as_str().unwrap_or("?").to_string()).collect();
            }
        }
        if let Some(m) = obs.get("byt").and_then(|v| v.as_object()) {
            self.byt = m
                .iter()
                .map(|(t, l)| (t.clone(), l.as_array().map(|l| l.iter().map(|x| x.as_str().unwrap_or("?").to_string()).collect()).unwrap_or_default()))
                .collect();
        }
        if self.left > 0 {
            self.left -= 1;
        }
    }
}

fn pick_s(r: &mut StdRng, xs: &[String]) -> String {
    if xs.is_empty() {
        "none".to_string()
    } else {
        xs[r.gen_range(0..xs.len())].clone()
    }
}

/// an element of `xs` for which `fresh` holds (a few tries), else any element
fn pick_where(r: &mut StdRng, xs: &[String], fresh: &dyn Fn(&String) -> bool) -> String {
    for _ in 0..24 {
        let x = pick_s(r, xs);
        if fresh(&x) {
            return x;
        }
    }
    xs.iter().find(|x| fresh(x)).cloned().unwrap_or_else(|| pick_s(r, xs))
}

/// an element near an interesting position of the enumeration: first, last, around bucket boundaries
fn pick_edge(r: &mut StdRng, order: &[String], bucket: usize) -> String {
    if order.is_empty() {
        return "none".to_string();
    }
    let n = order.len();
    let mut cands = vec![0, n - 1, n.saturating_sub(2), r.gen_range(0..n)];
    let mut k = bucket;
    while k <= n {
        cands.push(k - 1);
        if k < n {
            cands.push(k);
        }
        k += bucket;
    }
    order[*pick(r, &cands)].clone()
}

fn gen_keys(r: &mut StdRng, sys: &Sys, sh: &Shadow) -> Value {
    // the part of the universe a regime concentrates on: one topic ("kpt") or one key ("rpk")
    let key = |r: &mut StdRng| if sys.regime == "rpk" && r.gen_bool(0.85) { "k1".to_string() } else { pick_s(r, &sys.u1) };
    let topic = |r: &mut StdRng| if sys.regime == "kpt" && r.gen_bool(0.9) { "t1".to_string() } else { pick_s(r, &sys.u2) };
    let existing: Vec<&(String, String, String)> = sh.triples.iter().collect();
    let roll = r.gen_range(0..100);
    let (p_new, p_dup, p_rem) = if sh.grow { (78, 85, 95) } else { (15, 22, 90) };
    if roll < p_new || existing.is_empty() {
        // a new triple; in "kpt" preferably a key that the topic does not list yet
        for _ in 0..40 {
            let (k, t, g) = (key(r), topic(r), pick_s(r, &sys.u3));
            let key_in_topic = sh.triples.iter().any(|x| x.0 == k && x.1 == t);
            if !sh.triples.contains(&(k.clone(), t.clone(), g.clone())) && !(sys.regime == "kpt" && key_in_topic && r.gen_bool(0.8)) {
                return mk("allow", &k, &t, &g, &[], 0);
            }
        }
        mk("allow", &key(r), &topic(r), &pick_s(r, &sys.u3), &[], 0)
    } else if roll < p_dup {
        let x = existing[r.gen_range(0..existing.len())];
        mk("allow", &x.0, &x.1, &x.2, &[], 0)
    } else if roll < p_rem {
        let x = existing[r.gen_range(0..existing.len())];
        mk("remove", &x.0, &x.1, &x.2, &[], 0)
    } else {
        mk("remove", &key(r), &topic(r), &pick_s(r, &sys.u3), &[], 0)
    }
}

fn gen_cti(r: &mut StdRng, sys: &Sys, sh: &Shadow) -> Value {
    let have_t: Vec<String> = sh.topics.iter().cloned().collect();
    let have_i: Vec<String> = sh.issuers.keys().cloned().collect();
    // a topic list for add / update: mostly existing distinct topics, sometimes a stranger, a duplicate, nothing
    let topic_list = |r: &mut StdRng| -> Vec<String> {
        let mut v: Vec<String> = Vec::new();
        let k = *pick(r, &[1usize, 1, 2, 2, 3, 5]);
        for _ in 0..k {
            let t = if r.gen_bool(0.92) && !have_t.is_empty() { pick_s(r, &have_t) } else { pick_s(r, &sys.u1) };
            if !v.contains(&t) || r.gen_bool(0.06) {
                v.push(t);
            }
        }
        if r.gen_bool(0.04) {
            v.clear();
        }
        v
    };
    let roll = r.gen_range(0..100);
    let fresh_topic = sys.u1.iter().any(|t| !sh.topics.contains(t));
    let want_topics = have_t.len() < 2 || (sys.regime == "topics" && r.gen_bool(0.6));
    if sh.grow {
        if fresh_topic && (roll < if sys.regime == "issuers" || sys.regime == "dense" { 8 } else { 30 } || want_topics) {
            mk("add_topic", &pick_where(r, &sys.u1, &|t| !sh.topics.contains(t)), "none", "none", &[], 0)
        } else if roll < 72 {
            mk("add_issuer", &pick_where(r, &sys.u2, &|i| !sh.issuers.contains_key(i)), "none", "none", &topic_list(r), 0)
        } else if roll < 82 {
            mk("update_issuer", &if r.gen_bool(0.9) { pick_s(r, &have_i) } else { pick_s(r, &sys.u2) }, "none", "none", &topic_list(r), 0)
        } else if roll < 86 {
            mk("add_topic", &pick_s(r, &sys.u1), "none", "none", &[], 0)
        } else if roll < 90 {
            mk("add_issuer", &pick_s(r, &sys.u2), "none", "none", &topic_list(r), 0)
        } else if roll < 95 {
            mk("remove_issuer", &pick_s(r, &sys.u2), "none", "none", &[], 0)
        } else {
            mk("remove_topic", &pick_s(r, &sys.u1), "none", "none", &[], 0)
        }
    } else if roll < 40 {
        mk("remove_issuer", &if r.gen_bool(0.85) { pick_s(r, &have_i) } else { pick_s(r, &sys.u2) }, "none", "none", &[], 0)
    } else if roll < 70 {
        mk("remove_topic", &if r.gen_bool(0.85) { pick_s(r, &have_t) } else { pick_s(r, &sys.u1) }, "none", "none", &[], 0)
    } else if roll < 85 {
        mk("update_issuer", &pick_s(r, &have_i), "none", "none", &topic_list(r), 0)
    } else if roll < 93 {
        mk("add_issuer", &pick_s(r, &sys.u2), "none", "none", &topic_list(r), 0)
    } else {
        mk("add_topic", &pick_s(r, &sys.u1), "none", "none", &[], 0)
    }
}

fn gen_modules(r: &mut StdRng, sys: &Sys, sh: &Shadow) -> Value {
    let hook = |r: &mut StdRng| if sys.regime == "cap" && r.gen_bool(0.85) { "Created".to_string() } else { pick_s(r, &sys.u1) };
    let existing: Vec<&(String, String)> = sh.mods.iter().collect();
    let roll = r.gen_range(0..100);
    let (p_new, p_dup, p_rem) = if sh.grow { (76, 84, 95) } else { (15, 22, 90) };
    if roll < p_new || existing.is_empty() {
        let h = hook(r);
        let m = pick_where(r, &sys.u2, &|m| !sh.mods.contains(&(h.clone(), m.clone())));
        mk("add_module", &h, &m, "none", &[], 0)
    } else if roll < p_dup {
        let x = existing[r.gen_range(0..existing.len())];
        mk("add_module", &x.0, &x.1, "none", &[], 0)
    } else if roll < p_rem {
        let x = existing[r.gen_range(0..existing.len())];
        mk("remove_module", &x.0, &x.1, "none", &[], 0)
    } else {
        mk("remove_module", &hook(r), &pick_s(r, &sys.u2), "none", &[], 0)
    }
}

fn gen_claims(r: &mut StdRng, sys: &Sys, sh: &Shadow) -> Value {
    // regime "list" keeps most of the traffic on one topic, so that its id list grows long
    let topic = |r: &mut StdRng| if sys.regime == "list" && r.gen_bool(0.8) { "t1".to_string() } else { pick_s(r, &sys.u1) };
    let payload = |r: &mut StdRng| -> (String, Vec<String>, i64) {
        let d = format!("d{}", r.gen_range(0..5));
        let xs = vec![format!("u{}", r.gen_range(1..4)), format!("s{}", r.gen_range(1..4))];
        (d, xs, *pick(r, &[101i64, 102, 103, 0, 7]))
    };
    // a live claim: by position in its topic's id list (first, last, next to last, anywhere)
    let live = |r: &mut StdRng| -> Option<(String, String)> {
        let t = topic(r);
        let order = sh.byt.get(&t).filter(|l| !l.is_empty()).or_else(|| sh.byt.values().find(|l| !l.is_empty()))?;
        let id = pick_edge(r, order, usize::MAX / 2);
        id.split_once('/').map(|(t, i)| (t.to_string(), i.to_string()))
    };
    let absent = |r: &mut StdRng| -> (String, String) {
        let t = topic(r);
        let i = pick_where(r, &sys.u2, &|i| !sh.claims.contains(&(t.clone(), i.clone())));
        (t, i)
    };
    let add = |kind: &str, r: &mut StdRng, (t, i): (String, String)| {
        let (d, xs, sch) = payload(r);
        mk(kind, &t, &i, &d, &xs, sch)
    };
    let roll = r.gen_range(0..100);
    let (p_new, p_over, p_rem, p_gone) = if sh.grow { (48, 68, 80, 88) } else { (8, 18, 78, 88) };
    if roll < p_new {
        let x = absent(r);
        add("add_claim", r, x)
    } else if roll < p_over {
        let x = live(r).unwrap_or_else(|| absent(r));
        add("add_claim", r, x)
    } else if roll < p_rem {
        let (t, i) = live(r).unwrap_or_else(|| absent(r));
        mk("remove_claim", &t, &i, "none", &[], 0)
    } else if roll < p_gone {
        let (t, i) = absent(r);
        mk("remove_claim", &t, &i, "none", &[], 0)
    } else {
        // the issuer rejects: a new claim or an overwrite
        let x = if r.gen_bool(0.5) { live(r).unwrap_or_else(|| absent(r)) } else { absent(r) };
        add("add_invalid", r, x)
    }
}

/// the first `k` tokens / names of the universe that are not in the registry
fn fresh_of(sys: &Sys, sh: &Shadow, k: usize, from: usize) -> Vec<String> {
    let n = sys.u1.len();
    (0..n).map(|j| &sys.u1[(from + j) % n]).filter(|t| !sh.set.contains(*t)).take(k).cloned().collect()
}

fn gen_binder(r: &mut StdRng, sys: &Sys, sh: &Shadow) -> Value {
    let bs = binder_lib::BUCKET_SIZE as usize;
    let count = sh.set.len();
    let roll = r.gen_range(0..100);
    let (p_bind, p_batch, p_dup, p_unb) = if sh.grow { (25, 62, 67, 93) } else { (8, 13, 17, 92) };
    let from = r.gen_range(0..sys.u1.len());
    if roll < p_bind {
        mk("bind", &fresh_of(sys, sh, 1, from).first().cloned().unwrap_or_else(|| pick_s(r, &sys.u1)), "none", "none", &[], 0)
    } else if roll < p_batch {
        // sizes that end just before, at and just after the next bucket boundary, and the batch limit +- 1
        let to_edge = bs - count % bs;
        let size = if sys.regime == "small" {
            *pick(r, &[0usize, 1, 2, 2, 3, 4])
        } else {
            *pick(r, &[1usize, 2, 37, to_edge - 1, to_edge, to_edge + 1, to_edge + bs, bs, 2 * bs - 1, 2 * bs, 2 * bs + 1])
        };
        let mut xs = fresh_of(sys, sh, size, from);
        let tail0 = &sh.order[count - count % bs..];
        if xs.len() > to_edge && !tail0.is_empty() && r.gen_bool(0.3) {
            // a batch that spills into the next bucket names, at or after the spill point, a token that sits in the
            // partially filled bucket it started in
            let n = xs.len();
            let j = *pick(r, &[to_edge.min(n - 1), (to_edge + 1).min(n - 1), n - 1]);
            xs[j] = pick_s(r, tail0);
        } else if r.gen_bool(0.2) && !xs.is_empty() {
            // spoil it: a duplicate inside the batch, or a token that is already bound (in the partially filled last
            // bucket, in the first bucket, anywhere), placed first, last, or around the point where the batch spills
            // into the next bucket
            let n = xs.len();
            let anyj = r.gen_range(0..n);
            let j = *pick(r, &[0usize, n - 1, to_edge.saturating_sub(1).min(n - 1), to_edge.min(n - 1), (to_edge + 1).min(n - 1), anyj]);
            xs[j] = if r.gen_bool(0.35) || sh.order.is_empty() {
                xs[if j == 0 { n - 1 } else { 0 }].clone()
            } else {
                let tail = &sh.order[count - count % bs..];
                match r.gen_range(0..3) {
                    0 if !tail.is_empty() => pick_s(r, tail),
                    1 => sh.order[0].clone(),
                    _ => pick_s(r, &sh.order),
                }
            };
        }
        mk("bind_batch", "none", "none", "none", &xs, 0)
    } else if roll < p_dup {
        mk("bind", &pick_s(r, &sh.order), "none", "none", &[], 0)
    } else if roll < p_unb {
        mk("unbind", &pick_edge(r, &sh.order, bs), "none", "none", &[], 0)
    } else {
        mk("unbind", &fresh_of(sys, sh, 1, from).first().cloned().unwrap_or("none".into()), "none", "none", &[], 0)
    }
}

/// regime "cap": fill up to the real MAX_TOKENS with the largest batches, then probe the limit from both sides
fn script_binder_cap(r: &mut StdRng, sys: &Sys, sh: &Shadow, stage: &mut usize) -> Option<Value> {
    let max = binder_lib::MAX_TOKENS as usize;
    let big = 2 * binder_lib::BUCKET_SIZE as usize;
    let count = sh.set.len();
    let batch = |k: usize| mk("bind_batch", "none", "none", "none", &fresh_of(sys, sh, k, 0), 0);
    let one = || fresh_of(sys, sh, 1, 0).first().cloned().unwrap_or("none".into());
    if *stage == 0 {
        if count + 2 * big <= max {
            return Some(batch(big));
        }
        *stage = 1;
    }
    let room = max.saturating_sub(count);
    let op = match *stage {
        1 => batch(big + 1),                                  // larger than a batch may be
        2 => batch(room.saturating_sub(3).min(big)),          // up to three below the limit
        3 => batch(room + 1),                                 // one past the limit
        4 => batch(room),                                     // exactly to the limit
        5 => mk("bind", &one(), "none", "none", &[], 0),      // full: refused
        6 => batch(1),
        7 => mk("bind", &pick_s(r, &sh.order), "none", "none", &[], 0),
        8 => mk("unbind", &sh.order[0].clone(), "none", "none", &[], 0),
        9 => mk("unbind", &sh.order[sh.order.len() - 1].clone(), "none", "none", &[], 0),
        10 => mk("unbind", &pick_edge(r, &sh.order, binder_lib::BUCKET_SIZE as usize), "none", "none", &[], 0),
        11 | 12 => mk("bind", &one(), "none", "none", &[], 0),
        13 => batch(2),                                       // one past the limit again
        14 => batch(1),                                       // exactly to the limit
        15 => mk("bind", &one(), "none", "none", &[], 0),
        16..=27 => gen_binder(r, sys, sh),
        _ => return None,
    };
    *stage += 1;
    Some(op)
}

fn gen_docs(r: &mut StdRng, sys: &Sys, sh: &Shadow, ts: i64) -> Value {
    let bs = docs_lib::BUCKET_SIZE as usize;
    let roll = r.gen_range(0..100);
    let from = r.gen_range(0..sys.u1.len());
    let uri = format!("u{}", r.gen_range(1..4));
    let hash = format!("h{}", r.gen_range(1..4));
    let (p_new, p_upd, p_rem) = if sh.grow { (58, 72, 93) } else { (12, 24, 92) };
    if roll < p_new || sh.order.is_empty() {
        let name = fresh_of(sys, sh, 1, from).first().cloned().unwrap_or_else(|| pick_s(r, &sys.u1));
        mk("set_doc", &name, &uri, &hash, &[], ts)
    } else if roll < p_upd {
        mk("set_doc", &pick_edge(r, &sh.order, bs), &uri, &hash, &[], ts)
    } else if roll < p_rem {
        mk("remove_doc", &pick_edge(r, &sh.order, bs), "none", "none", &[], 0)
    } else {
        mk("remove_doc", &fresh_of(sys, sh, 1, from).first().cloned().unwrap_or("none".into()), "none", "none", &[], 0)
    }
}

/// regime "cap": fill up to the real MAX_DOCUMENTS, then probe the limit from both sides
fn script_docs_cap(r: &mut StdRng, sys: &Sys, sh: &Shadow, stage: &mut usize, ts: i64) -> Option<Value> {
    let max = docs_lib::MAX_DOCUMENTS as usize;
    let new = || mk("set_doc", &fresh_of(sys, sh, 1, 0).first().cloned().unwrap_or("none".into()), "u1", "h1", &[], ts);
    if *stage == 0 {
        if sh.set.len() + 2 < max {
            return Some(new());
        }
        *stage = 1;
    }
    // order is only known from full observations: use the names themselves
    let have: Vec<String> = sh.set.iter().cloned().collect();
    let op = match *stage {
        1 | 2 => new(),                                                    // the last two places
        3 => new(),                                                        // one past the limit
        4 => mk("set_doc", &pick_s(r, &have), "u2", "h2", &[], ts),         // an update is not an addition
        5 => mk("remove_doc", &pick_s(r, &have), "none", "none", &[], 0),
        6 => new(),
        7 => new(),                                                        // refused again
        8 | 9 => mk("remove_doc", &pick_s(r, &have), "none", "none", &[], 0),
        10..=12 => new(),                                                  // the third one is refused
        13 => mk("remove_doc", "n1", "none", "none", &[], 0),
        14 => mk("remove_doc", "n1", "none", "none", &[], 0),
        15..=24 => gen_docs(r, sys, sh, ts),
        _ => return None,
    };
    *stage += 1;
    Some(op)
}

fn gen_irs(r: &mut StdRng, sys: &Sys, sh: &Shadow) -> Value {
    let lim = MAX_COUNTRY_ENTRIES as usize;
    let have: Vec<String> = sh.ident.keys().cloned().collect();
    let free: Vec<String> = sys.u1.iter().filter(|a| !sh.ident.contains_key(*a) && !sh.recovered.contains(*a)).cloned().collect();
    let gone: Vec<String> = sh.recovered.iter().cloned().collect();
    let countries = |r: &mut StdRng, k: usize| -> Vec<String> { (0..k).map(|_| format!("c{}", r.gen_range(1..9))).collect() };
    let ident = |r: &mut StdRng| format!("d{}", r.gen_range(1..4));
    // an account: mostly of the wanted kind, sometimes any
    let acct = |r: &mut StdRng, pref: &[String], p: f64| if !pref.is_empty() && r.gen_bool(p) { pick_s(r, pref) } else { pick_s(r, &sys.u1) };
    match r.gen_range(0..100) {
        0..=24 => {
            // registering: free accounts, now and then a recovered or an occupied one
            let a = match r.gen_range(0..10) {
                0..=5 => acct(r, &free, 0.95),
                6..=7 => acct(r, &gone, 0.95),
                _ => acct(r, &have, 0.9),
            };
            let k = *pick(r, &[1usize, 1, 2, 3, lim - 1, lim, lim + 1, 0]);
            mk("add_identity", &a, &ident(r), if r.gen_bool(0.5) { "ind" } else { "org" }, &countries(r, k), 0)
        }
        25..=32 => mk("modify_identity", &acct(r, &have, 0.85), &ident(r), "none", &[], 0),
        33..=40 => mk("remove_identity", &acct(r, &have, 0.85), "none", "none", &[], 0),
        41..=58 => {
            let new = match r.gen_range(0..10) {
                0..=5 => acct(r, &free, 0.95),
                6..=7 => acct(r, &gone, 0.95),
                _ => acct(r, &have, 0.9),
            };
            mk("recover", &acct(r, &have, 0.85), &new, "none", &[], 0)
        }
        59..=79 => {
            let a = acct(r, &have, 0.9);
            let len = sh.ident.get(&a).copied().unwrap_or(0);
            let room = lim.saturating_sub(len);
            let k = *pick(r, &[1usize, 1, 2, room.saturating_sub(1), room, room + 1, 0]);
            mk("add_countries", &a, "none", "none", &countries(r, k), 0)
        }
        80..=87 => {
            let a = acct(r, &have, 0.9);
            let len = sh.ident.get(&a).copied().unwrap_or(0) as i64;
            let any = r.gen_range(0..(len + 1));
            let i = *pick(r, &[0, 0, len - 1, len, len + 1, any]);
            mk("modify_country", &a, &format!("c{}", r.gen_range(1..9)), "none", &[], i.max(0))
        }
        _ => {
            let a = acct(r, &have, 0.9);
            let len = sh.ident.get(&a).copied().unwrap_or(0) as i64;
            let any = r.gen_range(0..(len + 1));
            let i = *pick(r, &[0, 0, len - 1, len - 1, len, any]);
            mk("delete_country", &a, "none", "none", &[], i.max(0))
        }
    }
}

/// scripted additions that bring a registry close to the limit its regime is about
/// (the random phase that follows then crosses the limit in both directions)
fn prefill(fl: &str, regime: &str, r: &mut StdRng) -> usize {
    match (fl, regime) {
        ("keys", "rpk") => MAX_REGISTRIES_PER_KEY as usize - 2,
        ("keys", "kpt") => MAX_KEYS_PER_TOPIC as usize - 2,
        ("cti", "topics") => MAX_CLAIM_TOPICS as usize - 2,
        ("cti", "issuers") => MAX_ISSUERS as usize + 1, // three topics first
        // three topics, every issuer but the last on all of them, the registry full; then (see drive_run) the last
        // issuer is moved onto all topics: a topic's issuer list as long as the registry allows
        ("cti", "dense") => MAX_ISSUERS as usize + 3,
        ("modules", "cap") => MAX_MODULES as usize - 2,
        // just below / just above the first bucket boundary, or just below the second one
        ("docs", "bucket") => {
            let bs = docs_lib::BUCKET_SIZE as usize;
            *pick(r, &[bs - 2, bs + 2, bs + 2, 2 * bs - 1])
        }
        _ => 0,
    }
}

fn fill_op(r: &mut StdRng, sys: &Sys, sh: &Shadow, ts: i64) -> Value {
    match (sys.fl.as_str(), sys.regime.as_str()) {
        ("keys", "rpk") => {
            for t in &sys.u2 {
                for g in &sys.u3 {
                    if r.gen_bool(0.5) && !sh.triples.contains(&("k1".to_string(), t.clone(), g.clone())) {
                        return mk("allow", "k1", t, g, &[], 0);
                    }
                }
            }
            gen_keys(r, sys, sh)
        }
        ("keys", "kpt") => {
            let k = pick_where(r, &sys.u1, &|k| !sh.triples.iter().any(|x| x.0 == *k && x.1 == "t1"));
            mk("allow", &k, "t1", &pick_s(r, &sys.u3), &[], 0)
        }
        ("cti", "topics") => mk("add_topic", &pick_where(r, &sys.u1, &|t| !sh.topics.contains(t)), "none", "none", &[], 0),
        ("cti", "dense") => {
            if sh.topics.len() < 3 {
                mk("add_topic", &pick_where(r, &sys.u1, &|t| !sh.topics.contains(t)), "none", "none", &[], 0)
            } else {
                let have: Vec<String> = sh.topics.iter().cloned().collect();
                let ts_ = if sh.issuers.len() + 1 < MAX_ISSUERS as usize { have } else { vec![pick_s(r, &have)] };
                mk("add_issuer", &pick_where(r, &sys.u2, &|i| !sh.issuers.contains_key(i)), "none", "none", &ts_, 0)
            }
        }
        ("cti", "issuers") => {
            if sh.topics.len() < 3 {
                mk("add_topic", &pick_where(r, &sys.u1, &|t| !sh.topics.contains(t)), "none", "none", &[], 0)
            } else {
                let have: Vec<String> = sh.topics.iter().cloned().collect();
                let mut ts_: Vec<String> = vec![pick_s(r, &have)];
                let t2 = pick_s(r, &have);
                if !ts_.contains(&t2) {
                    ts_.push(t2);
                }
                mk("add_issuer", &pick_where(r, &sys.u2, &|i| !sh.issuers.contains_key(i)), "none", "none", &ts_, 0)
            }
        }
        ("modules", _) => {
            let m = pick_where(r, &sys.u2, &|m| !sh.mods.contains(&("Created".to_string(), m.clone())));
            mk("add_module", "Created", &m, "none", &[], 0)
        }
        _ => {
            let from = r.gen_range(0..sys.u1.len());
            mk("set_doc", &fresh_of(sys, sh, 1, from)[0], "u1", "h1", &[], ts)
        }
    }
}

/// "none" is the specification's marker for "no element": a generator that found nothing to pick
/// falls back to the first element of the universe instead of creating an element of that name
fn denone(op: &mut Value, sys: &Sys) {
    let kind = s(op, "op").to_string();
    let issuer_op = matches!(kind.as_str(), "add_issuer" | "remove_issuer" | "update_issuer");
    if op["a"] == "none" && kind != "bind_batch" {
        op["a"] = json!(if issuer_op { sys.u2[0].clone() } else { sys.u1[0].clone() });
    }
    if op["b"] == "none" && matches!(kind.as_str(), "allow" | "remove" | "add_module" | "remove_module" | "add_claim" | "add_invalid" | "remove_claim") {
        op["b"] = json!(sys.u2[0].clone());
    }
    if op["b"] == "none" && kind == "recover" {
        op["b"] = json!(sys.u1[0].clone());
    }
    if op["c"] == "none" && matches!(kind.as_str(), "allow" | "remove") {
        op["c"] = json!(sys.u3[0].clone());
    }
}

/// the runs of one driver cycle; the two heavy ones reach 10 000 tokens / 5 000 documents
const CYCLE: [(&str, &str); 18] = [
    ("keys", "small"), ("cti", "small"), ("binder", "small"), ("docs", "small"), ("irs", "small"), ("modules", "small"),
    ("claims", "small"),
    ("keys", "rpk"), ("keys", "kpt"), ("cti", "topics"), ("cti", "issuers"), ("binder", "bucket"), ("docs", "bucket"),
    ("modules", "cap"), ("claims", "list"), ("binder", "cap"), ("docs", "cap"), ("cti", "dense"),
];

/// calls of the random phase of a run: at least `len`, and enough to cross the limit the regime is about
/// a few times in both directions
fn run_len(fl: &str, regime: &str, len: usize) -> usize {
    let need = match (fl, regime) {
        ("keys", "rpk") | ("keys", "kpt") | ("cti", "topics") | ("cti", "issuers") | ("cti", "dense") | ("modules", "cap") => 50,
        ("binder", "bucket") | ("docs", "bucket") => 70,
        ("irs", _) => 70,
        ("claims", "list") => 60,
        (_, "cap") => usize::MAX, // scripted
        _ => 0,
    };
    need.max(len)
}

fn drive_run(r: &mut StdRng, t: &mut Trace, fl: &str, regime: &str, len: usize) {
    let mut sys = Sys::new(fl, regime);
    t.reset(sys.reset_event());
    let mut sh = Shadow { grow: true, ..Default::default() };
    let mut stage = 0usize;
    let fill = prefill(fl, regime, r);
    let total = run_len(fl, regime, len).saturating_add(fill);
    let mut i = 0usize;
    while i < total {
        i += 1;
        let op = match (fl, regime) {
            _ if i <= fill => Some(fill_op(r, &sys, &sh, (i % 1000) as i64)),
            ("binder", "cap") => script_binder_cap(r, &sys, &sh, &mut stage),
            ("docs", "cap") => script_docs_cap(r, &sys, &sh, &mut stage, (i % 1000) as i64),
            // the batch limit from both sides, on an empty registry
            ("binder", "bucket") if i <= 2 => {
                let bs = binder_lib::BUCKET_SIZE as usize;
                let k = if i == 1 { 2 * bs + 1 } else { *pick(r, &[2 * bs, 2 * bs, 2 * bs - 1, bs + 1, bs - 1]) };
                Some(mk("bind_batch", "none", "none", "none", &fresh_of(&sys, &sh, k, 0), 0))
            }
            ("keys", _) => Some(gen_keys(r, &sys, &sh)),
            ("cti", "dense") if i == fill + 1 => {
                let all: Vec<String> = sh.topics.iter().cloned().collect();
                let who = sh.issuers.iter().min_by_key(|x| x.1.len()).map(|x| x.0.clone()).unwrap_or_else(|| sys.u2[0].clone());
                Some(mk("update_issuer", &who, "none", "none", &all, 0))
            }
            ("cti", _) => Some(gen_cti(r, &sys, &sh)),
            ("binder", _) => Some(gen_binder(r, &sys, &sh)),
            ("docs", _) => Some(gen_docs(r, &sys, &sh, (i % 1000) as i64)),
            ("irs", _) => Some(gen_irs(r, &sys, &sh)),
            ("claims", _) => Some(gen_claims(r, &sys, &sh)),
            _ => Some(gen_modules(r, &sys, &sh)),
        };
        let Some(mut op) = op else { break };
        denone(&mut op, &sys);
        time_passes(&sys.e, r, 3000);
        time_passes_long(&sys.e, r);
        let ev = sys.step(&op);
        sh.apply(&op, &ev);
        // phases: grow until additions have been refused a few times, shrink for a while, grow again
        // (claims are never refused for being too many: the growing phase ends at a number of live claims)
        if fl == "claims" && sh.target == 0 {
            let all = sys.u1.len() * sys.u2.len();
            sh.target = r.gen_range(all / 3..=all - all / 6);
        }
        if sh.grow && (sh.refused_adds >= 3 || (fl == "claims" && sh.claims.len() >= sh.target)) {
            sh.grow = false;
            sh.left = r.gen_range(3..14);
            sh.target = 0;
        } else if !sh.grow && sh.left == 0 {
            sh.grow = true;
            sh.refused_adds = 0;
        }
        t.step(ev);
    }
}

fn main() {
    match cli() {
        Mode::Exec { input, output } => {
            let mut t = Trace::create(&output);
            for b in read_behaviours(&input) {
                let fl = b.cfg.get("flavour").and_then(|v| v.as_str()).unwrap_or("keys").to_string();
                let regime = b.cfg.get("regime").and_then(|v| v.as_str()).unwrap_or("mc").to_string();
                let mut sys = Sys::new(&fl, &regime);
                t.reset(sys.reset_event());
                for op in &b.ops {
                    let ev = sys.step(op);
                    t.step(ev);
                }
            }
            t.finish();
        }
        Mode::Drive { seed, runs, len, output } => {
            let mut t = Trace::create(&output);
            let mut r = StdRng::seed_from_u64(seed);
            // the heavy runs (a minute each: the real MAX_TOKENS = 10 000 and MAX_DOCUMENTS = 5 000 reached and probed
            // from both sides) are left to every eighth driver process (job number = seed % 1000), i.e. to the first
            // one in the quick tier
            let heavy = (seed % 1000) % 8 == 0;
            // development aid: VERIF_REG_ONLY=<flavour>/<regime> makes every run of that kind
            let only = std::env::var("VERIF_REG_ONLY").ok();
            let mut done_heavy: Vec<&str> = Vec::new();
            for run in 0..runs {
                // consecutive driver processes (job number = seed % 1000) continue the cycle where the
                // previous one stopped, so that short jobs together still cover every kind of run
                let offset = (seed % 1000) as usize * runs;
                let (mut fl, mut regime) = CYCLE[(offset + run) % CYCLE.len()];
                if let Some((f, g)) = only.as_deref().and_then(|o| o.split_once('/')) {
                    if let Some(x) = CYCLE.iter().find(|x| x.0 == f && x.1 == g) {
                        (fl, regime) = *x;
                    }
                }
                // (each heavy run once per process)
                let first = heavy && !done_heavy.contains(&fl);
                let regime = if regime == "cap" && fl != "modules" && !first { "bucket" } else { regime };
                if regime == "cap" && fl != "modules" {
                    done_heavy.push(fl);
                }
                drive_run(&mut r, &mut t, fl, regime, len);
            }
            t.finish();
        }
    }
}
