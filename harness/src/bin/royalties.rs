//! Binding of spec/Royalties.tla (beyond the listed properties, X01): the nft-royalties example.
#![allow(dead_code)]
use soroban_sdk::{Address, Env, String as SStr};
use stellar_tokens::non_fungible::royalties::NonFungibleRoyalties as _;
use verif_harness::*;

#[path = "/repo/examples/nft-royalties/src/contract.rs"]
mod roy;

const TOKS: [u32; 3] = [0, 1, 2];

struct Sys {
    e: Env,
    names: Names,
    c: Address,
    price: i128,
}

impl Sys {
    fn new(price: i128) -> Sys {
        let e = new_env(&LedgerCfg::default());
        let names = Names::new(&e, &["a", "b", "c", "m"]);
        let st = |s: &str| SStr::from_str(&e, s);
        let c = e.register(roy::ExampleContract, (st("u"), st("n"), st("s"), names.get("a"), names.get("m")));
        let mut names = names;
        names.insert("self", c.clone());
        Sys { e, names, c, price }
    }

    fn obs(&self) -> Value {
        no_auth(&self.e);
        let cl = roy::ExampleContractClient::new(&self.e, &self.c);
        let (mut info, mut ids) = (JMap::new(), JMap::new());
        for t in TOKS {
            let r = cl.try_royalty_info(&t, &self.price);
            let v = match r {
                Ok(Ok((recv, amt))) => json!({"ok": true, "recv": self.names.name_of(&recv), "amt": amt as i64}),
                _ => json!({"ok": false, "recv": "none", "amt": 0}),
            };
            info.insert(t.to_string(), v);
            ids.insert(t.to_string(), json!(t));
        }
        json!({"price": self.price as i64, "ids": ids, "info": info})
    }

    fn step(&mut self, op: &Value) -> Value {
        let e = self.e.clone();
        let e = &e;
        let kind = s(op, "op");
        let who = auth_addrs(op, &self.names);
        let cl = roy::ExampleContractClient::new(e, &self.c);
        let tok = n(op, "tok") as u32;
        let bps = n(op, "bps") as u32;
        let recv = if s(op, "recv") == "none" { self.names.get("a") } else { self.names.get(s(op, "recv")) };
        let operator = self.names.get(s(op, "who"));
        let r = match kind {
            "mint" => {
                let to = self.names.get("b");
                set_auth_same(e, &who, &Inv::new(&self.c, "mint", args(e, (to.clone(),))));
                res_of(&cl.try_mint(&to))
            }
            "mint_royalty" => {
                let to = self.names.get("b");
                set_auth_same(e, &who, &Inv::new(&self.c, "mint_with_royalty", args(e, (to.clone(), recv.clone(), bps))));
                res_of(&cl.try_mint_with_royalty(&to, &recv, &bps))
            }
            "set_default" => {
                set_auth_same(e, &who, &Inv::new(&self.c, "set_default_royalty", args(e, (recv.clone(), bps, operator.clone()))));
                res_of(&cl.try_set_default_royalty(&recv, &bps, &operator))
            }
            "set_token" => {
                set_auth_same(e, &who, &Inv::new(&self.c, "set_token_royalty", args(e, (tok, recv.clone(), bps, operator.clone()))));
                res_of(&cl.try_set_token_royalty(&tok, &recv, &bps, &operator))
            }
            "remove_token" => {
                set_auth_same(e, &who, &Inv::new(&self.c, "remove_token_royalty", args(e, (tok, operator.clone()))));
                res_of(&cl.try_remove_token_royalty(&tok, &operator))
            }
            k => panic!("op {k}"),
        };
        json!({"op": op, "res": r.0, "err": r.1, "obs": self.obs()})
    }

    fn reset_event(&self) -> Value {
        json!({"op": {"op": "reset", "admin": "a", "manager": "m", "price": self.price as i64, "tok": 0, "recv": "none", "bps": 0, "who": "none", "auth": []},
               "res": "ok", "err": 0, "obs": self.obs()})
    }
}

fn main() {
    match cli() {
        Mode::Exec { input, output } => {
            let mut t = Trace::create(&output);
            for b in read_behaviours(&input) {
                let price = b.cfg.get("price").and_then(|v| v.as_i64()).unwrap_or(1000) as i128;
                let mut sys = Sys::new(price);
                t.reset(sys.reset_event());
                for op in &b.ops {
                    let ev = sys.step(op);
                    t.step(ev);
                }
            }
            t.finish();
        }
        Mode::Drive { seed, runs, len, output } => {
            let mut t = Trace::create(&output);
            let mut r = StdRng::seed_from_u64(seed);
            for _ in 0..runs {
                let price = *pick(&mut r, &[0i128, 1, 3, 9999, 10000, 10001, 12345, 199_999, -1, -10001]);
                let mut sys = Sys::new(price);
                t.reset(sys.reset_event());
                for _ in 0..len {
                    time_passes(&sys.e, &mut r, 3000);
                    time_passes_long(&sys.e, &mut r);
                    let kind = *pick(&mut r, &["mint", "mint_royalty", "set_default", "set_token", "set_token", "remove_token"]);
                    let bps = *pick(&mut r, &[0i64, 1, 250, 3333, 9999, 10000, 10000, 10001, 65535]);
                    let who = if r.gen_bool(0.85) { "m" } else { *pick(&mut r, &["a", "b"]) };
                    let signer = if kind.starts_with("mint") { "a" } else { who };
                    let mut auth: Vec<String> = if r.gen_bool(0.1) { subset(&mut r, &["a", "b", "m"]) } else { vec![] };
                    if r.gen_bool(0.85) { auth.push(signer.into()); }
                    let op = json!({"op": kind, "tok": r.gen_range(0..3), "recv": pick(&mut r, &["a", "b", "c"]), "bps": bps, "who": if kind.starts_with("mint") { "a" } else { who }, "auth": auth});
                    let ev = sys.step(&op);
                    t.step(ev);
                }
            }
            t.finish();
        }
    }
}
