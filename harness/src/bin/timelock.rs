//! Binding of spec/Timelock.tla (C08).
//!
//! Flavours:
//! * `thin`       — a thin contract whose entry points forward 1:1 to
//!                  `stellar_governance::timelock::*` (no authorization: the library documents that
//!                  authorization is the integrator's job);
//! * `controller` — the real timelock-controller example (external admin, one proposer, no
//!                  executors), every call carrying exactly the authorization its role check demands.
//!
//! Both drive a logging target contract that counts its invocations per argument tuple.
//!
//! Ledger / delay scale: a model value m < 2^29 is the real value m; a model value in (2^29, 2^30]
//! is the real value u32::MAX - (2^30 - m)  (2^30 = image of u32::MAX, see spec/Timelock.tla).
#![allow(dead_code)]
use soroban_sdk::{Address, BytesN, Env, IntoVal, Symbol, Val, Vec as SVec};
use stellar_governance::timelock::{Operation, OperationState};
use verif_harness::*;

#[path = "/repo/examples/timelock-controller/src/contract.rs"]
mod controller;

mod thin {
    use soroban_sdk::{contract, contractimpl, BytesN, Env, Val};
    use stellar_governance::timelock as tl;
    use stellar_governance::timelock::{Operation, OperationState};

    #[contract]
    pub struct ThinTimelock;

    #[contractimpl]
    impl ThinTimelock {
        pub fn __constructor(e: &Env, min_delay: u32) {
            tl::set_min_delay(e, min_delay);
        }
        pub fn schedule_operation(e: &Env, operation: Operation, delay: u32) -> BytesN<32> {
            tl::schedule_operation(e, &operation, delay)
        }
        pub fn execute_operation(e: &Env, operation: Operation) -> Val {
            tl::execute_operation(e, &operation)
        }
        pub fn cancel_operation(e: &Env, operation_id: BytesN<32>) {
            tl::cancel_operation(e, &operation_id)
        }
        pub fn set_min_delay(e: &Env, min_delay: u32) {
            tl::set_min_delay(e, min_delay)
        }
        pub fn get_min_delay(e: &Env) -> u32 {
            tl::get_min_delay(e)
        }
        pub fn hash_operation(e: &Env, operation: Operation) -> BytesN<32> {
            tl::hash_operation(e, &operation)
        }
        pub fn get_operation_ledger(e: &Env, operation_id: BytesN<32>) -> u32 {
            tl::get_operation_ledger(e, &operation_id)
        }
        pub fn get_operation_state(e: &Env, operation_id: BytesN<32>) -> OperationState {
            tl::get_operation_state(e, &operation_id)
        }
        pub fn operation_exists(e: &Env, operation_id: BytesN<32>) -> bool {
            tl::operation_exists(e, &operation_id)
        }
        pub fn is_operation_pending(e: &Env, operation_id: BytesN<32>) -> bool {
            tl::is_operation_pending(e, &operation_id)
        }
        pub fn is_operation_ready(e: &Env, operation_id: BytesN<32>) -> bool {
            tl::is_operation_ready(e, &operation_id)
        }
        pub fn is_operation_done(e: &Env, operation_id: BytesN<32>) -> bool {
            tl::is_operation_done(e, &operation_id)
        }
    }
}

mod target {
    use soroban_sdk::{contract, contractimpl, contracttype, Env};

    #[contracttype]
    pub enum K {
        Count(u32, u32),
        Total,
    }

    /// Logging target: counts every invocation, per argument tuple and in total.
    #[contract]
    pub struct Target;

    #[contractimpl]
    impl Target {
        pub fn poke(e: &Env, tag: u32, x: u32) -> u32 {
            let k = K::Count(tag, x);
            let c: u32 = e.storage().persistent().get(&k).unwrap_or(0) + 1;
            e.storage().persistent().set(&k, &c);
            let t: u32 = e.storage().persistent().get(&K::Total).unwrap_or(0) + 1;
            e.storage().persistent().set(&K::Total, &t);
            c
        }
        /// Logs like `poke` and then fails: the whole execute must be rolled back.
        pub fn boom(e: &Env, tag: u32, x: u32) -> u32 {
            Self::poke(e, tag, x);
            panic!("target refuses")
        }
        pub fn count(e: &Env, tag: u32, x: u32) -> u32 {
            e.storage().persistent().get(&K::Count(tag, x)).unwrap_or(0)
        }
        pub fn total(e: &Env) -> u32 {
            e.storage().persistent().get(&K::Total).unwrap_or(0)
        }
    }
}

// ---------------------------------------------------------------------------------------------
// scale
// ---------------------------------------------------------------------------------------------
const HALF: i64 = 1 << 29;
const MU32MAX: i64 = 1 << 30;
const NOW0: u32 = 10;

fn to_real(m: i64) -> u32 {
    if m < HALF {
        m as u32
    } else {
        u32::MAX - (MU32MAX - m.min(MU32MAX)) as u32
    }
}

fn to_model(x: u32) -> i64 {
    let x = x as i64;
    let top = u32::MAX as i64;
    if x < HALF {
        x
    } else if x > top - HALF {
        MU32MAX - (top - x)
    } else {
        HALF // a value no run produces on purpose; a single class, judged as a plain mismatch
    }
}

/// ledger *positions* of a run that starts at `base` instead of near 0 ("high" runs: the run crosses i32::MAX or works
/// at some 3 000 000 000): logged relative to the base; the stored sentinels 0 (unset) and 1 (done) are kept
fn pos(x: u32, base: u32) -> i64 {
    if x <= 1 { x as i64 } else { to_model(x.wrapping_sub(base)) }
}

// ---------------------------------------------------------------------------------------------
// universe
// ---------------------------------------------------------------------------------------------
/// (name, function, tag, x, predecessor, salt byte)
const UNIVERSE: [(&str, &str, u32, u32, &str, u8); 5] = [
    ("A", "poke", 1, 11, "none", 1),
    ("B", "poke", 2, 22, "A", 2),
    ("C", "poke", 3, 33, "G", 3),
    ("D", "boom", 4, 44, "none", 4),
    ("G", "poke", 9, 99, "none", 9),
];
const IDS: [&str; 5] = ["A", "B", "C", "D", "G"];
const CHG: [&str; 8] = ["none", "target", "function", "args", "pred", "salt", "swap", "swap"];

#[derive(Clone)]
struct Fields {
    target: Address,
    function: Symbol,
    args: SVec<Val>,
    pred: BytesN<32>,
    salt: BytesN<32>,
}

enum Flavour {
    Thin,
    Controller { proposer: Address, admin: Address },
}

struct Sys {
    e: Env,
    c: Address,
    fl: Flavour,
    target: Address,
    target2: Address,
    ids: Vec<(String, BytesN<32>)>,
    base: u32,
}

fn bytes(e: &Env, b: u8) -> BytesN<32> {
    BytesN::from_array(e, &[b; 32])
}

impl Sys {
    fn new(flavour: &str, min0: i64, base: u32) -> Sys {
        let e = new_env(&LedgerCfg { seq: base + NOW0, ..Default::default() });
        let target = e.register(target::Target, ());
        let target2 = e.register(target::Target, ());
        let min0 = to_real(min0);
        let (c, fl) = match flavour {
            "thin" => (e.register(thin::ThinTimelock, (min0,)), Flavour::Thin),
            "controller" => {
                use soroban_sdk::testutils::Address as _;
                let proposer = Address::generate(&e);
                let admin = Address::generate(&e);
                let c = e.register(
                    controller::TimelockController,
                    (min0, soroban_sdk::vec![&e, proposer.clone()], SVec::<Address>::new(&e), Some(admin.clone())),
                );
                (c, Flavour::Controller { proposer, admin })
            }
            f => panic!("flavour {f}"),
        };
        let mut sys = Sys { e, c, fl, target, target2, ids: vec![], base };
        // ids in dependency order (a predecessor field is the id of an earlier entry)
        for name in ["A", "G", "B", "C", "D"] {
            let f = sys.fields(name);
            let id = sys.hash(&f).expect("hash_operation");
            sys.ids.push((name.to_string(), id));
        }
        sys
    }

    fn id(&self, name: &str) -> BytesN<32> {
        self.ids.iter().find(|(n, _)| n == name).unwrap_or_else(|| panic!("unknown id {name}")).1.clone()
    }

    /// The operation fields of a universe entry, rebuilt from scratch on every use.
    fn fields(&self, name: &str) -> Fields {
        let e = &self.e;
        let u = UNIVERSE.iter().find(|u| u.0 == name).unwrap_or_else(|| panic!("unknown op {name}"));
        Fields {
            target: self.target.clone(),
            function: Symbol::new(e, u.1),
            args: soroban_sdk::vec![e, u.2.into_val(e), u.3.into_val(e)],
            pred: if u.4 == "none" { bytes(e, 0) } else { self.id(u.4) },
            salt: bytes(e, u.5),
        }
    }

    fn operation(&self, f: &Fields) -> Operation {
        Operation {
            target: f.target.clone(),
            function: f.function.clone(),
            args: f.args.clone(),
            predecessor: f.pred.clone(),
            salt: f.salt.clone(),
        }
    }

    fn hash(&self, f: &Fields) -> Option<BytesN<32>> {
        no_auth(&self.e);
        match &self.fl {
            Flavour::Thin => thin::ThinTimelockClient::new(&self.e, &self.c).try_hash_operation(&self.operation(f)).ok()?.ok(),
            Flavour::Controller { .. } => controller::TimelockControllerClient::new(&self.e, &self.c)
                .try_hash_operation(&f.target, &f.function, &f.args, &f.pred, &f.salt)
                .ok()?
                .ok(),
        }
    }

    /// Two operations that differ only in which of the two 32-byte fields carries a value: (pred, salt) exchanged;
    /// (P, 0) against (0, P); (0, S) against (S, 0). They are different operations and must get different ids.
    fn swap_pair(&self, f: &Fields, variant: i64) -> (Fields, Fields) {
        let zero = BytesN::from_array(&self.e, &[0u8; 32]);
        let p = if f.pred == zero { self.id("A") } else { f.pred.clone() };
        let (mut a, mut b) = (f.clone(), f.clone());
        match variant % 3 {
            0 => {
                b.pred = f.salt.clone();
                b.salt = f.pred.clone();
            }
            1 => {
                (a.pred, a.salt) = (p.clone(), zero.clone());
                (b.pred, b.salt) = (zero, p);
            }
            _ => {
                (a.pred, a.salt) = (zero.clone(), f.salt.clone());
                (b.pred, b.salt) = (f.salt.clone(), zero);
            }
        }
        (a, b)
    }

    /// One single-field change; `variant` selects among a few alternatives.
    fn changed(&self, f: &Fields, chg: &str, variant: i64) -> Fields {
        let e = &self.e;
        let mut g = f.clone();
        match chg {
            "none" => {}
            "target" => g.target = if variant % 2 == 0 { self.target2.clone() } else { self.c.clone() },
            "function" => {
                g.function = match variant % 3 {
                    0 => Symbol::new(e, if f.function == Symbol::new(e, "poke") { "boom" } else { "poke" }),
                    1 => Symbol::new(e, "poke2"),
                    _ => Symbol::new(e, "pok"),
                }
            }
            "args" => {
                let a0: u32 = f.args.get(0).unwrap().into_val(e);
                let a1: u32 = f.args.get(1).unwrap().into_val(e);
                g.args = match variant % 5 {
                    0 => soroban_sdk::vec![e, a0.into_val(e), (a1 + 1).into_val(e)],
                    1 => soroban_sdk::vec![e, a1.into_val(e), a0.into_val(e)],
                    2 => soroban_sdk::vec![e, a0.into_val(e), a1.into_val(e), 0u32.into_val(e)],
                    3 => soroban_sdk::vec![e, a0.into_val(e)],
                    _ => soroban_sdk::vec![e, a0.into_val(e), (a1 as i64).into_val(e)],
                };
            }
            "pred" | "salt" => {
                let src = if chg == "pred" { &f.pred } else { &f.salt };
                let mut b = src.to_array();
                match variant % 3 {
                    0 => b[31] ^= 1,
                    1 => b[0] ^= 0x80,
                    _ => b = if b == [0u8; 32] { self.id("A").to_array() } else { [0u8; 32] },
                }
                let nb = BytesN::from_array(e, &b);
                if chg == "pred" {
                    g.pred = nb
                } else {
                    g.salt = nb
                }
            }
            c => panic!("chg {c}"),
        }
        g
    }

    fn obs(&self, same: bool, retid: bool) -> Value {
        let e = &self.e;
        no_auth(e);
        let tc = target::TargetClient::new(e, &self.target);
        let mut ops = JMap::new();
        let mut min = -1i64;
        for (name, id) in &self.ids {
            let u = UNIVERSE.iter().find(|u| u.0 == name).unwrap();
            let calls = tc.count(&u.2, &u.3);
            let (state, ledger, exists, pending, ready, done);
            match &self.fl {
                Flavour::Thin => {
                    let cl = thin::ThinTimelockClient::new(e, &self.c);
                    min = cl.try_get_min_delay().ok().and_then(|r| r.ok()).map(|v| to_model(v)).unwrap_or(-1);
                    state = cl.try_get_operation_state(id).ok().and_then(|r| r.ok());
                    ledger = cl.try_get_operation_ledger(id).ok().and_then(|r| r.ok());
                    exists = cl.try_operation_exists(id).ok().and_then(|r| r.ok());
                    pending = cl.try_is_operation_pending(id).ok().and_then(|r| r.ok());
                    ready = cl.try_is_operation_ready(id).ok().and_then(|r| r.ok());
                    done = cl.try_is_operation_done(id).ok().and_then(|r| r.ok());
                }
                Flavour::Controller { .. } => {
                    let cl = controller::TimelockControllerClient::new(e, &self.c);
                    min = cl.try_get_min_delay().ok().and_then(|r| r.ok()).map(|v| to_model(v)).unwrap_or(-1);
                    state = cl.try_get_operation_state(id).ok().and_then(|r| r.ok());
                    ledger = cl.try_get_operation_ledger(id).ok().and_then(|r| r.ok());
                    exists = cl.try_operation_exists(id).ok().and_then(|r| r.ok());
                    pending = cl.try_is_operation_pending(id).ok().and_then(|r| r.ok());
                    ready = cl.try_is_operation_ready(id).ok().and_then(|r| r.ok());
                    done = cl.try_is_operation_done(id).ok().and_then(|r| r.ok());
                }
            }
            let st = match state {
                Some(OperationState::Unset) => "Unset",
                Some(OperationState::Waiting) => "Waiting",
                Some(OperationState::Ready) => "Ready",
                Some(OperationState::Done) => "Done",
                None => "getter failed",
            };
            // a failing getter is recorded as a value no specification expects
            let b = |v: Option<bool>| v.map(Value::Bool).unwrap_or(json!("getter failed"));
            ops.insert(
                name.clone(),
                json!({"state": st, "ledger": ledger.map(|x| pos(x, self.base)).unwrap_or(-1), "exists": b(exists),
                       "pending": b(pending), "ready": b(ready), "done": b(done), "calls": calls}),
            );
        }
        // invocations seen by either target instance, whatever the arguments
        let total = tc.total() + target::TargetClient::new(e, &self.target2).total();
        json!({"min": min, "total": total, "same": same, "retid": retid, "ops": Value::Object(ops)})
    }

    fn step(&mut self, op: &Value) -> Value {
        set_seq(&self.e, seq(&self.e) + n(op, "dt") as u32);
        let e = &self.e;
        let now = pos(seq(e), self.base);
        let kind = s(op, "op");
        let mut same = false;
        let mut retid = false;
        let (res, code): (&str, i64) = match kind {
            "schedule" => {
                let f = self.fields(s(op, "id"));
                let delay = to_real(n(op, "delay"));
                let r = match &self.fl {
                    Flavour::Thin => {
                        no_auth(e);
                        let r = thin::ThinTimelockClient::new(e, &self.c).try_schedule_operation(&self.operation(&f), &delay);
                        if let Ok(Ok(id)) = &r {
                            retid = *id == self.id(s(op, "id"));
                        }
                        res_of(&r)
                    }
                    Flavour::Controller { proposer, .. } => {
                        set_auth_same(
                            e,
                            &[proposer.clone()],
                            &Inv::new(
                                &self.c,
                                "schedule_op",
                                args(e, (f.target.clone(), f.function.clone(), f.args.clone(), f.pred.clone(), f.salt.clone(), delay, proposer.clone())),
                            ),
                        );
                        let r = controller::TimelockControllerClient::new(e, &self.c)
                            .try_schedule_op(&f.target, &f.function, &f.args, &f.pred, &f.salt, &delay, proposer);
                        if let Ok(Ok(id)) = &r {
                            retid = *id == self.id(s(op, "id"));
                        }
                        res_of(&r)
                    }
                };
                r
            }
            "execute" => {
                let f = self.fields(s(op, "id"));
                no_auth(e);
                match &self.fl {
                    Flavour::Thin => res_of(&thin::ThinTimelockClient::new(e, &self.c).try_execute_operation(&self.operation(&f))),
                    Flavour::Controller { .. } => res_of(
                        &controller::TimelockControllerClient::new(e, &self.c)
                            .try_execute_op(&f.target, &f.function, &f.args, &f.pred, &f.salt, &None),
                    ),
                }
            }
            "cancel" => {
                let id = self.id(s(op, "id"));
                match &self.fl {
                    Flavour::Thin => {
                        no_auth(e);
                        res_of(&thin::ThinTimelockClient::new(e, &self.c).try_cancel_operation(&id))
                    }
                    Flavour::Controller { proposer, .. } => {
                        set_auth_same(e, &[proposer.clone()], &Inv::new(&self.c, "cancel_op", args(e, (id.clone(), proposer.clone()))));
                        res_of(&controller::TimelockControllerClient::new(e, &self.c).try_cancel_op(&id, proposer))
                    }
                }
            }
            "set_min_delay" => {
                let d = to_real(n(op, "delay"));
                match &self.fl {
                    Flavour::Thin => {
                        no_auth(e);
                        res_of(&thin::ThinTimelockClient::new(e, &self.c).try_set_min_delay(&d))
                    }
                    Flavour::Controller { admin, .. } => {
                        set_auth_same(e, &[admin.clone()], &Inv::new(&self.c, "update_delay", args(e, (d,))));
                        res_of(&controller::TimelockControllerClient::new(e, &self.c).try_update_delay(&d))
                    }
                }
            }
            "hash" => {
                // `delay` selects the variant of the changed value
                let name = s(op, "id");
                let base = self.fields(name);
                let (base, other) = if s(op, "chg") == "swap" {
                    self.swap_pair(&base, n(op, "delay"))
                } else {
                    let o = self.changed(&base, s(op, "chg"), n(op, "delay"));
                    (base, o)
                };
                match (self.hash(&base), self.hash(&other)) {
                    (Some(h1), Some(h2)) => {
                        // chg = none: two independently rebuilt copies hash to the id computed when
                        // the run started; otherwise: the changed twin hashes to something else
                        let id0 = self.id(name);
                        same = if s(op, "chg") == "none" { h1 == id0 && h2 == id0 } else if s(op, "chg") == "swap" { h2 == h1 } else { h2 == id0 || h2 == h1 };
                        ("ok", 0)
                    }
                    _ => ("fail", -1),
                }
            }
            k => panic!("op {k}"),
        };
        json!({"op": op, "now": now, "res": res, "err": code, "obs": self.obs(same, retid)})
    }

    /// model-scale ledger stored for `name` (public getter), for the driver's state feedback
    fn ledger_of(&self, name: &str) -> i64 {
        no_auth(&self.e);
        let id = self.id(name);
        let l = match &self.fl {
            Flavour::Thin => thin::ThinTimelockClient::new(&self.e, &self.c).try_get_operation_ledger(&id).ok().and_then(|r| r.ok()),
            Flavour::Controller { .. } => {
                controller::TimelockControllerClient::new(&self.e, &self.c).try_get_operation_ledger(&id).ok().and_then(|r| r.ok())
            }
        };
        l.map(|x| pos(x, self.base)).unwrap_or(-1)
    }
}

fn reset_event(sys: &Sys, flavour: &str, min0: i64) -> Value {
    let mut pred = JMap::new();
    for u in UNIVERSE.iter() {
        pred.insert(u.0.to_string(), json!(u.4));
    }
    json!({"op": {"op": "reset", "id": "none", "delay": 0, "chg": "none", "dt": 0, "flavour": flavour, "min0": min0, "base": sys.base.to_string()},
           "pred": Value::Object(pred), "now": pos(seq(&sys.e), sys.base), "res": "ok", "err": 0, "obs": sys.obs(false, false)})
}

fn main() {
    match cli() {
        Mode::Exec { input, output } => {
            let mut t = Trace::create(&output);
            for b in read_behaviours(&input) {
                let flavours: Vec<String> = match b.cfg.get("flavour").and_then(|v| v.as_str()) {
                    Some(f) => vec![f.to_string()],
                    None => vec!["thin".into(), "controller".into()],
                };
                let min0 = b.cfg.get("min0").and_then(|v| v.as_i64()).unwrap_or(1);
                for fl in flavours {
                    let base: u32 = b.cfg.get("base").and_then(|v| v.as_str()).and_then(|x| x.parse().ok()).unwrap_or(0);
                    let mut sys = Sys::new(&fl, min0, base);
                    t.reset(reset_event(&sys, &fl, min0));
                    for op in &b.ops {
                        let ev = sys.step(op);
                        t.step(ev);
                    }
                }
            }
            t.finish();
        }
        Mode::Drive { seed, runs, len, output } => {
            let mut t = Trace::create(&output);
            let mut r = StdRng::seed_from_u64(seed);
            for run in 0..runs {
                let fl = if run % 3 == 2 { "controller" } else { "thin" };
                let min0 = *pick(&mut r, &[0i64, 1, 1, 2]);
                // "high" runs: every fourth run starts just below i32::MAX (and crosses it) or at 3 000 000 000; small delays only
                let base: u32 = if run % 4 == 3 { *pick(&mut r, &[i32::MAX as u32 - 25, i32::MAX as u32 - 14, 3_000_000_000u32]) } else { 0 };
                let mut sys = Sys::new(fl, min0, base);
                t.reset(reset_event(&sys, fl, min0));
                let mut min = min0;
                for _ in 0..len {
                    let now = pos(seq(&sys.e), sys.base);
                    let kind = *pick(
                        &mut r,
                        &["schedule", "schedule", "schedule", "execute", "execute", "execute", "execute", "cancel", "set_min_delay", "hash"],
                    );
                    let mut id = *pick(&mut r, &["A", "A", "A", "B", "B", "B", "C", "C", "D", "G"]);
                    let mut dt = if r.gen_ratio(1, 25) { 3000 } else { *pick(&mut r, &[0i64, 0, 0, 1, 1, 2, 3]) };
                    // state feedback through the public getter: which operations are pending / unset
                    let leds: Vec<(&str, i64)> = IDS.iter().map(|i| (*i, sys.ledger_of(i))).collect();
                    let pending: Vec<&str> = leds.iter().filter(|(_, l)| *l > 1).map(|(i, _)| *i).collect();
                    let unset: Vec<&str> = leds.iter().filter(|(_, l)| *l == 0).map(|(i, _)| *i).collect();
                    let op = match kind {
                        "schedule" => {
                            if !unset.is_empty() && r.gen_bool(0.7) {
                                id = *pick(&mut r, &unset);
                            }
                            // mostly admissible delays around the minimum, the boundaries, and the
                            // saturating ones (near u32::MAX in real terms)
                            let near = [MU32MAX, MU32MAX - 1, MU32MAX - now - dt, MU32MAX - now - dt - 1, MU32MAX - now - dt + 1];
                            let delay = match r.gen_range(0..12) {
                                0 => (min - 1).max(0),
                                1 if base == 0 => *pick(&mut r, &near),
                                2 | 3 | 4 => min,
                                5 => min + 1,
                                _ => *pick(&mut r, &[0i64, 1, 2, 3, 5]),
                            };
                            json!({"op": "schedule", "id": id, "delay": delay.min(MU32MAX), "chg": "none", "dt": dt})
                        }
                        "execute" => {
                            if !pending.is_empty() && r.gen_bool(0.8) {
                                id = *pick(&mut r, &pending);
                            }
                            // aim at ready-1 / ready / ready+1 of the chosen operation when that is ahead
                            let l = sys.ledger_of(id);
                            if l > 1 && l < HALF && r.gen_bool(0.8) {
                                let aim = l + *pick(&mut r, &[-1i64, 0, 0, 1]);
                                if aim >= now && aim - now <= 8 {
                                    dt = aim - now;
                                }
                            }
                            json!({"op": "execute", "id": id, "delay": 0, "chg": "none", "dt": dt})
                        }
                        "cancel" => json!({"op": "cancel", "id": id, "delay": 0, "chg": "none", "dt": dt}),
                        "set_min_delay" => {
                            let d = *pick(&mut r, &[0i64, 0, 1, 1, 2, 2, 3, 4, if base == 0 { MU32MAX } else { 5 }]);
                            json!({"op": "set_min_delay", "id": "none", "delay": d, "chg": "none", "dt": dt})
                        }
                        _ => json!({"op": "hash", "id": pick(&mut r, &IDS), "delay": r.gen_range(0..30), "chg": pick(&mut r, &CHG), "dt": dt}),
                    };
                    let ev = sys.step(&op);
                    min = ev["obs"]["min"].as_i64().unwrap_or(min);
                    t.step(ev);
                }
            }
            t.finish();
        }
    }
}
