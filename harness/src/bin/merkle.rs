//! Binding of spec/Merkle.tla: `crypto::merkle::Verifier::{verify, verify_with_index}` with SHA-256 and
//! Keccak-256 (thin contract, one entry point per hasher and fold), the `merkle_distributor` library
//! functions (thin contracts forwarding 1:1, one per hasher) and the fungible-merkle-airdrop example
//! as it is (over a thin Base token, as in the example's own test).
//!
//! The trees are built HERE, with the host's hash functions directly (not through the library's
//! `Hasher`/`hash_pair`), by the same constructions spec/Merkle.tla defines on hash terms:
//! "promote" / "dup" / "pad" (level by level), "heap" (OpenZeppelin merkle-tree array layout),
//! "chain" (maximally unbalanced); mode "s" = sorted-pair nodes, "p" = positional nodes.
#![allow(dead_code)]
use soroban_sdk::{xdr::ToXdr, Address, Bytes, BytesN, Env, Vec as SVec};
use verif_harness::*;

#[path = "/repo/examples/fungible-merkle-airdrop/src/contract.rs"]
mod airdrop;

mod leaf {
    use soroban_sdk::{contracttype, Address};
    use stellar_contract_utils::merkle_distributor::IndexableLeaf;

    /// Same shape (field names and types, hence the same XDR) as the airdrop example's private `Receiver`.
    #[contracttype]
    #[derive(Clone)]
    pub struct Receiver {
        pub index: u32,
        pub address: Address,
        pub amount: i128,
    }

    impl IndexableLeaf for Receiver {
        fn index(&self) -> u32 {
            self.index
        }
    }
}

mod verifier {
    use soroban_sdk::{contract, contractimpl, BytesN, Env, Vec};
    use stellar_contract_utils::crypto::{keccak::Keccak256, merkle::Verifier, sha256::Sha256};

    #[contract]
    pub struct VerifierC;

    #[contractimpl]
    impl VerifierC {
        pub fn verify_sha(e: &Env, proof: Vec<BytesN<32>>, root: BytesN<32>, leaf: BytesN<32>) -> bool {
            Verifier::<Sha256>::verify(e, proof, root, leaf)
        }
        pub fn verify_kec(e: &Env, proof: Vec<BytesN<32>>, root: BytesN<32>, leaf: BytesN<32>) -> bool {
            Verifier::<Keccak256>::verify(e, proof, root, leaf)
        }
        pub fn verify_idx_sha(e: &Env, proof: Vec<BytesN<32>>, root: BytesN<32>, leaf: BytesN<32>, index: u32) -> bool {
            Verifier::<Sha256>::verify_with_index(e, proof, root, leaf, index)
        }
        pub fn verify_idx_kec(e: &Env, proof: Vec<BytesN<32>>, root: BytesN<32>, leaf: BytesN<32>, index: u32) -> bool {
            Verifier::<Keccak256>::verify_with_index(e, proof, root, leaf, index)
        }
    }
}

macro_rules! dist_contract {
    ($m:ident, $hasher:path) => {
        mod $m {
            use super::leaf::Receiver;
            use soroban_sdk::{contract, contractimpl, BytesN, Env, Vec};
            use stellar_contract_utils::merkle_distributor::MerkleDistributor;
            type D = MerkleDistributor<$hasher>;

            #[contract]
            pub struct Dist;

            #[contractimpl]
            impl Dist {
                pub fn set_root(e: &Env, root: BytesN<32>) {
                    D::set_root(e, root);
                }
                pub fn get_root(e: &Env) -> BytesN<32> {
                    D::get_root(e)
                }
                pub fn is_claimed(e: &Env, index: u32) -> bool {
                    D::is_claimed(e, index)
                }
                pub fn claim(e: &Env, leaf: Receiver, proof: Vec<BytesN<32>>) {
                    D::verify_and_set_claimed(e, leaf, proof);
                }
                pub fn claim_idx(e: &Env, leaf: Receiver, proof: Vec<BytesN<32>>) {
                    D::verify_with_index_and_set_claimed(e, leaf, proof);
                }
            }
        }
    };
}
dist_contract!(dist_sha, stellar_contract_utils::crypto::sha256::Sha256);
dist_contract!(dist_kec, stellar_contract_utils::crypto::keccak::Keccak256);

mod token {
    use soroban_sdk::{contract, contractimpl, Address, Env, MuxedAddress, String};
    use stellar_tokens::fungible::{Base, FungibleToken};

    #[contract]
    pub struct TokenContract;

    #[contractimpl]
    impl TokenContract {
        pub fn __constructor(e: &Env, owner: Address, initial_supply: i128) {
            Base::mint(e, &owner, initial_supply);
        }
    }

    #[contractimpl(contracttrait)]
    impl FungibleToken for TokenContract {
        type ContractType = Base;
    }
}

type H32 = [u8; 32];
const FUND: i128 = 100_000;

// ---------------------------------------------------------------------------------------------
// trees on real bytes (mirror of spec/Merkle.tla: Up/LRoot/LProof, HNode/HProof, CNode/CProof)
// ---------------------------------------------------------------------------------------------
#[derive(Clone, Copy, PartialEq)]
enum Hk {
    Sha,
    Kec,
}

struct Hs<'a> {
    e: &'a Env,
    hk: Hk,
    sorted: bool,
}

impl Hs<'_> {
    fn hash(&self, data: &[u8]) -> H32 {
        let b = Bytes::from_slice(self.e, data);
        match self.hk {
            Hk::Sha => self.e.crypto().sha256(&b).to_array(),
            Hk::Kec => self.e.crypto().keccak256(&b).to_array(),
        }
    }
    fn pair(&self, a: &H32, b: &H32) -> H32 {
        let (x, y) = if self.sorted && a > b { (b, a) } else { (a, b) };
        let mut buf = [0u8; 64];
        buf[..32].copy_from_slice(x);
        buf[32..].copy_from_slice(y);
        self.hash(&buf)
    }
    fn up(&self, style: &str, lv: &[H32]) -> Vec<H32> {
        let n = lv.len();
        let mut out = Vec::new();
        let mut i = 0;
        while i < n {
            if i + 1 < n {
                out.push(self.pair(&lv[i], &lv[i + 1]));
            } else {
                out.push(match style {
                    "promote" => lv[i],
                    "dup" => self.pair(&lv[i], &lv[i]),
                    "pad" => self.pair(&lv[i], &ZERO),
                    s => panic!("style {s}"),
                });
            }
            i += 2;
        }
        out
    }
    fn hnode(&self, leaves: &[H32], i: usize) -> H32 {
        let n = leaves.len();
        if i + 1 >= n {
            leaves[2 * n - 2 - i]
        } else {
            self.pair(&self.hnode(leaves, 2 * i + 1), &self.hnode(leaves, 2 * i + 2))
        }
    }
    fn cnode(&self, leaves: &[H32], j: usize) -> H32 {
        let mut x = leaves[0];
        for l in &leaves[1..=j] {
            x = self.pair(&x, l);
        }
        x
    }
    fn root(&self, style: &str, leaves: &[H32]) -> H32 {
        match style {
            "heap" => self.hnode(leaves, 0),
            "chain" => self.cnode(leaves, leaves.len() - 1),
            _ => {
                let mut lv = leaves.to_vec();
                while lv.len() > 1 {
                    lv = self.up(style, &lv);
                }
                lv[0]
            }
        }
    }
    fn proof(&self, style: &str, leaves: &[H32], k: usize) -> Vec<H32> {
        let n = leaves.len();
        let mut out = Vec::new();
        match style {
            "heap" => {
                let mut i = 2 * n - 2 - k;
                while i > 0 {
                    out.push(self.hnode(leaves, if i % 2 == 1 { i + 1 } else { i - 1 }));
                    i = (i - 1) / 2;
                }
            }
            "chain" => {
                if n > 1 {
                    out.push(if k == 0 { leaves[1] } else { self.cnode(leaves, k - 1) });
                    let from = if k == 0 { 2 } else { k + 1 };
                    out.extend_from_slice(&leaves[from.min(n)..]);
                }
            }
            _ => {
                let mut lv = leaves.to_vec();
                let mut p = k;
                while lv.len() > 1 {
                    let sib = if p % 2 == 0 { p + 1 } else { p - 1 };
                    if sib < lv.len() {
                        out.push(lv[sib]);
                    } else {
                        match style {
                            "promote" => {}
                            "dup" => out.push(lv[p]),
                            "pad" => out.push(ZERO),
                            s => panic!("style {s}"),
                        }
                    }
                    lv = self.up(style, &lv);
                    p /= 2;
                }
            }
        }
        out
    }
    /// the fold the specification prescribes (used only to compute an interior node for the
    /// informative "interior" corruption)
    fn fold(&self, mut x: H32, pr: &[H32], mut idx: usize) -> H32 {
        for h in pr {
            x = if self.sorted || idx % 2 == 0 { self.pair(&x, h) } else { self.pair(h, &x) };
            idx /= 2;
        }
        x
    }
}

const ZERO: H32 = [0u8; 32];

fn amt(salt: i64, k: i64) -> i128 {
    (10 * (k + 1) + 5 * salt) as i128
}

fn rand32(r: &mut StdRng) -> H32 {
    let mut x = [0u8; 32];
    r.fill(&mut x);
    x
}

// ---------------------------------------------------------------------------------------------
// system under test
// ---------------------------------------------------------------------------------------------
struct Sys {
    e: Env,
    flavour: String, // "sha" | "kec" | "airdrop"
    mode: String,    // "s" | "p"
    hk: Hk,
    u: usize,
    r: StdRng,
    verifier: Address,
    dist: Option<Address>,    // thin distributor (sha/kec) or the deployed airdrop contract
    token: Option<Address>,   // airdrop only
    owner: Address,
    receivers: Vec<Address>,
    vleaf: Vec<Vec<H32>>,     // random leaf hashes [salt][k] for the verify calls
    last_root: Option<H32>,
    /// model claim index k -> the index put into the leaf and asked of is_claimed ("spread" runs: indices that
    /// differ in single high or low bits, so that packed / bucketed claimed flags cannot alias unnoticed);
    /// the identity otherwise, and always in positional mode (where the index is the leaf's position and the
    /// specification derives the tree shape from the number of leaves).
    imap: Vec<u32>,
    spread: bool,
    /// 0, or the period with which the leaves of the verify trees repeat (equal sibling nodes at the leaf level and
    /// above); such runs make genuine verify calls only (a proof for one leaf is then a proof for its twins too)
    dup: usize,
}

const SPREAD_S: [u32; 16] = [5, 133, 261, 6, 69, 197, 37, 65_541, 65_669, 16_777_221, 2_147_483_653, 2_147_483_781,
                             u32::MAX - 10, u32::MAX - 138, 127, 0];
const SPREAD_P: [u32; 16] = [5, 133, 261, 6, 134, 0, 128, 256, 64, 192, 127, 255, 1, 129, 2, 130];

impl Sys {
    fn new(flavour: &str, mode: &str, u: usize, seed: u64, spread: bool, dup: usize) -> Sys {
        let e = new_env(&LedgerCfg::default());
        let mut r = StdRng::seed_from_u64(seed);
        // Address::generate is a deterministic sequence per Env: skip a seeded number of addresses
        // so that receivers (hence the claim leaves) differ from run to run
        use soroban_sdk::testutils::Address as _;
        for _ in 0..r.gen_range(0..40) {
            let _ = Address::generate(&e);
        }
        let hk = if flavour == "kec" { Hk::Kec } else { Hk::Sha };
        let verifier = e.register(verifier::VerifierC, ());
        let owner = Address::generate(&e);
        let receivers: Vec<Address> = (0..u).map(|_| Address::generate(&e)).collect();
        let (dist, token) = match flavour {
            "sha" => (Some(e.register(dist_sha::Dist, ())), None),
            "kec" => (Some(e.register(dist_kec::Dist, ())), None),
            "airdrop" => {
                assert!(mode == "s", "the airdrop example uses the sorted-pair form");
                (None, Some(e.register(token::TokenContract, (owner.clone(), 10 * FUND))))
            }
            f => panic!("flavour {f}"),
        };
        let vleaf = (0..2).map(|_| (0..u).map(|_| rand32(&mut r)).collect()).collect();
        Sys { e, flavour: flavour.into(), mode: mode.into(), hk, u, r, verifier, dist, token, owner, receivers, vleaf, last_root: None, spread, dup,
              imap: (0..u).map(|k| if !spread || mode != "s" { k as u32 } else if mode == "s" { SPREAD_S[k % 16].wrapping_add((k / 16) as u32 * 1000) }
                                   else { SPREAD_P[k % 16] + (k / 16) as u32 * 300 }).collect() }
    }

    fn hs(&self) -> Hs<'_> {
        Hs { e: &self.e, hk: self.hk, sorted: self.mode == "s" }
    }

    fn receiver(&self, index: u32, k: usize, amount: i128) -> leaf::Receiver {
        leaf::Receiver { index, address: self.receivers[k].clone(), amount }
    }

    /// hash of the claim leaf (index k, receiver k, Amt(salt, k)) — what the tooling would put in the tree
    fn cleaf(&self, salt: i64, k: usize) -> H32 {
        let x = self.receiver(self.ix(k), k, amt(salt, k as i64)).to_xdr(&self.e);
        let mut buf = std::vec::Vec::new();
        for b in x.iter() {
            buf.push(b);
        }
        self.hs().hash(&buf)
    }

    /// the real claim index of model index k (indices beyond the universe are passed through)
    fn ix(&self, k: usize) -> u32 {
        self.imap.get(k).copied().unwrap_or(k as u32)
    }

    /// position of model leaf k in the claim tree
    fn px(&self, k: usize) -> usize {
        if self.mode == "s" { k } else { self.ix(k) as usize }
    }

    /// the claim tree of model size n: in positional spread runs the model leaves sit at their real indices and
    /// every other position up to the highest one holds a filler leaf
    fn claim_leaves(&self, salt: i64, n: usize) -> Vec<H32> {
        if self.mode == "s" || !self.spread {
            return self.leaves(true, salt, n);
        }
        let top = (0..n).map(|k| self.px(k)).max().unwrap_or(0);
        let mut v: Vec<H32> = (0..=top).map(|p| self.hs().hash(&[0xF1, (p & 255) as u8, (p >> 8) as u8])).collect();
        for k in 0..n {
            v[self.px(k)] = self.cleaf(salt, k);
        }
        v
    }

    fn leaves(&self, claim: bool, salt: i64, n: usize) -> Vec<H32> {
        (0..n).map(|k| if claim { self.cleaf(salt, k) } else { self.vleaf[salt as usize][if self.dup > 0 { k % self.dup } else { k }] }).collect()
    }

    fn bn(&self, x: &H32) -> BytesN<32> {
        BytesN::from_array(&self.e, x)
    }

    fn proof_val(&self, pr: &[H32]) -> SVec<BytesN<32>> {
        let mut v = SVec::new(&self.e);
        for x in pr {
            v.push_back(self.bn(x));
        }
        v
    }

    /// `pr` with element `at` (0-based) replaced by a value that is no BytesN<32>: the element type of a host vector
    /// is not checked when the vector is handed over, only when an element is read
    fn proof_val_ill(&self, pr: &[H32], at: usize, kind: usize) -> SVec<BytesN<32>> {
        use soroban_sdk::{IntoVal, TryFromVal, Val};
        let e = &self.e;
        let mut v: SVec<Val> = SVec::new(e);
        for (k, x) in pr.iter().enumerate() {
            if k == at {
                let ill: Val = match kind % 4 {
                    0 => Bytes::from_slice(e, &x[..31]).into_val(e),
                    1 => 7u32.into_val(e),
                    2 => { let mut b = x.to_vec(); b.push(0); Bytes::from_slice(e, &b).into_val(e) }
                    _ => self.verifier.clone().into_val(e),
                };
                v.push_back(ill);
            } else {
                v.push_back(self.bn(x).into_val(e));
            }
        }
        SVec::<BytesN<32>>::try_from_val(e, &v.to_val()).expect("vector handle")
    }
    fn proof_of(&self, pr: &[H32], corr: &str, ci: usize, cj: usize) -> SVec<BytesN<32>> {
        if corr == "illtyped" && ci >= 1 && ci <= pr.len() { self.proof_val_ill(pr, ci - 1, cj) } else { self.proof_val(pr) }
    }

    fn obs(&self) -> Value {
        let e = &self.e;
        no_auth(e);
        let mut claimed = std::vec::Vec::new();
        let mut rootset = false;
        if let Some(d) = &self.dist {
            for k in 0..self.u as u32 {
                let i = self.ix(k as usize);
                let c = match self.flavour.as_str() {
                    "sha" => dist_sha::DistClient::new(e, d).try_is_claimed(&i).map(|x| x.unwrap_or(false)).unwrap_or(false),
                    "kec" => dist_kec::DistClient::new(e, d).try_is_claimed(&i).map(|x| x.unwrap_or(false)).unwrap_or(false),
                    _ => airdrop::AirdropContractClient::new(e, d).try_is_claimed(&i).map(|x| x.unwrap_or(false)).unwrap_or(false),
                };
                if c {
                    claimed.push(k);
                }
            }
            rootset = match self.flavour.as_str() {
                "sha" => matches!(dist_sha::DistClient::new(e, d).try_get_root(), Ok(Ok(r)) if Some(r.to_array()) == self.last_root),
                "kec" => matches!(dist_kec::DistClient::new(e, d).try_get_root(), Ok(Ok(r)) if Some(r.to_array()) == self.last_root),
                _ => true,
            };
        }
        let (bal, pool): (Vec<i64>, i64) = match &self.token {
            Some(t) => {
                let tc = token::TokenContractClient::new(e, t);
                (
                    self.receivers.iter().map(|a| tc.balance(a) as i64).collect(),
                    self.dist.as_ref().map(|d| tc.balance(d) as i64).unwrap_or(0),
                )
            }
            None => (vec![0; self.u], 0),
        };
        json!({"claimed": claimed, "bal": bal, "pool": pool, "root_is_last_set": rootset})
    }

    fn reset_event(&self) -> Value {
        json!({"op": {"op": "reset", "n": 0, "style": "none", "salt": 0, "pos": 0, "corr": "none", "i": 0, "j": 0,
                      "flavour": self.flavour, "mode": self.mode, "u": self.u, "spread": self.spread, "dup": self.dup},
               "res": "ok", "ret": "na", "err": 0, "obs": self.obs()})
    }
}

/// mirror of spec/Merkle.tla Corrupt (1-based i, j; out-of-range parameters leave the proof unchanged)
fn corrupt(pr: &[H32], corr: &str, i: usize, j: usize, fresh: H32) -> Vec<H32> {
    let n = pr.len();
    let mut v = pr.to_vec();
    let inr = |x: usize| x >= 1 && x <= n;
    match corr {
        "alter" if inr(i) => v[i - 1] = fresh,
        "swap" if inr(i) && inr(j) => v.swap(i - 1, j - 1),
        "drop" if inr(i) => {
            v.remove(i - 1);
        }
        "extend" if i >= 1 && i <= n + 1 => v.insert(i - 1, if inr(j) { pr[j - 1] } else { fresh }),
        // (the ill-typed element itself is put in by `proof_val_ill`)
        "illtyped" if i >= 1 && i <= n + 1 => v.insert(i - 1, fresh),
        "interior" if inr(i) => v = pr[i..].to_vec(),
        _ => {}
    }
    v
}

impl Sys {
    fn step(&mut self, op: &Value) -> Value {
        let kind = s(op, "op").to_string();
        let (n, style, salt) = (n(op, "n") as usize, s(op, "style").to_string(), n(op, "salt"));
        let (pos, corr) = (n_(op, "pos"), s(op, "corr").to_string());
        let (ci, cj) = (n_(op, "i"), n_(op, "j"));
        let sorted = self.mode == "s";
        let fresh = rand32(&mut self.r);
        let fresh_leaf = rand32(&mut self.r);
        let fresh_root = rand32(&mut self.r);
        no_auth(&self.e);
        let (res, code, ret): (&str, i64, &str) = match kind.as_str() {
            "set_root" => {
                let root = self.hs().root(&style, &self.claim_leaves(salt, n));
                let rb = self.bn(&root);
                let out = match self.flavour.as_str() {
                    "sha" => res_of(&dist_sha::DistClient::new(&self.e, self.dist.as_ref().unwrap()).try_set_root(&rb)),
                    "kec" => res_of(&dist_kec::DistClient::new(&self.e, self.dist.as_ref().unwrap()).try_set_root(&rb)),
                    _ => {
                        if self.dist.is_some() {
                            ("fail", -9) // the example installs its root once, at construction
                        } else {
                            // deployment: the constructor sets the root and pulls the funding from the owner
                            self.e.mock_all_auths_allowing_non_root_auth();
                            let c = self.e.register(
                                airdrop::AirdropContract,
                                (rb.clone(), self.token.clone().unwrap(), FUND, self.owner.clone()),
                            );
                            no_auth(&self.e);
                            self.dist = Some(c);
                            ("ok", 0)
                        }
                    }
                };
                if out.0 == "ok" {
                    self.last_root = Some(root);
                }
                (out.0, out.1, "na")
            }
            "verify" => {
                let hs = self.hs();
                let leaves = self.leaves(false, salt, n);
                let base = hs.proof(&style, &leaves, if corr == "other" { cj } else { pos });
                let proof = corrupt(&base, &corr, ci, cj, fresh);
                let leaf = match corr.as_str() {
                    "leaf" => fresh_leaf,
                    "interior" if ci >= 1 && ci <= base.len() => hs.fold(leaves[pos], &base[..ci], pos),
                    _ => leaves[pos],
                };
                let idx: u32 = match corr.as_str() {
                    "index" => cj as u32,
                    "interior" => (pos >> ci) as u32,
                    _ => pos as u32,
                };
                let root = if corr == "root" {
                    match cj {
                        0 => fresh_root,
                        1 => hs.root(&style, &self.leaves(false, 1 - salt, n)),
                        _ => hs.root(&style, &self.leaves(false, salt, if n > 1 { n - 1 } else { 2 })),
                    }
                } else {
                    hs.root(&style, &leaves)
                };
                let (pv, rv, lv) = (self.proof_of(&proof, &corr, ci, cj), self.bn(&root), self.bn(&leaf));
                let cl = verifier::VerifierCClient::new(&self.e, &self.verifier);
                let r = match (self.hk, sorted) {
                    (Hk::Sha, true) => cl.try_verify_sha(&pv, &rv, &lv),
                    (Hk::Kec, true) => cl.try_verify_kec(&pv, &rv, &lv),
                    (Hk::Sha, false) => cl.try_verify_idx_sha(&pv, &rv, &lv, &idx),
                    (Hk::Kec, false) => cl.try_verify_idx_kec(&pv, &rv, &lv, &idx),
                };
                let (res, code) = res_of(&r);
                let ret = match r {
                    Ok(Ok(true)) => "true",
                    Ok(Ok(false)) => "false",
                    _ => "na",
                };
                (res, code, ret)
            }
            "claim" => {
                let hs = self.hs();
                let leaves = self.claim_leaves(salt, n);
                let base = hs.proof(&style, &leaves, self.px(if corr == "other" { cj } else { pos }));
                let pv = self.proof_of(&corrupt(&base, &corr, ci, cj, fresh), &corr, ci, cj);
                let index: u32 = self.ix(if corr == "index" { cj } else { pos });
                let amount = amt(salt, pos as i64) + if corr == "leaf" { 1 } else { 0 };
                let data = self.receiver(index, pos, amount);
                let out = match (self.flavour.as_str(), &self.dist) {
                    (_, None) => ("fail", -9), // the example is not deployed yet
                    ("sha", Some(d)) => {
                        let cl = dist_sha::DistClient::new(&self.e, d);
                        if sorted { res_of(&cl.try_claim(&data, &pv)) } else { res_of(&cl.try_claim_idx(&data, &pv)) }
                    }
                    ("kec", Some(d)) => {
                        let cl = dist_kec::DistClient::new(&self.e, d);
                        if sorted { res_of(&cl.try_claim(&data, &pv)) } else { res_of(&cl.try_claim_idx(&data, &pv)) }
                    }
                    (_, Some(d)) => res_of(&airdrop::AirdropContractClient::new(&self.e, d).try_claim(&index, &data.address, &amount, &pv)),
                };
                (out.0, out.1, "na")
            }
            "advance" => {
                set_seq(&self.e, seq(&self.e) + cj as u32);
                ("ok", 0, "na")
            }
            k => panic!("op {k}"),
        };
        json!({"op": op, "res": res, "ret": ret, "err": code, "obs": self.obs()})
    }
}

fn n_(op: &Value, k: &str) -> usize {
    n(op, k) as usize
}

// ---------------------------------------------------------------------------------------------
// exec / drive
// ---------------------------------------------------------------------------------------------
fn mkop(op: &str, n: usize, style: &str, salt: i64, pos: usize, corr: &str, i: usize, j: usize) -> Value {
    json!({"op": op, "n": n, "style": style, "salt": salt, "pos": pos, "corr": corr, "i": i, "j": j})
}

const STYLES_S: [&str; 4] = ["promote", "dup", "heap", "chain"];
const STYLES_P: [&str; 2] = ["dup", "pad"];

fn main() {
    match cli() {
        Mode::Exec { input, output } => {
            let mut t = Trace::create(&output);
            for (bi, b) in read_behaviours(&input).iter().enumerate() {
                let mode = b.cfg.get("mode").and_then(|v| v.as_str()).unwrap_or("s").to_string();
                let u = b.cfg.get("u").and_then(|v| v.as_u64()).unwrap_or(8) as usize;
                let flavours: Vec<&str> = match b.cfg.get("flavour").and_then(|v| v.as_str()) {
                    Some("lib") | None => vec!["sha", "kec"],
                    Some(f) => vec![f],
                };
                for fl in flavours {
                    // behaviours printed by TLC alternate between the two index maps; a replay names its own
                    let spread = b.cfg.get("spread").and_then(|v| v.as_bool()).unwrap_or(bi % 2 == 1);
                    let dup = b.cfg.get("dup").and_then(|v| v.as_u64()).unwrap_or(0) as usize;
                    let mut sys = Sys::new(fl, &mode, u, 0xC17 + bi as u64, spread, dup);
                    t.reset(sys.reset_event());
                    for op in &b.ops {
                        let ev = sys.step(op);
                        t.step(ev);
                    }
                }
            }
            t.finish();
        }
        Mode::Drive { seed, runs, len, output } => {
            let mut t = Trace::create(&output);
            let mut r = StdRng::seed_from_u64(seed);
            let combos = [("sha", "s"), ("kec", "p"), ("airdrop", "s"), ("kec", "s"), ("sha", "p")];
            const U: usize = 16;
            for run in 0..runs {
                let (fl, mode) = combos[run % combos.len()];
                // a few positional runs use trees of 130..136 leaves: positions (= claim indices) that differ in bit 7
                let wide = mode == "p" && (run / combos.len()) % 3 == 2;
                // a few sorted-pair runs use chain-shaped trees of 33..40 leaves: honest proofs of 32 and more siblings
                let deep = mode == "s" && (run / combos.len()) % 4 == 3;
                let uu = if wide { 136 } else if deep { 40 } else { U };
                let dup = if fl != "airdrop" && (run / combos.len()) % 5 == 4 { *pick(&mut r, &[1usize, 2, 2]) } else { 0 };
                let mut sys = Sys::new(fl, mode, uu, r.gen(), (run / combos.len()) % 2 == 1, dup);
                t.reset(sys.reset_event());
                let styles: &[&str] = if mode == "s" { &STYLES_S } else { &STYLES_P };
                let nmax = if wide { 136 } else if deep { 40 } else { *pick(&mut r, &[4usize, 6, 9, 12]) };
                // state feedback: the tree whose root is installed, and the indices claimed so far
                let mut cur: Option<(usize, String, i64)> = None;
                let mut claimed: Vec<usize> = vec![];
                for _ in 0..len {
                    let fresh_tree = |r: &mut StdRng| {
                        if deep && r.gen_bool(0.7) {
                            return (r.gen_range(33..=nmax), "chain".to_string(), r.gen_range(0..2i64));
                        }
                        (if wide { r.gen_range(130..=nmax) } else { r.gen_range(1..=nmax) }, pick(r, styles).to_string(), r.gen_range(0..2i64))
                    };
                    let kind = if cur.is_none() {
                        *pick(&mut r, &["set_root", "set_root", "claim", "verify"])
                    } else {
                        *pick(&mut r, &["set_root", "claim", "claim", "claim", "claim", "claim", "verify", "verify", "verify", "verify"])
                    };
                    let kind = if dup > 0 { "verify" } else { kind };
                    if r.gen_bool(0.06) {
                        t.step(sys.step(&mkop("advance", 0, "none", 0, 0, "none", 0, *pick(&mut r, &[1usize, 20, 600_000]))));
                        continue;
                    }
                    if kind == "set_root" && !(fl == "airdrop" && cur.is_some() && r.gen_bool(0.8)) {
                        // sometimes the same root again, sometimes the same leaves in another construction
                        let tr = match &cur {
                            Some(c) if r.gen_bool(0.3) => c.clone(),
                            Some(c) if r.gen_bool(0.3) => (c.0, pick(&mut r, styles).to_string(), c.2),
                            _ => fresh_tree(&mut r),
                        };
                        let ev = sys.step(&mkop("set_root", tr.0, &tr.1, tr.2, 0, "none", 0, 0));
                        if ev["res"] == "ok" {
                            cur = Some(tr);
                        }
                        t.step(ev);
                        continue;
                    }
                    let kind = if kind == "set_root" { "claim" } else { kind };
                    let tr = match &cur {
                        Some(c) if kind == "claim" && r.gen_bool(0.85) => c.clone(),
                        _ => fresh_tree(&mut r),
                    };
                    let n = tr.0;
                    let unclaimed: Vec<usize> = (0..n).filter(|k| !claimed.contains(k)).collect();
                    let pos = if deep && r.gen_bool(0.5) {
                        // the two ends of the chain: the deepest and the shallowest leaves
                        (*pick(&mut r, &[0usize, 1, n - 1, n.saturating_sub(2)])).min(n - 1)
                    } else if kind == "claim" && !unclaimed.is_empty() && r.gen_bool(0.8) {
                        *pick(&mut r, &unclaimed)
                    } else {
                        r.gen_range(0..n)
                    };
                    let hs = sys.hs();
                    let plen = hs.proof(&tr.1, &sys.leaves(false, tr.2, n), pos).len();
                    let corr = if dup > 0 || r.gen_bool(0.45) {
                        "none"
                    } else if kind == "verify" {
                        *pick(&mut r, &["leaf", "alter", "swap", "drop", "extend", "index", "root", "other", "interior", "illtyped"])
                    } else {
                        *pick(&mut r, &["leaf", "alter", "swap", "drop", "extend", "index", "other", "illtyped"])
                    };
                    let any = |r: &mut StdRng, hi: usize| if hi == 0 { 0 } else { r.gen_range(1..=hi) };
                    let (corr, i, j) = match corr {
                        "alter" | "drop" | "interior" if plen >= 1 => (corr, any(&mut r, plen), 0),
                        "swap" if plen >= 2 => {
                            let i = any(&mut r, plen);
                            let mut j = any(&mut r, plen);
                            if j == i { j = i % plen + 1; }
                            (corr, i, j)
                        }
                        "extend" => (corr, any(&mut r, plen + 1), r.gen_range(0..=plen)),
                        "illtyped" => (corr, any(&mut r, plen + 1), r.gen_range(0..4)),
                        "index" if mode == "p" || kind == "claim" => {
                            let hi = if kind == "claim" { U - 1 } else { (1usize << plen) + 1 };
                            let mut j = r.gen_range(0..=hi);
                            if r.gen_bool(0.3) { j = pos ^ 1; }
                            if r.gen_bool(0.15) && kind == "verify" { j = 1usize << plen; }
                            if j == pos || (kind == "claim" && j >= U) { j = (pos + 1) % U; }
                            (corr, 0, j)
                        }
                        "root" => (corr, 0, r.gen_range(0..3)),
                        "other" if n >= 2 => {
                            let mut j = r.gen_range(0..n);
                            if j == pos { j = (pos + 1) % n; }
                            (corr, 0, j)
                        }
                        "leaf" => (corr, 0, 0),
                        _ => ("none", 0, 0),
                    };
                    let ev = sys.step(&mkop(kind, n, &tr.1, tr.2, pos, corr, i, j));
                    if kind == "claim" && ev["res"] == "ok" {
                        claimed.push(if corr == "index" { j } else { pos });
                    }
                    t.step(ev);
                }
            }
            t.finish();
        }
    }
}
