//! Binding of spec/MerkleVoting.tla (beyond the listed properties, X04): the merkle-voting example as it is.
//!
//! The tree is built HERE with the host's SHA-256 directly (leaf = sha256(xdr(VoteData)), nodes = sha256 of the
//! sorted pair, an odd node is promoted), as the example's own test and the airdrop tooling do; `pvalid` is this
//! file's own fold of the submitted leaf and proof, never the library's answer.
//!
//! Amount scale: regime "s" logs voting powers verbatim, regime "o" in units of 2^124 (7 units = i128::MAX
//! rounded down to the unit), so that the tallies' checked additions overflow inside short histories.
#![allow(dead_code)]
use soroban_sdk::{xdr::ToXdr, Address, Bytes, BytesN, Env, Vec as SVec};
use verif_harness::*;

#[path = "/repo/examples/merkle-voting/src/contract.rs"]
mod voting;
use voting::VoteData;

type H32 = [u8; 32];
const VOTERS: [&str; 4] = ["a", "b", "c", "d"];
const IDS: [u32; 9] = [0, 1, 2, 3, 4, 5, 6, 7, 1_000_000];

// ---------------------------------------------------------------------------------------------
// tree on real bytes (sorted-pair SHA-256, odd node promoted)
// ---------------------------------------------------------------------------------------------
fn sha(e: &Env, data: &[u8]) -> H32 {
    e.crypto().sha256(&Bytes::from_slice(e, data)).to_array()
}

fn pair(e: &Env, a: &H32, b: &H32) -> H32 {
    let (x, y) = if a > b { (b, a) } else { (a, b) };
    let mut buf = [0u8; 64];
    buf[..32].copy_from_slice(x);
    buf[32..].copy_from_slice(y);
    sha(e, &buf)
}

fn up(e: &Env, lv: &[H32]) -> Vec<H32> {
    let mut out = Vec::new();
    let mut i = 0;
    while i < lv.len() {
        out.push(if i + 1 < lv.len() { pair(e, &lv[i], &lv[i + 1]) } else { lv[i] });
        i += 2;
    }
    out
}

fn root_of(e: &Env, leaves: &[H32]) -> H32 {
    let mut lv = leaves.to_vec();
    while lv.len() > 1 {
        lv = up(e, &lv);
    }
    lv[0]
}

fn proof_of(e: &Env, leaves: &[H32], k: usize) -> Vec<H32> {
    let mut out = Vec::new();
    let mut lv = leaves.to_vec();
    let mut p = k;
    while lv.len() > 1 {
        let sib = if p % 2 == 0 { p + 1 } else { p - 1 };
        if sib < lv.len() {
            out.push(lv[sib]);
        }
        lv = up(e, &lv);
        p /= 2;
    }
    out
}

fn fold(e: &Env, mut x: H32, pr: &[H32]) -> H32 {
    for h in pr {
        x = pair(e, &x, h);
    }
    x
}

// ---------------------------------------------------------------------------------------------
// system under test
// ---------------------------------------------------------------------------------------------
struct Sys {
    e: Env,
    names: Names,
    c: Address,
    regime: String,
    unit: i128,
    max: i64,
    n: usize,
    pows: Vec<i64>,
    skip: u64,
    leaves: Vec<H32>,
    root: H32,
    steps: u64,
}

fn default_pows(regime: &str) -> Vec<i64> {
    if regime == "o" { vec![4, 3, 2, 1] } else { vec![5, 3, 0, 2] }
}

impl Sys {
    /// cfg: {regime: "s"|"o", pows: [4 ints, model units], n: 1..4 leaves in the tree, skip: address offset}
    fn new(cfg: &Value) -> Sys {
        let regime = cfg.get("regime").and_then(|v| v.as_str()).unwrap_or("s").to_string();
        let pows: Vec<i64> = match cfg.get("pows").and_then(|v| v.as_array()) {
            Some(a) => a.iter().map(|x| x.as_i64().expect("pow")).collect(),
            None => default_pows(&regime),
        };
        assert!(pows.len() == 4, "four voters");
        let n = cfg.get("n").and_then(|v| v.as_u64()).unwrap_or(4) as usize;
        assert!((1..=4).contains(&n), "1..4 leaves");
        let skip = cfg.get("skip").and_then(|v| v.as_u64()).unwrap_or(0);
        let (unit, max) = if regime == "o" { (1i128 << 124, 7) } else { (1i128, 1_000_000_000) };
        let e = new_env(&LedgerCfg::default());
        // Address::generate is a deterministic sequence per Env: skip some so that the leaves differ between runs
        use soroban_sdk::testutils::Address as _;
        for _ in 0..skip {
            let _ = Address::generate(&e);
        }
        let names = Names::new(&e, &["a", "b", "c", "d", "x"]);
        let mut sys = Sys { e: e.clone(), names, c: Address::generate(&e), regime, unit, max, n, pows, skip, leaves: vec![], root: [0u8; 32], steps: 0 };
        sys.leaves = (0..n).map(|k| sys.leaf_hash(&sys.data(k as u32, VOTERS[k], sys.pows[k]))).collect();
        sys.root = root_of(&e, &sys.leaves);
        sys.c = e.register(voting::MerkleVoting, (BytesN::from_array(&e, &sys.root),));
        sys
    }

    fn scale(&self, pow: i64) -> i128 {
        // beyond i128 (only mutated, never genuine, powers): an extreme value that is no multiple of the unit,
        // hence equal to no leaf's power
        (pow as i128).checked_mul(self.unit).unwrap_or(if pow > 0 { i128::MAX } else { i128::MIN + 1 })
    }

    fn data(&self, idx: u32, acct: &str, pow: i64) -> VoteData {
        VoteData { index: idx, account: self.names.get(acct), voting_power: self.scale(pow) }
    }

    fn leaf_hash(&self, d: &VoteData) -> H32 {
        let x = d.clone().to_xdr(&self.e);
        let buf: Vec<u8> = x.iter().collect();
        sha(&self.e, &buf)
    }

    /// the proof the caller submits, derived from the tree's proof of leaf k
    fn proof(&self, kind: &str, k: usize) -> Vec<H32> {
        let good = if k < self.n { proof_of(&self.e, &self.leaves, k) } else { vec![] };
        let mut r = StdRng::seed_from_u64(self.skip * 1_000_003 + self.steps);
        let rnd = |r: &mut StdRng| {
            let mut x = [0u8; 32];
            r.fill(&mut x);
            x
        };
        match kind {
            "good" => good,
            "other" => proof_of(&self.e, &self.leaves, (k + 1) % self.n),
            "empty" => vec![],
            "flip" => {
                let mut p = if good.is_empty() { vec![rnd(&mut r)] } else { good };
                let (i, b) = (r.gen_range(0..p.len()), r.gen_range(0..256));
                p[i][b / 8] ^= 1 << (b % 8);
                p
            }
            "trunc" => good[..good.len().saturating_sub(1)].to_vec(),
            "extra" => {
                let mut p = good;
                p.push(rnd(&mut r));
                p
            }
            "random" => (0..r.gen_range(1..4)).map(|_| rnd(&mut r)).collect(),
            "leaf" => vec![self.leaves[k % self.n]],
            k => panic!("proof kind {k}"),
        }
    }

    /// a tally in units of the amount scale (clamped to what TLC can hold); false when it is not a whole multiple
    fn units(&self, v: i128) -> (i64, bool) {
        let (q, rem) = (v.div_euclid(self.unit), v.rem_euclid(self.unit));
        if q.abs() >= (1 << 30) {
            (if q > 0 { 1 << 30 } else { -(1 << 30) }, false)
        } else {
            (q as i64, rem == 0)
        }
    }

    fn obs(&self) -> Value {
        no_auth(&self.e);
        let cl = voting::MerkleVotingClient::new(&self.e, &self.c);
        let (pro, con, ok) = match cl.try_get_vote_results() {
            Ok(Ok((p, c))) => (p, c, true),
            _ => (0, 0, false),
        };
        let ((p, pe), (c, ce)) = (self.units(pro), self.units(con));
        let voted: Vec<u32> = IDS.iter().copied().filter(|i| matches!(cl.try_has_voted(i), Ok(Ok(true)))).collect();
        json!({"pro": p, "con": c, "exact": ok && pe && ce, "ids": IDS, "voted": voted})
    }

    fn step(&mut self, op: &Value) -> Value {
        self.steps += 1;
        let e = self.e.clone();
        let e = &e;
        assert!(s(op, "op") == "vote", "op {op}");
        let who = auth_addrs(op, &self.names);
        let cl = voting::MerkleVotingClient::new(e, &self.c);
        let vd = self.data(n(op, "idx") as u32, s(op, "acct"), n(op, "pow"));
        let pr = self.proof(s(op, "proof"), n(op, "k") as usize);
        let approve = op.get("approve").and_then(|v| v.as_bool()).expect("approve");
        let pvalid = fold(e, self.leaf_hash(&vd), &pr) == self.root;
        let mut proof: SVec<BytesN<32>> = SVec::new(e);
        for h in &pr {
            proof.push_back(BytesN::from_array(e, h));
        }
        set_auth_same(e, &who, &Inv::new(&self.c, "vote", args(e, (vd.clone(), proof.clone(), approve))));
        let r = res_of(&cl.try_vote(&vd, &proof, &approve));
        json!({"op": op, "res": r.0, "err": r.1, "pvalid": pvalid, "obs": self.obs()})
    }

    fn reset_event(&self) -> Value {
        let leaves: Vec<Value> = (0..self.n).map(|k| json!({"idx": k, "acct": VOTERS[k], "pow": self.pows[k]})).collect();
        json!({"op": {"op": "reset", "regime": self.regime, "pows": self.pows, "n": self.n, "skip": self.skip,
                      "leaves": leaves, "max": self.max},
               "res": "ok", "err": 0, "pvalid": false, "obs": self.obs()})
    }
}

/// one random call, biased by the current state (which indices have voted) so that a good share succeeds
fn random_op(r: &mut StdRng, sys: &Sys, voted: &[u32]) -> Value {
    let fresh: Vec<usize> = (0..sys.n).filter(|k| !voted.contains(&(*k as u32))).collect();
    let k = if !fresh.is_empty() && r.gen_bool(0.7) { *pick(r, &fresh) } else { r.gen_range(0..4) };
    let (mut idx, mut acct, mut pow) = (k as i64, VOTERS[k].to_string(), sys.pows[k]);
    let mutation = if r.gen_bool(0.65) { "none" } else { *pick(r, &["power", "account", "index"]) };
    match mutation {
        "power" => pow += *pick(r, &[1i64, -1, 2, 7, -9]),
        "account" => acct = pick(r, &["a", "b", "c", "d", "x"]).to_string(),
        "index" => idx = *pick(r, &[(k as i64 + 1) % 4, k as i64 + 4, 7, 1_000_000]),
        _ => {}
    }
    if mutation == "account" && acct == VOTERS[k] {
        acct = "x".into();
    }
    let proof = if r.gen_bool(0.75) { "good" } else { *pick(r, &["other", "empty", "flip", "trunc", "extra", "random", "leaf"]) };
    // in the overflow regime most votes go to one side so that its tally reaches i128::MAX
    let approve = r.gen_bool(if sys.regime == "o" { 0.8 } else { 0.5 });
    let mut auth: Vec<String> = match r.gen_range(0..10) {
        0..=4 => vec![acct.clone()],
        5..=6 => vec![],
        7 => vec![pick(r, &["a", "b", "c", "d", "x"]).to_string()],
        _ => subset(r, &["a", "b", "c", "d", "x"]),
    };
    auth.sort();
    auth.dedup();
    json!({"op": "vote", "k": k, "mut": mutation, "idx": idx, "acct": acct, "pow": pow, "proof": proof,
           "approve": approve, "auth": auth})
}

fn random_cfg(r: &mut StdRng) -> Value {
    let regime = *pick(r, &["s", "o", "o"]);
    let neg = r.gen_bool(0.15);
    let pows: Vec<i64> = (0..4)
        .map(|_| {
            let p = if regime == "o" { r.gen_range(0..8) } else { *pick(r, &[0i64, 1, 2, 3, 5, 8, 13, 100]) };
            if neg && r.gen_bool(0.4) { -p - 1 } else { p }
        })
        .collect();
    json!({"regime": regime, "pows": pows, "n": *pick(r, &[1, 2, 3, 4, 4, 4]), "skip": r.gen_range(0..40)})
}

fn main() {
    match cli() {
        Mode::Exec { input, output } => {
            let mut t = Trace::create(&output);
            for b in read_behaviours(&input) {
                let mut sys = Sys::new(&b.cfg);
                t.reset(sys.reset_event());
                for op in &b.ops {
                    let ev = sys.step(op);
                    t.step(ev);
                }
            }
            t.finish();
        }
        Mode::Drive { seed, runs, len, output } => {
            let mut t = Trace::create(&output);
            let mut r = StdRng::seed_from_u64(seed);
            for _ in 0..runs {
                let mut sys = Sys::new(&random_cfg(&mut r));
                let first = sys.reset_event();
                let mut voted: Vec<u32> = vec![];
                t.reset(first);
                // a run is over early once every leaf has voted and a few more calls were refused
                let mut after_full = 0;
                for _ in 0..len {
                    time_passes(&sys.e, &mut r, 3000);
                    time_passes_long(&sys.e, &mut r);
                    let op = random_op(&mut r, &sys, &voted);
                    let ev = sys.step(&op);
                    voted = ev["obs"]["voted"].as_array().unwrap().iter().map(|x| x.as_u64().unwrap() as u32).collect();
                    t.step(ev);
                    if (0..sys.n).all(|k| voted.contains(&(k as u32))) {
                        after_full += 1;
                        if after_full > 4 {
                            break;
                        }
                    }
                }
            }
            t.finish();
        }
    }
}
