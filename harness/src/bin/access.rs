//! Binding of spec/Access.tla: the nft-access-control example, which implements the
//! `AccessControl` trait with the library's defaults (grant_role, revoke_role, renounce_role,
//! set_role_admin, transfer/accept/renounce admin and every getter forward 1:1 to
//! packages/access/src/access_control/storage.rs) and carries the macro-guarded entry points
//! `#[only_admin]`, `#[only_role]`, `#[has_role]`, `#[has_any_role]`, `#[only_any_role]`.
//!
//! Presets ("chain", "crowd") and the token stock used by `burn` are established by set-up calls
//! that are properly authorized by the admin and not judged; the state they leave is judged by
//! the first recorded step (every getter is compared with the ghost state).
#![allow(dead_code)]
use std::collections::BTreeMap;

use soroban_sdk::{Address, Env, String as SStr, Symbol};
use verif_harness::*;

#[path = "/repo/examples/nft-access-control/src/contract.rs"]
mod nftac;

use nftac::ExampleContractClient as Client;

/// The same entry points (names, arguments, results) as the example, but the macro-guarded ones are methods of a
/// trait implementation - exported like any other entry point, yet not `pub` in the source, which is how most
/// contracts of the repository carry `#[only_role]` (allow-list, block-list, SAC admin wrapper, royalties ...).
/// Driven through the example's generated client (a client only names functions and arguments).
mod lab {
    use soroban_sdk::{contract, contractimpl, vec, Address, Env, String, Symbol, Vec};
    use stellar_access::access_control::{set_admin, AccessControl};
    use stellar_macros::{has_any_role, has_role, only_admin, only_any_role, only_role, when_not_paused};

    #[contract]
    pub struct Lab;

    pub trait Gated {
        fn admin_restricted_function(e: &Env) -> Vec<String>;
        fn mint(e: &Env, to: Address, token_id: u32, caller: Address);
        fn multi_role_action(e: &Env, caller: Address) -> String;
        fn multi_role_auth_action(e: &Env, caller: Address) -> String;
        fn burn(e: &Env, from: Address, token_id: u32);
        fn stack_any_admin(e: &Env, caller: Address) -> String;
        fn stack_role_admin(e: &Env, caller: Address) -> String;
        fn stack_admin_any(e: &Env, caller: Address) -> String;
        fn stack_np_admin(e: &Env) -> String;
        fn stack_admin_np(e: &Env) -> String;
    }

    #[contractimpl]
    impl Lab {
        pub fn __constructor(e: &Env, _uri: String, _name: String, _symbol: String, admin: Address) {
            set_admin(e, &admin);
        }
    }

    #[contractimpl]
    impl Gated for Lab {
        #[only_admin]
        fn admin_restricted_function(e: &Env) -> Vec<String> {
            vec![&e, String::from_str(e, "ok")]
        }

        #[only_role(caller, "minter")]
        fn mint(e: &Env, to: Address, token_id: u32, caller: Address) {
            let _ = (to, token_id);
        }

        #[has_any_role(caller, ["minter", "burner"])]
        fn multi_role_action(e: &Env, caller: Address) -> String {
            caller.require_auth(); // as in the example: this macro does not ask for the authorization
            String::from_str(e, "ok")
        }

        #[only_any_role(caller, ["minter", "burner"])]
        fn multi_role_auth_action(e: &Env, caller: Address) -> String {
            String::from_str(e, "ok")
        }

        // as in the example: the macro checks the role, the body asks for the authorization
        #[has_role(from, "burner")]
        fn burn(e: &Env, from: Address, token_id: u32) {
            let _ = token_id;
            from.require_auth();
        }

        // two guards on one entry point (no example stacks them): both must hold, whatever their order
        #[only_any_role(caller, ["minter", "burner"])]
        #[only_admin]
        fn stack_any_admin(e: &Env, caller: Address) -> String {
            String::from_str(e, "ok")
        }

        #[only_role(caller, "minter")]
        #[only_admin]
        fn stack_role_admin(e: &Env, caller: Address) -> String {
            String::from_str(e, "ok")
        }

        #[only_admin]
        #[only_any_role(caller, ["minter", "burner"])]
        fn stack_admin_any(e: &Env, caller: Address) -> String {
            String::from_str(e, "ok")
        }

        // a guard of another family on top of / beneath the admin guard (the contract is never paused)
        #[when_not_paused]
        #[only_admin]
        fn stack_np_admin(e: &Env) -> String {
            String::from_str(e, "ok")
        }

        #[only_admin]
        #[when_not_paused]
        fn stack_admin_np(e: &Env) -> String {
            String::from_str(e, "ok")
        }
    }

    #[contractimpl(contracttrait)]
    impl AccessControl for Lab {}
}

// ("empty": the role whose name is the empty symbol - a role like any other, not a wildcard and not "no admin role")
const ROLES: [&str; 4] = ["minter", "burner", "r3", "empty"];
/// In "long" runs the role the model calls "r3" is a symbol longer than nine characters (a host object, no longer a
/// value packed into 64 bits): everything the library does with role names must not depend on their representation.
const R3_LONG: &str = "r3_a_role_name_beyond_nine_chars";
thread_local! { static LONG: std::cell::Cell<bool> = const { std::cell::Cell::new(false) }; }
fn real_role(r: &str) -> &str {
    if r == "r3" && LONG.with(|c| c.get()) { R3_LONG } else if r == "empty" { "" } else { r }
}
const ACCTS_EXEC: [&str; 4] = ["a", "b", "c", "d"];
const ACCTS_DRIVE: [&str; 5] = ["a", "b", "c", "d", "e"];
const PROBES: u32 = 3; // out-of-range indices probed: count, count+1, count+2
const MAX_LIST: u32 = 16;
const DRIVE_STOCK: u32 = 3;

/// Access!PresetGrants / Access!PresetRadm
fn preset_grants(p: &str) -> Vec<(&'static str, &'static str)> {
    match p {
        "chain" => vec![("b", "burner"), ("c", "minter"), ("c", "r3")],
        "crowd" => {
            vec![("a", "minter"), ("b", "minter"), ("b", "burner"), ("c", "minter"), ("c", "burner"), ("d", "minter")]
        }
        "fresh" => vec![],
        p => panic!("preset {p}"),
    }
}

fn preset_radm(p: &str) -> Vec<(&'static str, &'static str)> {
    match p {
        "chain" => vec![("minter", "burner"), ("burner", "minter"), ("r3", "r3")],
        _ => vec![],
    }
}

fn must(what: &str, ok: bool) {
    if !ok {
        panic!("set-up call {what} was refused by the contract");
    }
}

struct Sys {
    e: Env,
    names: Names,
    accts: Vec<String>,
    c: Address,
    next_token: u32,
    stock: BTreeMap<String, Vec<u32>>,
    /// designated recipient of the running admin hand-over (driver feedback only; there is no getter)
    pend: String,
    /// "example" | "lab"
    imp: String,
    selfadmin: bool,
}

impl Sys {
    /// `stock`: number of tokens each account gets before the judged history starts
    /// `selfadmin`: the contract is constructed as its own admin ("self"), the way a self-administered controller is;
    /// nobody can then authorize in the admin's name except through mocked entries for the contract's address
    fn new(accts: &[&str], preset: &str, stock: &BTreeMap<String, u32>, imp: &str, selfadmin: bool) -> Sys {
        let e = new_env(&LedgerCfg::default());
        let mut names = Names::new(&e, accts);
        let at = <Address as soroban_sdk::testutils::Address>::generate(&e);
        names.insert("self", at.clone());
        let a = if selfadmin { at.clone() } else { names.get("a") };
        let ctor = (SStr::from_str(&e, "u"), SStr::from_str(&e, "n"), SStr::from_str(&e, "s"), a.clone());
        let c = if imp == "lab" { e.register_at(&at, lab::Lab, ctor) } else { e.register_at(&at, nftac::ExampleContract, ctor) };
        let mut sys = Sys {
            e,
            names,
            accts: accts.iter().map(|x| x.to_string()).collect(),
            c,
            next_token: 1000,
            stock: BTreeMap::new(),
            pend: "none".into(),
            imp: imp.to_string(),
            selfadmin,
        };
        if !selfadmin {
            sys.setup(preset, stock);
        }
        sys
    }

    fn sym(&self, r: &str) -> Symbol {
        Symbol::new(&self.e, real_role(r))
    }

    /// Set-up calls: each one carries exactly the admin's authorization for exactly that call.
    fn setup(&mut self, preset: &str, stock: &BTreeMap<String, u32>) {
        let e = self.e.clone();
        let cl = Client::new(&e, &self.c);
        let a = self.names.get("a");
        let c = self.c.clone();
        let grant = |acct: &Address, role: &Symbol| {
            set_auth_same(&e, &[a.clone()], &Inv::new(&c, "grant_role", args(&e, (acct.clone(), role.clone(), a.clone()))));
            must("grant_role", cl.try_grant_role(acct, role, &a).is_ok());
        };
        // token stock for `burn`: the admin makes itself minter, mints, and steps down again
        if stock.values().any(|&k| k > 0) {
            let minter = self.sym("minter");
            grant(&a, &minter);
            let mut id = 1u32;
            let mut st = BTreeMap::new();
            for (who, &k) in stock {
                let to = self.names.get(who);
                for _ in 0..k {
                    set_auth_same(&e, &[a.clone()], &Inv::new(&self.c, "mint", args(&e, (to.clone(), id, a.clone()))));
                    must("mint", cl.try_mint(&to, &id, &a).is_ok());
                    st.entry(who.clone()).or_insert_with(Vec::new).push(id);
                    id += 1;
                }
            }
            set_auth_same(&e, &[a.clone()], &Inv::new(&self.c, "revoke_role", args(&e, (a.clone(), minter.clone(), a.clone()))));
            must("revoke_role", cl.try_revoke_role(&a, &minter, &a).is_ok());
            self.stock = st;
        }
        for (r, ar) in preset_radm(preset) {
            let (r, ar) = (self.sym(r), self.sym(ar));
            set_auth_same(&e, &[a.clone()], &Inv::new(&self.c, "set_role_admin", args(&e, (r.clone(), ar.clone()))));
            must("set_role_admin", cl.try_set_role_admin(&r, &ar).is_ok());
        }
        for (x, r) in preset_grants(preset) {
            grant(&self.names.get(x), &self.sym(r));
        }
        no_auth(&e);
    }

    fn role_name(&self, s: &Symbol) -> String {
        let n = s.to_string();
        if n == R3_LONG { "r3".to_string() } else if n.is_empty() { "empty".to_string() } else { n }
    }

    /// Projection of the state through the public getters, for the whole universe.
    fn obs(&self) -> Value {
        let e = &self.e;
        no_auth(e);
        let cl = Client::new(e, &self.c);
        let admin = match cl.try_get_admin() {
            Ok(Ok(a)) => self.names.opt_name(&a),
            _ => "?".to_string(),
        };
        let mut radm = JMap::new();
        let mut has = JMap::new();
        let mut count = JMap::new();
        let mut members = JMap::new();
        let mut oob = JMap::new();
        for r in ROLES {
            let rs = self.sym(r);
            radm.insert(
                r.into(),
                match cl.try_get_role_admin(&rs) {
                    Ok(Ok(Some(s))) => json!(self.role_name(&s)),
                    Ok(Ok(None)) => json!("none"),
                    _ => json!("?"),
                },
            );
            let mut h = JMap::new();
            for x in &self.accts {
                let v: i64 = match cl.try_has_role(&self.names.get(x), &rs) {
                    Ok(Ok(Some(i))) => (i as i64).min(1 << 30),
                    Ok(Ok(None)) => -1,
                    _ => -2,
                };
                h.insert(x.clone(), json!(v));
            }
            has.insert(r.into(), Value::Object(h));
            let n: u32 = match cl.try_get_role_member_count(&rs) {
                Ok(Ok(n)) => n,
                _ => u32::MAX,
            };
            count.insert(r.into(), json!((n as i64).min(1 << 30)));
            let shown = n.min(MAX_LIST);
            let mut l = Vec::new();
            for i in 0..shown {
                l.push(match cl.try_get_role_member(&rs, &i) {
                    Ok(Ok(a)) => self.names.name_of(&a),
                    _ => "?".to_string(),
                });
            }
            members.insert(r.into(), json!(l));
            // out-of-range indices must be refused
            let mut refused = true;
            for i in shown..shown.saturating_add(PROBES) {
                refused &= !matches!(cl.try_get_role_member(&rs, &i), Ok(Ok(_)));
            }
            refused &= !matches!(cl.try_get_role_member(&rs, &u32::MAX), Ok(Ok(_)));
            oob.insert(r.into(), json!(refused));
        }
        let roles: Vec<String> = match cl.try_get_existing_roles() {
            Ok(Ok(v)) => v.iter().map(|s| self.role_name(&s)).collect(),
            _ => vec!["?".to_string()],
        };
        json!({"admin": admin, "radm": radm, "has": has, "count": count, "members": members, "oob": oob, "roles": roles})
    }

    fn step(&mut self, op: &Value) -> Value {
        let e = self.e.clone();
        let e = &e;
        let cl = Client::new(e, &self.c);
        let who = auth_addrs(op, &self.names);
        let kind = s(op, "op");
        let addr = |k: &str| self.names.get(s(op, k));
        // the role name "empty" stands for the empty symbol (a legal Symbol, and the placeholder of the library's events)
        let role = |k: &str| Symbol::new(e, real_role(s(op, k)));
        let now = seq(e);
        let (res, code) = match kind {
            "grant" => {
                let (acct, r, caller) = (addr("acct"), role("role"), addr("caller"));
                set_auth_same(e, &who, &Inv::new(&self.c, "grant_role", args(e, (acct.clone(), r.clone(), caller.clone()))));
                res_of(&cl.try_grant_role(&acct, &r, &caller))
            }
            "revoke" => {
                let (acct, r, caller) = (addr("acct"), role("role"), addr("caller"));
                set_auth_same(e, &who, &Inv::new(&self.c, "revoke_role", args(e, (acct.clone(), r.clone(), caller.clone()))));
                res_of(&cl.try_revoke_role(&acct, &r, &caller))
            }
            "renounce_role" => {
                let (r, caller) = (role("role"), addr("caller"));
                set_auth_same(e, &who, &Inv::new(&self.c, "renounce_role", args(e, (r.clone(), caller.clone()))));
                res_of(&cl.try_renounce_role(&r, &caller))
            }
            "set_role_admin" => {
                let (r, ar) = (role("role"), role("arole"));
                set_auth_same(e, &who, &Inv::new(&self.c, "set_role_admin", args(e, (r.clone(), ar.clone()))));
                res_of(&cl.try_set_role_admin(&r, &ar))
            }
            "transfer" => {
                let new = addr("acct");
                let until = now + 100;
                set_auth_same(e, &who, &Inv::new(&self.c, "transfer_admin_role", args(e, (new.clone(), until))));
                let r = res_of(&cl.try_transfer_admin_role(&new, &until));
                if r.0 == "ok" {
                    self.pend = s(op, "acct").to_string();
                }
                r
            }
            "accept" => {
                set_auth_same(e, &who, &Inv::new(&self.c, "accept_admin_transfer", args(e, ())));
                let r = res_of(&cl.try_accept_admin_transfer());
                if r.0 == "ok" {
                    self.pend = "none".into();
                }
                r
            }
            "renounce_admin" => {
                set_auth_same(e, &who, &Inv::new(&self.c, "renounce_admin", args(e, ())));
                res_of(&cl.try_renounce_admin())
            }
            "admin_fn" => {
                set_auth_same(e, &who, &Inv::new(&self.c, "admin_restricted_function", args(e, ())));
                res_of(&cl.try_admin_restricted_function())
            }
            "mint" => {
                // mints a fresh token to the caller itself
                let caller = addr("caller");
                let id = self.next_token;
                self.next_token += 1;
                set_auth_same(e, &who, &Inv::new(&self.c, "mint", args(e, (caller.clone(), id, caller.clone()))));
                let r = res_of(&cl.try_mint(&caller, &id, &caller));
                if r.0 == "ok" {
                    self.stock.entry(s(op, "caller").to_string()).or_default().push(id);
                }
                r
            }
            "multi_role_action" => {
                let caller = addr("caller");
                set_auth_same(e, &who, &Inv::new(&self.c, "multi_role_action", args(e, (caller.clone(),))));
                res_of(&cl.try_multi_role_action(&caller))
            }
            "stack_np_admin" | "stack_admin_np" => {
                set_auth_same(e, &who, &Inv::new(&self.c, kind, args(e, ())));
                if self.imp == "lab" {
                    let r = e.try_invoke_contract::<soroban_sdk::Val, soroban_sdk::Error>(&self.c, &Symbol::new(e, kind), args(e, ()));
                    res_of(&r)
                } else {
                    ("fail", -9)
                }
            }
            "stack_any_admin" | "stack_role_admin" | "stack_admin_any" => {
                // only the lab contract has these entry points
                let caller = addr("caller");
                set_auth_same(e, &who, &Inv::new(&self.c, kind, args(e, (caller.clone(),))));
                if self.imp == "lab" {
                    let r = e.try_invoke_contract::<soroban_sdk::Val, soroban_sdk::Error>(&self.c, &Symbol::new(e, kind), args(e, (caller.clone(),)));
                    res_of(&r)
                } else {
                    ("fail", -9)
                }
            }
            "multi_role_auth_action" => {
                let caller = addr("caller");
                set_auth_same(e, &who, &Inv::new(&self.c, "multi_role_auth_action", args(e, (caller.clone(),))));
                res_of(&cl.try_multi_role_auth_action(&caller))
            }
            "burn" => {
                // burns a token the caller owns (token 0 never exists: the call then fails for a
                // reason the property does not care about)
                let from = addr("caller");
                let name = s(op, "caller").to_string();
                let id = self.stock.get(&name).and_then(|v| v.last().copied()).unwrap_or(0);
                set_auth_same(e, &who, &Inv::new(&self.c, "burn", args(e, (from.clone(), id))));
                let r = res_of(&cl.try_burn(&from, &id));
                if r.0 == "ok" {
                    self.stock.get_mut(&name).map(|v| v.pop());
                }
                r
            }
            k => panic!("op {k}"),
        };
        json!({"op": op, "now": now, "res": res, "err": code, "obs": self.obs()})
    }
}

/// `stock`: tokens per account put in stock before the run (-1: one per burn call of the behaviour).
/// The reset op minus "op" comes back as `cfg` when a violation is replayed.
fn reset_event(sys: &Sys, preset: &str, stock: i64) -> Value {
    json!({"op": {"op": "reset", "acct": "none", "role": "none", "arole": "none", "caller": "none", "auth": [],
                  "preset": preset, "accts": sys.accts.len(), "stock": stock, "imp": sys.imp, "selfadmin": sys.selfadmin, "long": LONG.with(|c| c.get())},
           "now": seq(&sys.e), "res": "ok", "err": 0, "obs": sys.obs()})
}

fn mk(kind: &str, acct: &str, role: &str, arole: &str, caller: &str, auth: &[String]) -> Value {
    json!({"op": kind, "acct": acct, "role": role, "arole": arole, "caller": caller, "auth": auth})
}

/// What the driver knows about the current state (from the last observation).
struct View {
    admin: String,
    holders: BTreeMap<String, Vec<String>>,
    radm: BTreeMap<String, String>,
}

fn view(obs: &Value) -> View {
    let mut holders = BTreeMap::new();
    let mut radm = BTreeMap::new();
    for r in ROLES {
        let l: Vec<String> =
            obs["members"][r].as_array().map(|v| v.iter().map(|x| x.as_str().unwrap_or("?").to_string()).collect()).unwrap_or_default();
        holders.insert(r.to_string(), l);
        radm.insert(r.to_string(), obs["radm"][r].as_str().unwrap_or("none").to_string());
    }
    View { admin: obs["admin"].as_str().unwrap_or("none").to_string(), holders, radm }
}

impl View {
    /// accounts entitled to grant / revoke `role`
    fn authorities(&self, role: &str) -> Vec<String> {
        let mut v = Vec::new();
        if self.admin != "none" {
            v.push(self.admin.clone());
        }
        if let Some(ar) = self.radm.get(role) {
            if let Some(h) = self.holders.get(ar) {
                v.extend(h.iter().cloned());
            }
        }
        v
    }
}

fn pick_or<'a>(r: &mut StdRng, preferred: &'a [String], p: f64, all: &'a [&'a str]) -> String {
    if !preferred.is_empty() && r.gen_bool(p) {
        pick(r, preferred).clone()
    } else {
        pick(r, all).to_string()
    }
}

/// authorizers of a call whose principal is `principal` ("none" when there is none)
fn gen_auth(r: &mut StdRng, principal: &str, admin: &str, accts: &[&str]) -> Vec<String> {
    let mut v: Vec<String> = match r.gen_range(0..100) {
        0..=54 => vec![principal.to_string()],
        55..=64 => {
            let mut v = subset(r, accts);
            v.push(principal.to_string());
            v
        }
        65..=76 => subset(r, accts),
        77..=84 => accts.iter().filter(|x| **x != principal).map(|x| x.to_string()).collect(),
        85..=91 => vec![],
        92..=96 => vec![admin.to_string()],
        _ => accts.iter().map(|x| x.to_string()).collect(),
    };
    v.retain(|x| x != "none");
    v.sort();
    v.dedup();
    v
}

fn main() {
    match cli() {
        Mode::Exec { input, output } => {
            let mut t = Trace::create(&output);
            for (bi, b) in read_behaviours(&input).iter().enumerate() {
                let preset = b.cfg.get("preset").and_then(|v| v.as_str()).unwrap_or("fresh").to_string();
                // replayed driver runs name their universe and stock; TLC's behaviours use the defaults
                let accts: &[&str] =
                    if b.cfg.get("accts").and_then(|v| v.as_u64()) == Some(5) { &ACCTS_DRIVE } else { &ACCTS_EXEC };
                let k = b.cfg.get("stock").and_then(|v| v.as_i64()).unwrap_or(-1);
                let mut stock: BTreeMap<String, u32> = BTreeMap::new();
                if k >= 0 {
                    stock = accts.iter().map(|x| (x.to_string(), k as u32)).collect();
                } else {
                    // one token in stock per burn call of the behaviour
                    for op in &b.ops {
                        if s(op, "op") == "burn" {
                            *stock.entry(s(op, "caller").to_string()).or_default() += 1;
                        }
                    }
                }
                // TLC's behaviours alternate between the example and the trait-implemented entry points
                let imp = b.cfg.get("imp").and_then(|v| v.as_str()).map(|x| x.to_string())
                    .unwrap_or_else(|| if bi % 2 == 1 { "lab".into() } else { "example".into() });
                let selfadmin = b.cfg.get("selfadmin").and_then(|v| v.as_bool()).unwrap_or(false);
                LONG.with(|c| c.set(b.cfg.get("long").and_then(|v| v.as_bool()).unwrap_or((bi / 2) % 2 == 1)));
                let mut sys = Sys::new(accts, &preset, &stock, &imp, selfadmin);
                t.reset(reset_event(&sys, &preset, k));
                for op in &b.ops {
                    let ev = sys.step(op);
                    t.step(ev);
                }
            }
            t.finish();
        }
        Mode::Drive { seed, runs, len, output } => {
            let mut t = Trace::create(&output);
            let mut r = StdRng::seed_from_u64(seed);
            let accts: &[&str] = &ACCTS_DRIVE;
            for run in 0..runs {
                let preset = ["chain", "fresh", "crowd"][run % 3];
                let stock: BTreeMap<String, u32> = accts.iter().map(|x| (x.to_string(), DRIVE_STOCK)).collect();
                // every fifth "fresh" run: the contract is its own admin
                let selfadmin = preset == "fresh" && (run / 3) % 5 == 4;
                let stock: BTreeMap<String, u32> = if selfadmin { BTreeMap::new() } else { stock };
                LONG.with(|c| c.set((run / 6) % 2 == 1));
                let mut sys = Sys::new(accts, preset, &stock, if (run / 3) % 2 == 1 { "lab" } else { "example" }, selfadmin);
                let reset = reset_event(&sys, preset, DRIVE_STOCK as i64);
                let mut v = view(&reset["obs"]);
                t.reset(reset);
                // renouncing the admin early makes the rest of a run dull: at most once, late, in some runs
                let renounce_from = if r.gen_bool(0.4) { r.gen_range(len / 3..len.max(1)) } else { len };
                for i in 0..len {
                    time_passes(&sys.e, &mut r, 3000);
                    time_passes_long(&sys.e, &mut r);
                    let kind = *pick(
                        &mut r,
                        &[
                            "grant", "grant", "grant", "grant", "grant", "grant", "revoke", "revoke", "revoke", "revoke",
                            "renounce_role", "renounce_role", "set_role_admin", "set_role_admin", "transfer", "accept",
                            "renounce_admin", "admin_fn", "mint", "mint", "multi_role_action", "multi_role_auth_action",
                            "stack_any_admin", "stack_role_admin", "stack_admin_any", "stack_np_admin", "stack_admin_np",
                            "burn", "burn",
                        ],
                    );
                    let admin = v.admin.clone();
                    let op = match kind {
                        "grant" | "revoke" => {
                            let role = *pick(&mut r, &ROLES);
                            let caller = pick_or(&mut r, &v.authorities(role), 0.7, accts);
                            let acct = if kind == "revoke" {
                                pick_or(&mut r, &v.holders[role], 0.75, accts)
                            } else {
                                pick(&mut r, accts).to_string()
                            };
                            mk(kind, &acct, role, "none", &caller, &gen_auth(&mut r, &caller, &admin, accts))
                        }
                        "renounce_role" => {
                            let role = *pick(&mut r, &ROLES);
                            let caller = pick_or(&mut r, &v.holders[role], 0.75, accts);
                            mk(kind, "none", role, "none", &caller, &gen_auth(&mut r, &caller, &admin, accts))
                        }
                        "set_role_admin" => {
                            let (role, arole) = (*pick(&mut r, &ROLES), if r.gen_ratio(1, 6) { "empty" } else { *pick(&mut r, &ROLES) });
                            mk(kind, "none", role, arole, "none", &gen_auth(&mut r, &admin, &admin, accts))
                        }
                        "transfer" => {
                            let new = *pick(&mut r, accts);
                            mk(kind, new, "none", "none", "none", &gen_auth(&mut r, &admin, &admin, accts))
                        }
                        "accept" => {
                            let p = sys.pend.clone();
                            mk(kind, "none", "none", "none", "none", &gen_auth(&mut r, &p, &admin, accts))
                        }
                        "renounce_admin" if i < renounce_from => {
                            // before that point: only attempts that lack the admin's authorization
                            let others: Vec<String> =
                                subset(&mut r, accts).into_iter().filter(|x| *x != admin).collect();
                            mk(kind, "none", "none", "none", "none", &others)
                        }
                        "renounce_admin" | "admin_fn" | "stack_np_admin" | "stack_admin_np" => {
                            mk(kind, "none", "none", "none", "none", &gen_auth(&mut r, &admin, &admin, accts))
                        }
                        k => {
                            // role-gated entry points of the example
                            let mut pref: Vec<String> = Vec::new();
                            for role in match k {
                                "mint" => vec!["minter"],
                                "burn" => vec!["burner"],
                                _ => vec!["minter", "burner"],
                            } {
                                pref.extend(v.holders[role].iter().cloned());
                            }
                            let caller = pick_or(&mut r, &pref, 0.65, accts);
                            let mut au = gen_auth(&mut r, &caller, &admin, accts);
                            if k.starts_with("stack_") && r.gen_bool(0.5) && admin != "none" && !au.contains(&admin) {
                                // the second guard's principal signs as well (half of the time)
                                au.push(admin.clone());
                                au.sort();
                            }
                            mk(k, "none", "none", "none", &caller, &au)
                        }
                    };
                    // the contract's own address never signs (it has no __check_auth): a call in its name goes unauthorized
                    let mut op = op;
                    let kept: Vec<Value> = op["auth"].as_array().map(|a| a.iter().filter(|x| *x != "self").cloned().collect()).unwrap_or_default();
                    op["auth"] = json!(kept);
                    let ev = sys.step(&op);
                    v = view(&ev["obs"]);
                    t.step(ev);
                }
            }
            t.finish();
        }
    }
}
