//! Binding of spec/RoleTransfer.tla: ownable example and nft-access-control example (admin).
//! Ledger: min_temp_entry_ttl = 1 as the property prescribes.
#![allow(dead_code)]
use soroban_sdk::{Address, Env, String as SStr};
use verif_harness::*;

#[path = "/repo/examples/ownable/src/contract.rs"]
mod ownable;
#[path = "/repo/examples/nft-access-control/src/contract.rs"]
mod nftac;

/// The ownable example's entry points with `#[only_owner]` on a method of a trait implementation (exported, but not
/// `pub` in the source), driven through the example's generated client.
mod ownlab {
    use soroban_sdk::{contract, contractimpl, Address, Env};
    use stellar_access::ownable::{set_owner, Ownable};
    use stellar_macros::only_owner;

    #[contract]
    pub struct OwnLab;

    pub trait Counter {
        fn increment(e: &Env) -> i32;
    }

    #[contractimpl]
    impl OwnLab {
        pub fn __constructor(e: &Env, owner: Address) {
            set_owner(e, &owner);
        }
    }

    #[contractimpl]
    impl Counter for OwnLab {
        #[only_owner]
        fn increment(e: &Env) -> i32 {
            1
        }
    }

    #[contractimpl(contracttrait)]
    impl Ownable for OwnLab {}
}

const ACCTS: [&str; 3] = ["a", "b", "c"];
const MAX_TTL: u32 = 20;
const NOW0: u32 = 10;

enum Flavour {
    Ownable,
    Access,
}

struct Sys {
    e: Env,
    names: Names,
    c: Address,
    fl: Flavour,
    lab: bool,
    base: u32,
}

impl Sys {
    /// `base`: ledger the run starts from (minus NOW0); ledgers and expiries are logged relative to it
    fn new(flavour: &str, lab: bool, base: u32) -> Sys {
        let e = new_env(&LedgerCfg { seq: base + NOW0, min_temp: 1, min_persistent: 1_000_000, max_ttl: MAX_TTL });
        let names = Names::new(&e, &ACCTS);
        let a = names.get("a");
        let (c, fl) = match flavour {
            "ownable" if lab => (e.register(ownlab::OwnLab, (a,)), Flavour::Ownable),
            "ownable" => (e.register(ownable::ExampleContract, (a,)), Flavour::Ownable),
            "access" => (
                e.register(
                    nftac::ExampleContract,
                    (SStr::from_str(&e, "u"), SStr::from_str(&e, "n"), SStr::from_str(&e, "s"), a),
                ),
                Flavour::Access,
            ),
            f => panic!("flavour {f}"),
        };
        // the contract's own address can be named as the new holder; nobody can authorize in its name
        let mut names = names;
        names.insert("self", c.clone());
        Sys { e, names, c, fl, lab, base }
    }

    fn holder(&self) -> String {
        no_auth(&self.e);
        match self.fl {
            Flavour::Ownable => {
                use stellar_access::ownable::Ownable as _;
                self.names.opt_name(&ownable::ExampleContractClient::new(&self.e, &self.c).get_owner())
            }
            Flavour::Access => self.names.opt_name(&nftac::ExampleContractClient::new(&self.e, &self.c).get_admin()),
        }
    }

    fn step(&mut self, op: &Value) -> Value {
        let e = &self.e;
        set_seq(e, seq(e) + n(op, "dt") as u32);
        let now = seq(e) - self.base;
        let who = auth_addrs(op, &self.names);
        let kind = s(op, "op");
        let (res, code) = match self.fl {
            Flavour::Ownable => {
                let cl = ownable::ExampleContractClient::new(e, &self.c);
                match kind {
                    "offer" | "cancel" => {
                        let new = self.names.get(s(op, "new"));
                        let until = if n(op, "until") > 0 { (self.base as u64 + n(op, "until") as u64).min(u32::MAX as u64) as u32 } else { 0 };
                        set_auth_same(e, &who, &Inv::new(&self.c, "transfer_ownership", args(e, (new.clone(), until))));
                        res_of(&cl.try_transfer_ownership(&new, &until))
                    }
                    "accept" => {
                        set_auth_same(e, &who, &Inv::new(&self.c, "accept_ownership", args(e, ())));
                        res_of(&cl.try_accept_ownership())
                    }
                    "renounce" => {
                        set_auth_same(e, &who, &Inv::new(&self.c, "renounce_ownership", args(e, ())));
                        res_of(&cl.try_renounce_ownership())
                    }
                    "gated" => {
                        set_auth_same(e, &who, &Inv::new(&self.c, "increment", args(e, ())));
                        res_of(&cl.try_increment())
                    }
                    k => panic!("op {k}"),
                }
            }
            Flavour::Access => {
                let cl = nftac::ExampleContractClient::new(e, &self.c);
                match kind {
                    "offer" | "cancel" => {
                        let new = self.names.get(s(op, "new"));
                        let until = if n(op, "until") > 0 { (self.base as u64 + n(op, "until") as u64).min(u32::MAX as u64) as u32 } else { 0 };
                        set_auth_same(e, &who, &Inv::new(&self.c, "transfer_admin_role", args(e, (new.clone(), until))));
                        res_of(&cl.try_transfer_admin_role(&new, &until))
                    }
                    "accept" => {
                        set_auth_same(e, &who, &Inv::new(&self.c, "accept_admin_transfer", args(e, ())));
                        res_of(&cl.try_accept_admin_transfer())
                    }
                    "renounce" => {
                        set_auth_same(e, &who, &Inv::new(&self.c, "renounce_admin", args(e, ())));
                        res_of(&cl.try_renounce_admin())
                    }
                    "gated" => {
                        set_auth_same(e, &who, &Inv::new(&self.c, "admin_restricted_function", args(e, ())));
                        res_of(&cl.try_admin_restricted_function())
                    }
                    k => panic!("op {k}"),
                }
            }
        };
        json!({"op": op, "now": now, "res": res, "err": code, "obs": {"holder": self.holder()}})
    }
}

fn reset_event(sys: &Sys, flavour: &str) -> Value {
    json!({"op": {"op": "reset", "new": "none", "until": 0, "auth": [], "dt": 0, "flavour": flavour, "lab": sys.lab, "base": sys.base.to_string()},
           "now": NOW0, "res": "ok", "err": 0, "obs": {"holder": sys.holder()}})
}

fn main() {
    match cli() {
        Mode::Exec { input, output } => {
            let mut t = Trace::create(&output);
            for (bi, b) in read_behaviours(&input).iter().enumerate() {
                let flavours: Vec<String> = match b.cfg.get("flavour").and_then(|v| v.as_str()) {
                    Some(f) => vec![f.to_string()],
                    None => vec!["ownable".into(), "access".into()],
                };
                for fl in flavours {
                    let lab = b.cfg.get("lab").and_then(|v| v.as_bool()).unwrap_or(bi % 2 == 1);
                    let base: u32 = b.cfg.get("base").and_then(|v| v.as_str()).and_then(|x| x.parse().ok()).unwrap_or(0);
                    let mut sys = Sys::new(&fl, lab, base);
                    t.reset(reset_event(&sys, &fl));
                    for op in &b.ops {
                        let ev = sys.step(op);
                        t.step(ev);
                    }
                }
            }
            t.finish();
        }
        Mode::Drive { seed, runs, len, output } => {
            let mut t = Trace::create(&output);
            let mut r = StdRng::seed_from_u64(seed);
            for run in 0..runs {
                let fl = if run % 2 == 0 { "ownable" } else { "access" };
                let base: u32 = if (run / 4) % 4 == 3 { *pick(&mut r, &[i32::MAX as u32 - 30, i32::MAX as u32 - 12, 3_000_000_000u32]) } else { 0 };
                let mut sys = Sys::new(fl, (run / 2) % 2 == 1, base);
                t.reset(reset_event(&sys, fl));
                // every other run: at some point the holder offers the role to the contract's own address; whatever
                // authorizations are then attached, nobody but that address could accept - and it cannot sign
                let self_at = if run % 4 == 1 || run % 4 == 2 { r.gen_range(0..len.max(1)) } else { usize::MAX };
                let mut script: Vec<Value> = vec![];
                for i in 0..len {
                    let now = (seq(&sys.e) - sys.base) as i64;
                    if i == self_at && sys.holder() != "none" {
                        let h = sys.holder();
                        let all: Vec<String> = ACCTS.iter().map(|x| x.to_string()).collect();
                        script = vec![
                            json!({"op": "offer", "new": "self", "until": now + 9, "auth": [h], "dt": 0}),
                            json!({"op": "accept", "new": "none", "until": 0, "auth": if r.gen_bool(0.5) { vec![] } else { all.clone() }, "dt": 1}),
                            json!({"op": "accept", "new": "none", "until": 0, "auth": all, "dt": 0}),
                        ];
                    }
                    if !script.is_empty() {
                        let op = script.remove(0);
                        let ev = sys.step(&op);
                        t.step(ev);
                        continue;
                    }
                    let dt = if r.gen_ratio(1, 25) { 3000 } else { *pick(&mut r, &[0i64, 0, 0, 1, 1, 2, 3, 7]) };
                    let holder = sys.holder();
                    // authorizers: mostly the interesting parties, sometimes arbitrary subsets
                    let mut auth = subset(&mut r, &ACCTS);
                    if r.gen_bool(0.5) && holder != "none" && !auth.contains(&holder) {
                        auth.push(holder.clone());
                    }
                    let kind = *pick(&mut r, &["offer", "offer", "offer", "cancel", "accept", "accept", "accept", "renounce", "gated"]);
                    let op = match kind {
                        "offer" => {
                            let du = *pick(&mut r, &[-1i64, 0, 0, 1, 1, 2, 3, 5, 9, (MAX_TTL - 1) as i64, MAX_TTL as i64]);
                            json!({"op": "offer", "new": pick(&mut r, &ACCTS), "until": (now + dt + du).max(1), "auth": auth, "dt": dt})
                        }
                        "cancel" => json!({"op": "cancel", "new": pick(&mut r, &ACCTS), "until": 0, "auth": auth, "dt": dt}),
                        k => json!({"op": k, "new": "none", "until": 0, "auth": auth, "dt": dt}),
                    };
                    let ev = sys.step(&op);
                    t.step(ev);
                }
            }
            t.finish();
        }
    }
}
