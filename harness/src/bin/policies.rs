//! Binding of spec/Policies.tla (C14): the threshold-policy and spending-limit-policy examples as they
//! are, and a thin contract forwarding 1:1 to the library's weighted_threshold functions.
//!
//! The "smart account" is a plain generated address; its authorization is supplied as an exact mock
//! authorization of the judged invocation (function and arguments) iff "acct" is in the op's `auth`.
//! Context rules, signers and contexts are built directly as the library types.
//!
//! Scales (DESIGN.md 2.3): weights and weighted thresholds are model units << wshift (0 or 24: model 255
//! is then the largest multiple below u32::MAX and 256 overflows); amounts and limits are model units
//! << ashift (0 or 124).
#![allow(dead_code)]
use soroban_sdk::{
    auth::{Context, ContractContext, ContractExecutable, CreateContractHostFnContext, CreateContractWithConstructorHostFnContext},
    testutils::Address as _,
    Address, Bytes, BytesN, Env, IntoVal, Map, String as SStr, Symbol, Val, Vec as SVec,
};
use stellar_accounts::{
    policies::{
        simple_threshold::SimpleThresholdAccountParams, spending_limit::SpendingLimitAccountParams,
        weighted_threshold::WeightedThresholdAccountParams,
    },
    smart_account::{ContextRule, ContextRuleType, Signer},
};
use verif_harness::*;

#[path = "/repo/examples/multisig-smart-account/threshold-policy/src/contract.rs"]
mod threshold;
#[path = "/repo/examples/multisig-smart-account/spending-limit-policy/src/contract.rs"]
mod spending;

mod weighted {
    use soroban_sdk::{auth::Context, contract, contractimpl, Address, Env, Map, Vec};
    use stellar_accounts::{
        policies::{weighted_threshold as wt, Policy},
        smart_account::{ContextRule, Signer},
    };

    #[contract]
    pub struct WeightedPolicy;

    #[contractimpl]
    impl Policy for WeightedPolicy {
        type AccountParams = wt::WeightedThresholdAccountParams;

        fn can_enforce(e: &Env, context: Context, authenticated_signers: Vec<Signer>, context_rule: ContextRule, smart_account: Address) -> bool {
            wt::can_enforce(e, &context, &authenticated_signers, &context_rule, &smart_account)
        }

        fn enforce(e: &Env, context: Context, authenticated_signers: Vec<Signer>, context_rule: ContextRule, smart_account: Address) {
            wt::enforce(e, &context, &authenticated_signers, &context_rule, &smart_account)
        }

        fn install(e: &Env, install_params: Self::AccountParams, context_rule: ContextRule, smart_account: Address) {
            wt::install(e, &install_params, &context_rule, &smart_account)
        }

        fn uninstall(e: &Env, context_rule: ContextRule, smart_account: Address) {
            wt::uninstall(e, &context_rule, &smart_account)
        }
    }

    #[contractimpl]
    impl WeightedPolicy {
        pub fn get_threshold(e: &Env, context_rule_id: u32, smart_account: Address) -> u32 {
            wt::get_threshold(e, context_rule_id, &smart_account)
        }

        pub fn get_signer_weights(e: &Env, context_rule: ContextRule, smart_account: Address) -> Map<Signer, u32> {
            wt::get_signer_weights(e, &context_rule, &smart_account)
        }

        pub fn set_threshold(e: &Env, threshold: u32, context_rule: ContextRule, smart_account: Address) {
            wt::set_threshold(e, threshold, &context_rule, &smart_account)
        }

        pub fn set_signer_weight(e: &Env, signer: Signer, weight: u32, context_rule: ContextRule, smart_account: Address) {
            wt::set_signer_weight(e, &signer, weight, &context_rule, &smart_account)
        }
    }
}

const NOW0: u32 = 1;
const RULE_ID: u32 = 1;
const BAD: i64 = -999_999;
const TAIL: usize = 16;
const U32_UNREACHABLE: i64 = 2_147_483_647;

#[derive(Clone, Copy, PartialEq)]
enum Fl {
    Simple,
    Weighted,
    Spending,
}

struct Sys {
    e: Env,
    names: Names,
    fl: Fl,
    flname: String,
    policy: Address,
    acct: Address,
    token: Address,
    from: Address,
    to: Address,
    nsig: usize,
    signers: Vec<(String, Signer)>,
    wshift: u32,
    ashift: u32,
    /// "off": the SDK's emulation of the network's per-transaction resource limits is disabled (as it is,
    /// in effect, in the library's own tests, which call the functions inside `as_contract`);
    /// "mainnet": kept, and a call that exceeds them is recorded as failed and ends the run
    limits: String,
    last_obs: Value,
    over_limits: bool,
    can: &'static str,
}

macro_rules! policy_call {
    ($self:ident, $cl:ident => $body:expr) => {
        match $self.fl {
            Fl::Simple => { let $cl = threshold::ThresholdPolicyContractClient::new(&$self.e, &$self.policy); $body }
            Fl::Weighted => { let $cl = weighted::WeightedPolicyClient::new(&$self.e, &$self.policy); $body }
            Fl::Spending => { let $cl = spending::SpendingLimitPolicyContractClient::new(&$self.e, &$self.policy); $body }
        }
    };
}

fn sname(i: usize) -> String {
    format!("s{i}")
}

impl Sys {
    fn new(flname: &str, nsig: usize, wshift: u32, ashift: u32, limits: &str) -> Sys {
        let e = new_env(&LedgerCfg { seq: NOW0, ..Default::default() });
        if limits != "mainnet" {
            e.cost_estimate().disable_resource_limits();
        }
        let mut names = Names::new(&e, &["acct", "o", "token", "from", "to", "verifier"]);
        let verifier = names.get("verifier");
        let mut signers = Vec::new();
        for i in 1..=nsig {
            let nm = sname(i);
            // odd signers are delegated (an address), even ones external (verifier + key bytes)
            let sg = if i % 2 == 1 {
                let a = Address::generate(&e);
                names.insert(&nm, a.clone());
                Signer::Delegated(a)
            } else {
                Signer::External(verifier.clone(), Bytes::from_slice(&e, nm.as_bytes()))
            };
            signers.push((nm, sg));
        }
        let (fl, policy) = match flname {
            "simple" => (Fl::Simple, e.register(threshold::ThresholdPolicyContract, ())),
            "weighted" => (Fl::Weighted, e.register(weighted::WeightedPolicy, ())),
            "spending" => (Fl::Spending, e.register(spending::SpendingLimitPolicyContract, ())),
            f => panic!("flavour {f}"),
        };
        Sys {
            acct: names.get("acct"),
            token: names.get("token"),
            from: names.get("from"),
            to: names.get("to"),
            e,
            names,
            fl,
            flname: flname.to_string(),
            policy,
            nsig,
            signers,
            wshift,
            ashift,
            limits: limits.to_string(),
            last_obs: Value::Null,
            over_limits: false,
            can: "none",
        }
    }

    fn signer(&self, name: &str) -> Signer {
        self.signers.iter().find(|(n, _)| n == name).unwrap_or_else(|| panic!("signer {name}")).1.clone()
    }

    /// Signers in the order of the universe (deterministic whatever the order in the op).
    fn signer_vec(&self, want: &[String]) -> SVec<Signer> {
        let mut v = SVec::new(&self.e);
        for (n, sg) in &self.signers {
            if want.contains(n) {
                v.push_back(sg.clone());
            }
        }
        v
    }

    fn rule(&self, rs: &[String]) -> ContextRule {
        let mut policies = SVec::new(&self.e);
        policies.push_back(self.policy.clone());
        ContextRule {
            id: RULE_ID,
            context_type: ContextRuleType::Default,
            name: SStr::from_str(&self.e, "rule"),
            signers: self.signer_vec(rs),
            policies,
            valid_until: None,
        }
    }

    fn all_names(&self) -> Vec<String> {
        self.signers.iter().map(|(n, _)| n.clone()).collect()
    }

    /// ashift = 0: model units are the amounts. ashift > 0 (the i128-edge regime): the model number n * FINE + m
    /// (|m| < FINE / 2) stands for n * 2^ashift + m, an embedding that preserves order and sums as long as the small
    /// parts do not add up to FINE / 2; i128::MAX = 2^127 - 1 is 8 * FINE - 1.
    fn amount(&self, units: i64) -> i128 {
        if self.ashift == 0 {
            return units as i128;
        }
        let n = (units + FINE / 2).div_euclid(FINE);
        let m = (units + FINE / 2).rem_euclid(FINE) - FINE / 2;
        ((n as i128) << self.ashift).wrapping_add(m as i128)
    }

    fn units(&self, v: i128) -> Value {
        if self.ashift == 0 {
            return if v.abs() < (1 << 30) { json!(v as i64) } else { json!(BAD) };
        }
        let sc = 1i128 << self.ashift;
        let n = (v >> self.ashift) + ((v >> (self.ashift - 1)) & 1);
        let m = v.wrapping_sub(n.wrapping_mul(sc));
        if m.abs() < (FINE / 2) as i128 {
            json!(n as i64 * FINE + m as i64)
        } else {
            json!(BAD)
        }
    }

    fn weight(&self, units: i64) -> u32 {
        let v = (units.max(0) as u64) << self.wshift;
        v.min(u32::MAX as u64) as u32
    }

    fn wunits(&self, v: u32) -> Value {
        let sc = 1u64 << self.wshift;
        if (v as u64) % sc == 0 && (v as u64) / sc < (1 << 30) {
            json!((v as u64) / sc)
        } else {
            json!(BAD)
        }
    }

    fn context(&self, kind: &str, units: i64) -> Context {
        let e = &self.e;
        let amt = self.amount(units);
        let (from, to) = (self.from.clone(), self.to.clone());
        let call = |f: &str, args: SVec<Val>| {
            Context::Contract(ContractContext { contract: self.token.clone(), fn_name: Symbol::new(e, f), args })
        };
        let a3 = |x: Val| -> SVec<Val> {
            let mut v: SVec<Val> = SVec::new(e);
            v.push_back(from.clone().into_val(e));
            v.push_back(to.clone().into_val(e));
            v.push_back(x);
            v
        };
        match kind {
            "transfer" => call("transfer", a3(amt.into_val(e))),
            // another function with the same arguments
            "fn" => call("approve", a3(amt.into_val(e))),
            // the amount argument is missing
            "short" => call("transfer", args(e, (from.clone(), to.clone()))),
            // the third argument is not an i128
            "u32" => call("transfer", a3((units.max(0) as u32).into_val(e))),
            "u128" => call("transfer", a3((amt.max(0) as u128).into_val(e))),
            "i64" => call("transfer", a3(units.into_val(e))),
            "sym" => call("transfer", a3(Symbol::new(e, "amount").into_val(e))),
            "create" => Context::CreateContractHostFn(CreateContractHostFnContext {
                executable: ContractExecutable::Wasm(BytesN::from_array(e, &[7u8; 32])),
                salt: BytesN::from_array(e, &[1u8; 32]),
            }),
            "ctor" => Context::CreateContractWithCtorHostFn(CreateContractWithConstructorHostFnContext {
                executable: ContractExecutable::Wasm(BytesN::from_array(e, &[7u8; 32])),
                salt: BytesN::from_array(e, &[1u8; 32]),
                constructor_args: a3(amt.into_val(e)),
            }),
            k => panic!("context kind {k}"),
        }
    }

    fn obs(&self) -> Value {
        let e = &self.e;
        no_auth(e);
        let mut w = JMap::new();
        for (n, _) in &self.signers {
            w.insert(n.clone(), json!(-1));
        }
        let (mut inst, mut th, mut wn) = (false, json!(0), 0u32);
        let (mut limit, mut per, mut cached) = (json!(0), 0u32, json!(0));
        let (mut hist, mut hn, mut hh) = (Vec::<Value>::new(), 0usize, 0u64);
        match self.fl {
            Fl::Simple => {
                let cl = threshold::ThresholdPolicyContractClient::new(e, &self.policy);
                if let Ok(Ok(t)) = cl.try_get_threshold(&RULE_ID, &self.acct) {
                    inst = true;
                    th = json!(t);
                }
            }
            Fl::Weighted => {
                let cl = weighted::WeightedPolicyClient::new(e, &self.policy);
                if let Ok(Ok(t)) = cl.try_get_threshold(&RULE_ID, &self.acct) {
                    inst = true;
                    th = self.wunits(t);
                }
                if let Ok(Ok(m)) = cl.try_get_signer_weights(&self.rule(&self.all_names()), &self.acct) {
                    wn = m.len();
                    for (n, sg) in &self.signers {
                        if let Some(x) = m.get(sg.clone()) {
                            w.insert(n.clone(), self.wunits(x));
                        }
                    }
                }
            }
            Fl::Spending => {
                let cl = spending::SpendingLimitPolicyContractClient::new(e, &self.policy);
                if let Ok(Ok(d)) = cl.try_get_spending_limit_data(&RULE_ID, &self.acct) {
                    inst = true;
                    limit = self.units(d.spending_limit);
                    // (u32::MAX, "for the lifetime", is logged as TOP_PER: trace numbers are 32-bit and get subtracted)
                    per = if d.period_ledgers >= u32::MAX - 1 { (TOP_PER - (u32::MAX - d.period_ledgers) as i64) as u32 } else { d.period_ledgers };
                    cached = self.units(d.cached_total_spent);
                    hn = d.spending_history.len() as usize;
                    for (i, en) in d.spending_history.iter().enumerate() {
                        // digest of the whole history; the last TAIL entries are logged in full
                        let a = en.amount as u128;
                        for x in [a as u64, (a >> 64) as u64, en.ledger_sequence as u64] {
                            hh = (hh ^ x).wrapping_mul(0x100000001b3).rotate_left(17);
                        }
                        if i + TAIL >= hn {
                            hist.push(json!([self.units(en.amount), en.ledger_sequence]));
                        }
                    }
                }
            }
        }
        json!({"inst": inst, "th": th, "w": w, "wn": wn, "limit": limit, "per": per, "hist": hist, "hn": hn,
               "hh": (hh % (1 << 30)), "cached": cached})
    }

    fn nevents(&self) -> usize {
        events_of(&self.e, &self.names, &self.policy, &|_| json!(0)).len()
    }

    fn step(&mut self, op: &Value) -> Value {
        let e = self.e.clone();
        let e = &e;
        set_seq(e, seq(e) + n(op, "dt") as u32);
        self.can = "none";
        let (r, nev) = if self.limits == "mainnet" {
            // the SDK panics (after the invocation) when a call exceeded the network's resource limits; on
            // the network that transaction fails as a whole: recorded as a failed call with the state
            // before it, and the run ends there
            match std::panic::catch_unwind(std::panic::AssertUnwindSafe(|| self.call(op))) {
                Ok(x) => x,
                Err(_) => {
                    self.over_limits = true;
                    (("fail", -4), 0)
                }
            }
        } else {
            self.call(op)
        };
        let obs = if self.over_limits { self.last_obs.clone() } else { self.obs() };
        self.last_obs = obs.clone();
        json!({"op": op, "now": seq(e), "res": r.0, "err": r.1, "can": self.can, "nev": nev, "obs": obs})
    }

    fn call(&mut self, op: &Value) -> ((&'static str, i64), usize) {
        let e = self.e.clone();
        let e = &e;
        let kind = s(op, "op");
        let who = auth_addrs(op, &self.names);
        let rule = self.rule(&strs(op, "rs"));
        let acct = self.acct.clone();
        let pol = self.policy.clone();
        let th = n(op, "th");
        let mut nev = 0usize;
        let r: (&'static str, i64) = match kind {
            "install" => match self.fl {
                Fl::Simple => {
                    let p = SimpleThresholdAccountParams { threshold: th.max(0) as u32 };
                    set_auth_same(e, &who, &Inv::new(&pol, "install", args(e, (p.clone(), rule.clone(), acct.clone()))));
                    res_of(&threshold::ThresholdPolicyContractClient::new(e, &pol).try_install(&p, &rule, &acct))
                }
                Fl::Weighted => {
                    let mut m: Map<Signer, u32> = Map::new(e);
                    for (nm, sg) in &self.signers {
                        let x = op["w"].get(nm).and_then(|v| v.as_i64()).unwrap_or(-1);
                        if x >= 0 {
                            m.set(sg.clone(), self.weight(x));
                        }
                    }
                    let p = WeightedThresholdAccountParams { signer_weights: m, threshold: self.weight(th) };
                    set_auth_same(e, &who, &Inv::new(&pol, "install", args(e, (p.clone(), rule.clone(), acct.clone()))));
                    res_of(&weighted::WeightedPolicyClient::new(e, &pol).try_install(&p, &rule, &acct))
                }
                Fl::Spending => {
                    let p = SpendingLimitAccountParams { spending_limit: self.amount(n(op, "amt")), period_ledgers: if n(op, "per") >= TOP_PER - 1 { u32::MAX - (TOP_PER - n(op, "per")) as u32 } else { n(op, "per").max(0) as u32 } };
                    set_auth_same(e, &who, &Inv::new(&pol, "install", args(e, (p.clone(), rule.clone(), acct.clone()))));
                    res_of(&spending::SpendingLimitPolicyContractClient::new(e, &pol).try_install(&p, &rule, &acct))
                }
            },
            "uninstall" => {
                set_auth_same(e, &who, &Inv::new(&pol, "uninstall", args(e, (rule.clone(), acct.clone()))));
                policy_call!(self, cl => res_of(&cl.try_uninstall(&rule, &acct)))
            }
            "set_threshold" => match self.fl {
                Fl::Simple => {
                    let t = th.max(0) as u32;
                    set_auth_same(e, &who, &Inv::new(&pol, "set_threshold", args(e, (t, rule.clone(), acct.clone()))));
                    res_of(&threshold::ThresholdPolicyContractClient::new(e, &pol).try_set_threshold(&t, &rule, &acct))
                }
                Fl::Weighted => {
                    let t = self.weight(th);
                    set_auth_same(e, &who, &Inv::new(&pol, "set_threshold", args(e, (t, rule.clone(), acct.clone()))));
                    res_of(&weighted::WeightedPolicyClient::new(e, &pol).try_set_threshold(&t, &rule, &acct))
                }
                Fl::Spending => panic!("set_threshold on the spending policy"),
            },
            "set_weight" => {
                assert!(self.fl == Fl::Weighted, "set_weight on a non-weighted policy");
                let sg = self.signer(s(op, "who"));
                let x = self.weight(n(op, "amt"));
                set_auth_same(e, &who, &Inv::new(&pol, "set_signer_weight", args(e, (sg.clone(), x, rule.clone(), acct.clone()))));
                res_of(&weighted::WeightedPolicyClient::new(e, &pol).try_set_signer_weight(&sg, &x, &rule, &acct))
            }
            "set_limit" => {
                assert!(self.fl == Fl::Spending, "set_limit on a non-spending policy");
                let x = self.amount(n(op, "amt"));
                set_auth_same(e, &who, &Inv::new(&pol, "set_spending_limit", args(e, (x, rule.clone(), acct.clone()))));
                res_of(&spending::SpendingLimitPolicyContractClient::new(e, &pol).try_set_spending_limit(&x, &rule, &acct))
            }
            "enforce" | "can" => {
                let ctx = self.context(s(op, "ctx"), n(op, "amt"));
                let sg = self.signer_vec(&strs(op, "sg"));
                // the read-only answer, in the very state in which enforce is then attempted
                no_auth(e);
                let c = policy_call!(self, cl => cl.try_can_enforce(&ctx, &sg, &rule, &acct));
                self.can = match c {
                    Ok(Ok(true)) => "true",
                    Ok(Ok(false)) => "false",
                    _ => "trap",
                };
                nev += self.nevents();
                if kind == "enforce" {
                    set_auth_same(e, &who, &Inv::new(&pol, "enforce", args(e, (ctx.clone(), sg.clone(), rule.clone(), acct.clone()))));
                    let r = policy_call!(self, cl => res_of(&cl.try_enforce(&ctx, &sg, &rule, &acct)));
                    nev += self.nevents();
                    r
                } else if self.can == "trap" {
                    ("fail", -1)
                } else {
                    ("ok", 0)
                }
            }
            k => panic!("op {k}"),
        };
        if kind != "enforce" && kind != "can" {
            nev = self.nevents();
        }
        (r, nev)
    }

    fn maxw(&self) -> i64 {
        if self.wshift == 0 { U32_UNREACHABLE } else { (u32::MAX >> self.wshift) as i64 }
    }

    fn reset_event(&mut self) -> Value {
        self.last_obs = self.obs();
        json!({"op": {"op": "reset", "flavour": self.flname, "nsig": self.nsig, "wshift": self.wshift, "ashift": self.ashift,
                      "maxw": self.maxw(), "limits": self.limits},
               "now": NOW0, "res": "ok", "err": 0, "can": "none", "nev": 0, "obs": self.last_obs})
    }
}

// ---------------------------------------------------------------------------------------------
// random driver
// ---------------------------------------------------------------------------------------------

struct Gen<'a> {
    r: &'a mut StdRng,
    all: Vec<String>,
}

impl Gen<'_> {
    fn op(&self, kind: &str, dt: i64, auth: &[&str]) -> Value {
        let mut w = JMap::new();
        for n in &self.all {
            w.insert(n.clone(), json!(-1));
        }
        json!({"op": kind, "sg": [], "rs": self.all, "th": 0, "w": w, "who": "s1", "amt": 0, "per": 0, "ctx": "transfer",
               "auth": auth, "dt": dt})
    }

    /// Mostly the account, sometimes nobody / somebody else / both.
    fn auth(&mut self, p_good: f64) -> Vec<&'static str> {
        if self.r.gen_bool(p_good) {
            if self.r.gen_bool(0.1) { vec!["acct", "o"] } else { vec!["acct"] }
        } else {
            pick(self.r, &[vec![], vec!["o"], vec!["s1"], vec!["o", "s1"]]).clone()
        }
    }

    fn subset_of_size(&mut self, from: &[String], k: usize) -> Vec<String> {
        let mut v: Vec<String> = from.to_vec();
        let mut out = Vec::new();
        while out.len() < k && !v.is_empty() {
            let i = self.r.gen_range(0..v.len());
            out.push(v.remove(i));
        }
        out
    }

    fn rule_signers(&mut self) -> Vec<String> {
        // usually the whole universe, sometimes a prefix (the rule handed to the policy is the caller's)
        if self.r.gen_bool(0.85) || self.all.len() < 2 {
            self.all.clone()
        } else {
            let k = self.r.gen_range(1..self.all.len());
            self.all[..k].to_vec()
        }
    }
}

fn around(r: &mut StdRng, x: i64, lo: i64, hi: i64) -> i64 {
    let d = *pick(r, &[-1i64, 0, 0, 0, 1]);
    (x + d).clamp(lo, hi)
}

fn drive_simple(sys: &mut Sys, r: &mut StdRng, len: usize, t: &mut Trace) {
    let all = sys.all_names();
    let n = all.len() as i64;
    let mut g = Gen { r, all };
    let (mut inst, mut th) = (false, 0i64);
    for _ in 0..len {
        let dt = if g.r.gen_ratio(1, 25) { 3000 } else { *pick(g.r, &[0i64, 0, 0, 1, 3]) };
        let kinds: &[&str] = if inst {
            &["enforce", "enforce", "enforce", "enforce", "enforce", "can", "set_threshold", "set_threshold", "install", "uninstall"]
        } else {
            &["install", "install", "install", "set_threshold", "enforce", "can", "uninstall"]
        };
        let kind = *pick(g.r, kinds);
        let rs = g.rule_signers();
        let m = rs.len() as i64;
        let op = match kind {
            "install" | "set_threshold" => {
                let au = g.auth(0.85);
                let mut o = g.op(kind, dt, &au);
                let x = match g.r.gen_range(0..8) {
                    0 => 0,
                    1 => m + 1,
                    2 => m,
                    3 => 1,
                    4 => n + 1,
                    _ => g.r.gen_range(1..=m.max(1)),
                };
                o["th"] = json!(x);
                o["rs"] = json!(rs);
                o
            }
            "uninstall" => {
                let au = g.auth(0.7);
                g.op(kind, dt, &au)
            }
            _ => {
                let au = if kind == "can" { vec![] } else { g.auth(0.85) };
                let mut o = g.op(kind, dt, &au);
                let k = match g.r.gen_range(0..6) {
                    0 => 0,
                    1 => m,
                    2 => g.r.gen_range(0..=m),
                    _ => around(g.r, th, 0, m),
                };
                o["sg"] = json!(g.subset_of_size(&rs, k as usize));
                o["rs"] = json!(rs);
                o["ctx"] = json!(*pick(g.r, &["transfer", "transfer", "fn", "create"]));
                o["amt"] = json!(g.r.gen_range(0..5));
                o
            }
        };
        let ev = sys.step(&op);
        inst = ev["obs"]["inst"].as_bool().unwrap_or(false);
        th = ev["obs"]["th"].as_i64().unwrap_or(0);
        t.step(ev);
        if sys.over_limits {
            return;
        }
    }
}

fn drive_weighted(sys: &mut Sys, r: &mut StdRng, len: usize, t: &mut Trace) {
    let all = sys.all_names();
    let big = sys.wshift > 0;
    let maxw = sys.maxw();
    let wvals: Vec<i64> = if big { vec![0, 1, 2, 64, 100, 127, 128, 255] } else { vec![0, 1, 1, 2, 3, 5, 10, 100, 1000] };
    let mut g = Gen { r, all: all.clone() };
    let (mut inst, mut th) = (false, 0i64);
    let mut w: Vec<i64> = vec![-1; all.len()];
    for _ in 0..len {
        let dt = if g.r.gen_ratio(1, 25) { 3000 } else { *pick(g.r, &[0i64, 0, 0, 1, 2]) };
        let kinds: &[&str] = if inst {
            &["enforce", "enforce", "enforce", "enforce", "enforce", "can", "set_threshold", "set_weight", "set_weight", "install", "uninstall"]
        } else {
            &["install", "install", "install", "set_threshold", "set_weight", "enforce", "can", "uninstall"]
        };
        let kind = *pick(g.r, kinds);
        let total: i64 = w.iter().filter(|x| **x > 0).sum();
        let op = match kind {
            "install" => {
                let au = g.auth(0.85);
                let mut o = g.op(kind, dt, &au);
                let mut tot = 0i64;
                // a few heavy signers in the overflow regime so that totals land on both sides of u32::MAX
                let heavy = g.r.gen_bool(0.5);
                for nm in &all {
                    let x = if g.r.gen_bool(0.25) {
                        -1
                    } else if big && !heavy {
                        *pick(g.r, &[0i64, 1, 2, 5, 20])
                    } else {
                        *pick(g.r, &wvals)
                    };
                    o["w"][nm] = json!(x);
                    tot += x.max(0);
                }
                let x = match g.r.gen_range(0..8) {
                    0 => 0,
                    1 => tot + 1,
                    2 => tot,
                    3 => 1,
                    _ => g.r.gen_range(1..=tot.max(1)),
                };
                o["th"] = json!(x.min(maxw.min(1 << 29)));
                o
            }
            "set_threshold" => {
                let au = g.auth(0.85);
                let mut o = g.op(kind, dt, &au);
                let x = match g.r.gen_range(0..7) {
                    0 => 0,
                    1 => total + 1,
                    2 => total,
                    3 => 1,
                    _ => g.r.gen_range(1..=total.max(1)),
                };
                o["th"] = json!(x.min(maxw.min(1 << 29)));
                o
            }
            "set_weight" => {
                let au = g.auth(0.85);
                let mut o = g.op(kind, dt, &au);
                let i = g.r.gen_range(0..all.len());
                o["who"] = json!(all[i]);
                // also: exactly what keeps / breaks reachability, and what overflows the total
                let rest = total - w[i].max(0);
                let x = match g.r.gen_range(0..8) {
                    0 => (th - rest).max(0),
                    1 => (th - rest - 1).max(0),
                    // (only in the overflow regime: at unit scale the driver keeps every sum far below 2^31,
                    // which is what lets the trace specification use 32-bit integers)
                    2 if big => (maxw - rest).clamp(0, 255),
                    3 if big => (maxw - rest + 1).clamp(0, 255),
                    _ => *pick(g.r, &wvals),
                };
                o["amt"] = json!(if big { x.min(255) } else { x });
                o
            }
            "uninstall" => {
                let au = g.auth(0.6);
                g.op(kind, dt, &au)
            }
            _ => {
                let au = if kind == "can" { vec![] } else { g.auth(0.85) };
                let mut o = g.op(kind, dt, &au);
                // grow a random subset until it reaches the threshold, then maybe drop the last signer
                let mut order = g.subset_of_size(&all, all.len());
                let mut sg: Vec<String> = Vec::new();
                let mode = g.r.gen_range(0..6);
                if mode == 0 {
                    let k = g.r.gen_range(0..=all.len());
                    order.truncate(k);
                    sg = order;
                } else {
                    let mut sum = 0i64;
                    for nm in order {
                        if sum >= th && mode != 1 {
                            break;
                        }
                        let i = all.iter().position(|x| *x == nm).unwrap();
                        sum += w[i].max(0);
                        sg.push(nm);
                    }
                    if mode >= 4 && !sg.is_empty() {
                        sg.pop();
                    }
                }
                o["sg"] = json!(sg);
                o["ctx"] = json!(*pick(g.r, &["transfer", "transfer", "fn", "ctor"]));
                o
            }
        };
        let ev = sys.step(&op);
        inst = ev["obs"]["inst"].as_bool().unwrap_or(false);
        th = ev["obs"]["th"].as_i64().unwrap_or(0);
        for (i, nm) in all.iter().enumerate() {
            w[i] = ev["obs"]["w"][nm].as_i64().unwrap_or(-1);
        }
        t.step(ev);
        if sys.over_limits {
            return;
        }
    }
}

/// model number standing for a period of u32::MAX ledgers
const TOP_PER: i64 = 1_000_000_000;
/// see `Sys::amount`
const FINE: i64 = 1000;
const AMAX: i64 = 8 * FINE - 1;

const BAD_CTX: [&str; 8] = ["fn", "short", "u32", "u128", "i64", "sym", "create", "ctor"];

/// i128-edge regime: the embedding n * FINE + m <-> n * 2^124 + m preserves order and sums only while the small parts
/// stay far below FINE / 2 - values that are not already "whole units and a few" are snapped to whole units.
fn snap(x: i64) -> i64 {
    let m = (x + FINE / 2).rem_euclid(FINE) - FINE / 2;
    if m.abs() <= 4 { x } else { x - m }
}

fn drive_spending(sys: &mut Sys, r: &mut StdRng, len: usize, t: &mut Trace) {
    let all = sys.all_names();
    let big = sys.ashift > 0;
    let mut g = Gen { r, all };
    let (mut inst, mut limit, mut per, mut cached) = (false, 0i64, 0i64, 0i64);
    for _ in 0..len {
        let kinds: &[&str] = if inst {
            &["enforce", "enforce", "enforce", "enforce", "enforce", "enforce", "enforce", "enforce", "enforce", "enforce", "enforce",
              "can", "set_limit", "set_limit", "install", "uninstall"]
        } else {
            &["install", "install", "install", "install", "set_limit", "enforce", "can", "uninstall"]
        };
        let mut kind = *pick(g.r, kinds);
        if kind == "uninstall" && inst && g.r.gen_bool(0.6) {
            kind = "enforce";
        }
        let op = match kind {
            "install" => {
                let au = g.auth(0.85);
                let mut o = g.op(kind, 0, &au);
                let l = if big { *pick(g.r, &[0i64, 1, 3 * FINE + 2, 5 * FINE, 7 * FINE, AMAX - 3, AMAX, AMAX, AMAX]) } else { *pick(g.r, &[0i64, 1, 2, 5, 10, 10, 100, 1000]) };
                o["amt"] = json!(l);
                o["per"] = json!(*pick(g.r, &[0i64, 1, 1, 2, 2, 3, 5, 8, 20, 20, TOP_PER, TOP_PER - 1]));
                o
            }
            "set_limit" => {
                let au = g.auth(0.85);
                let mut o = g.op(kind, 0, &au);
                let x = match g.r.gen_range(0..7) {
                    0 => 0,
                    1 => cached - 1,
                    2 => cached,
                    3 => cached + 1,
                    4 => limit + 1,
                    _ => g.r.gen_range(1..=(2 * limit).max(2)),
                };
                o["amt"] = json!(if big { snap(x.clamp(0, AMAX)).min(AMAX) } else { x.clamp(0, 1 << 20) });
                o
            }
            "uninstall" => {
                let au = g.auth(0.6);
                g.op(kind, 0, &au)
            }
            _ => {
                // ledger gaps 0 .. period + 1, several transfers inside one ledger
                let dt = match g.r.gen_range(0..10) {
                    0..=4 => 0,
                    5 | 6 => 1,
                    7 => (per - 1).max(0),
                    8 => per,
                    _ => g.r.gen_range(0..=per + 1),
                }
                .min(5000); // (a "lifetime" period must not carry the ledger number out of the 32-bit range of the traces)
                let au = if kind == "can" { vec![] } else { g.auth(0.9) };
                let mut o = g.op(kind, dt, &au);
                // amounts 0 .. limit + 1: exactly what is left, one more, small ones
                let left = (limit - cached).max(0);
                let x = match g.r.gen_range(0..10) {
                    0 => 0,
                    1 => left,
                    2 => left + 1,
                    3 => limit,
                    4 => limit + 1,
                    5 | 6 => 1,
                    7 if big => *pick(g.r, &[1i64, 2, FINE, 2 * FINE + 1, AMAX - 3, AMAX - 1, AMAX]),
                    _ => g.r.gen_range(0..=(limit / 3).max(1)),
                };
                o["amt"] = json!(if big { snap(x.clamp(0, AMAX)).min(AMAX) } else { x.clamp(0, 1 << 20) });
                o["ctx"] = json!(if g.r.gen_bool(0.1) { *pick(g.r, &BAD_CTX) } else { "transfer" });
                let k = if g.r.gen_bool(0.06) { 0 } else { g.r.gen_range(1..=g.all.len()) };
                let all = g.all.clone();
                o["sg"] = json!(g.subset_of_size(&all, k));
                o
            }
        };
        let ev = sys.step(&op);
        inst = ev["obs"]["inst"].as_bool().unwrap_or(false);
        limit = ev["obs"]["limit"].as_i64().unwrap_or(0);
        per = ev["obs"]["per"].as_i64().unwrap_or(0);
        cached = ev["obs"]["cached"].as_i64().unwrap_or(0);
        t.step(ev);
        if sys.over_limits || (big && (fine_small_part(cached) > 150 || fine_small_part(limit) > 150)) {
            return;
        }
    }
}

/// One long run at the real scale: the history grows to the 1000-entry bound, stays there while nothing
/// expires, then old entries drop out a few at a time.
fn drive_spending_long(sys: &mut Sys, r: &mut StdRng, t: &mut Trace) {
    let all = sys.all_names();
    let mut g = Gen { r, all };
    let tight = g.r.gen_bool(0.5);
    let period = 400i64;
    let mut o = g.op("install", 0, &["acct"]);
    o["amt"] = json!(if tight { 1300 } else { 1_000_000 });
    o["per"] = json!(period);
    let ev = sys.step(&o);
    t.step(ev);
    let mut first_l: Option<i64> = None;
    let (mut hn, mut probed, mut tail) = (0i64, false, 0usize);
    for _ in 0..1500 {
        // fill until the history holds MAX_HISTORY_ENTRIES = 1000 entries (all of them inside the window), probe, then a
        // tail of 220 calls during which old entries drop out a few at a time
        let filling = hn < 1000 && !probed;
        if !filling {
            tail += 1;
            if tail > 220 {
                break;
            }
        }
        if !filling && !probed {
            probed = true;
            // directed: the history is full and (still) entirely inside the window - probe can_enforce / enforce one
            // ledger before, at and after the ledger at which the oldest entries leave the window
            if let Some(l0) = first_l {
                for aim in [l0 + period - 1, l0 + period, l0 + period + 1] {
                    let now = seq(&sys.e) as i64;
                    if aim < now {
                        continue;
                    }
                    for (j, kind) in ["can", "enforce"].iter().enumerate() {
                        let au: &[&str] = if *kind == "can" { &[] } else { &["acct"] };
                        let mut o = g.op(kind, if j == 0 { aim - now } else { 0 }, au);
                        o["amt"] = json!(1);
                        o["sg"] = json!(["s1"]);
                        let ev = sys.step(&o);
                        t.step(ev);
                        if sys.over_limits {
                            return;
                        }
                    }
                }
            }
        }
        let dt = if filling { *pick(g.r, &[0i64, 0, 0, 0, 1]) } else { *pick(g.r, &[0i64, 0, 1, 1, 2, 3, 5]) };
        let kind = if g.r.gen_bool(0.03) { "can" } else { "enforce" };
        let au = if kind == "can" { vec![] } else { g.auth(0.97) };
        let mut o = g.op(kind, dt, &au);
        o["amt"] = json!(*pick(g.r, &[0i64, 1, 1, 1, 2, 2, 3]));
        o["sg"] = json!(["s1"]);
        if g.r.gen_bool(0.01) {
            o["ctx"] = json!(*pick(g.r, &BAD_CTX));
        }
        if g.r.gen_bool(0.004) {
            o = g.op("set_limit", 0, &["acct"]);
            o["amt"] = json!(if tight { *pick(g.r, &[1200i64, 1300, 1400]) } else { 1_000_000 });
        }
        let ev = sys.step(&o);
        if first_l.is_none() && ev["res"] == "ok" && ev["op"]["op"] == "enforce" && ev["op"]["ctx"] == "transfer" {
            first_l = ev["now"].as_i64();
        }
        hn = ev["obs"]["hn"].as_i64().unwrap_or(0);
        t.step(ev);
        if sys.over_limits {
            return;
        }
    }
}

fn main() {
    match cli() {
        Mode::Exec { input, output } => {
            let mut t = Trace::create(&output);
            for b in read_behaviours(&input) {
                let fl = b.cfg.get("flavour").and_then(|v| v.as_str()).unwrap_or("simple").to_string();
                let nsig = b.cfg.get("nsig").and_then(|v| v.as_u64()).unwrap_or(3) as usize;
                let wshift = b.cfg.get("wshift").and_then(|v| v.as_u64()).unwrap_or(0) as u32;
                let ashift = b.cfg.get("ashift").and_then(|v| v.as_u64()).unwrap_or(0) as u32;
                let limits = b.cfg.get("limits").and_then(|v| v.as_str()).unwrap_or("off").to_string();
                let mut sys = Sys::new(&fl, nsig, wshift, ashift, &limits);
                t.reset(sys.reset_event());
                for op in &b.ops {
                    let ev = sys.step(op);
                    t.step(ev);
                    if sys.over_limits {
                        break;
                    }
                }
            }
            t.finish();
        }
        Mode::Drive { seed, runs, len, output } => {
            let mut t = Trace::create(&output);
            let mut r = StdRng::seed_from_u64(seed);
            // VERIF_POLICIES_LIMITS=mainnet keeps the SDK's emulation of the network's resource limits on
            let limits = std::env::var("VERIF_POLICIES_LIMITS").unwrap_or_else(|_| "off".to_string());
            let limits = limits.as_str();
            // Known finding (known_findings.json, C14): with the network's ledger-entry size limit emulated, the
            // spending history cannot grow to MAX_HISTORY_ENTRIES; the first of the parallel drivers reproduces it.
            if seed % 1000 == 0 && limits != "mainnet" {
                let mut sys = Sys::new("spending", 3, 0, 0, "mainnet");
                t.reset(sys.reset_event());
                drive_spending_long(&mut sys, &mut r, &mut t);
            }
            for run in 0..runs {
                let nsig = *pick(&mut r, &[1usize, 2, 3, 3, 4, 5, 8, 15]);
                match run % 3 {
                    0 => {
                        let mut sys = Sys::new("simple", nsig, 0, 0, limits);
                        t.reset(sys.reset_event());
                        drive_simple(&mut sys, &mut r, len, &mut t);
                    }
                    1 => {
                        let wshift = if (run / 3) % 2 == 1 { 24 } else { 0 };
                        let mut sys = Sys::new("weighted", nsig.max(2), wshift, 0, limits);
                        t.reset(sys.reset_event());
                        drive_weighted(&mut sys, &mut r, len, &mut t);
                    }
                    _ => {
                        let ashift = if (run / 3) % 4 == 3 { 124 } else { 0 };
                        let mut sys = Sys::new("spending", nsig.min(3), 0, ashift, limits);
                        t.reset(sys.reset_event());
                        // a few long runs at the real history bound: one per four driver seeds
                        if run == 2 && seed % 4 == 0 {
                            drive_spending_long(&mut sys, &mut r, &mut t);
                        } else {
                            drive_spending(&mut sys, &mut r, len, &mut t);
                        }
                    }
                }
            }
            t.finish();
        }
    }
}
