//! Binding of spec/Nft.tla (C10, C11): three NFT flavours.
//!
//! * base        — thin contract below (Base::sequential_mint, Base::mint, default NonFungibleToken
//!                 and NonFungibleBurnable, i.e. 1:1 forwards to Base::*) and the real
//!                 nft-sequential-minting example (sequential mint only);
//! * enumerable  — the real nft-enumerable example (sequential mint only) and a thin contract that
//!                 additionally exposes Enumerable::non_sequential_mint;
//! * consecutive — the real nft-consecutive example (batch_mint(to, amount)).
//!
//! All state-changing calls go through `try_invoke_contract` on registered contracts (the entry
//! points have the same names in every flavour), with exactly the model's authorization set.
#![allow(dead_code)]
use std::collections::BTreeSet;

use soroban_sdk::{Address, Env, Error as SErr, String as SStr, Symbol, TryFromVal, Val, Vec as SVec};
use verif_harness::*;

#[path = "/repo/examples/nft-enumerable/src/contract.rs"]
mod ex_enum;
#[path = "/repo/examples/nft-consecutive/src/contract.rs"]
mod ex_cons;
#[path = "/repo/examples/nft-sequential-minting/src/contract.rs"]
mod ex_seq;

mod thin_base {
    use soroban_sdk::{contract, contractimpl, Address, Env, String};
    use stellar_tokens::non_fungible::{burnable::NonFungibleBurnable, Base, NonFungibleToken};

    #[contract]
    pub struct BaseNft;

    #[contractimpl]
    impl BaseNft {
        pub fn __constructor(e: &Env, uri: String, name: String, symbol: String) {
            Base::set_metadata(e, uri, name, symbol);
        }
        pub fn mint_seq(e: &Env, to: Address) -> u32 {
            Base::sequential_mint(e, &to)
        }
        pub fn mint_id(e: &Env, to: Address, token_id: u32) {
            Base::mint(e, &to, token_id)
        }
    }

    #[contractimpl(contracttrait)]
    impl NonFungibleToken for BaseNft {
        type ContractType = Base;
    }

    #[contractimpl(contracttrait)]
    impl NonFungibleBurnable for BaseNft {}
}

mod thin_enum {
    use soroban_sdk::{contract, contractimpl, Address, Env, String};
    use stellar_tokens::non_fungible::{
        burnable::NonFungibleBurnable,
        enumerable::{Enumerable, NonFungibleEnumerable},
        Base, NonFungibleToken,
    };

    #[contract]
    pub struct EnumNft;

    #[contractimpl]
    impl EnumNft {
        pub fn __constructor(e: &Env, uri: String, name: String, symbol: String) {
            Base::set_metadata(e, uri, name, symbol);
        }
        pub fn mint_seq(e: &Env, to: Address) -> u32 {
            Enumerable::sequential_mint(e, &to)
        }
        pub fn mint_id(e: &Env, to: Address, token_id: u32) {
            Enumerable::non_sequential_mint(e, &to, token_id)
        }
    }

    #[contractimpl(contracttrait)]
    impl NonFungibleToken for EnumNft {
        type ContractType = Enumerable;
    }

    #[contractimpl(contracttrait)]
    impl NonFungibleEnumerable for EnumNft {}

    #[contractimpl(contracttrait)]
    impl NonFungibleBurnable for EnumNft {}
}

mod thin_cons {
    //! Consecutive with nothing overridden: every NonFungibleToken / burnable entry point is the trait's default,
    //! i.e. goes through `impl ContractOverrides for Consecutive` (the example spells its entry points out)
    use soroban_sdk::{contract, contractimpl, contracttype, Address, Env, String};
    use stellar_tokens::non_fungible::{
        burnable::NonFungibleBurnable,
        consecutive::{Consecutive, NonFungibleConsecutive},
        Base, NonFungibleToken,
    };

    #[contracttype]
    pub enum DataKey {
        Owner,
    }

    #[contract]
    pub struct ConsNft;

    #[contractimpl]
    impl ConsNft {
        pub fn __constructor(e: &Env, uri: String, name: String, symbol: String, owner: Address) {
            e.storage().instance().set(&DataKey::Owner, &owner);
            Base::set_metadata(e, uri, name, symbol);
        }
        pub fn batch_mint(e: &Env, to: Address, amount: u32) -> u32 {
            let owner: Address = e.storage().instance().get(&DataKey::Owner).expect("owner should be set");
            owner.require_auth();
            Consecutive::batch_mint(e, &to, amount)
        }
    }

    #[contractimpl(contracttrait)]
    impl NonFungibleToken for ConsNft {
        type ContractType = Consecutive;
    }

    impl NonFungibleConsecutive for ConsNft {}

    #[contractimpl(contracttrait)]
    impl NonFungibleBurnable for ConsNft {}
}

const ACCTS: [&str; 4] = ["a", "b", "c", "d"];
const NOW0: u32 = 10;
thread_local! {
    /// ledger sequence the next run starts from (minus NOW0): ledgers and expiries are logged relative to it; runs with a
    /// high base work next to i32::MAX, where expiry arithmetic in a narrower or signed type breaks
    static LBASE: std::cell::Cell<u32> = const { std::cell::Cell::new(0) };
}
const MAX_TTL: u32 = 6_000_000;
const BUCKET: u32 = 3200; // consecutive::IDS_IN_BUCKET
const ITEM: u32 = 32; // consecutive::IDS_IN_ITEM
const LIST_CAP: u32 = 300;

struct Sys {
    e: Env,
    names: Names,
    admin: Address,
    c: Address,
    fl: String,
    imp: String,
    min_temp: u32,
    touched: BTreeSet<u32>,
    batches: Vec<(u32, u32)>,
    next: u32, // one past the highest id known to be issued by sequential / batch minting
    /// Ids are logged relative to `base` (0 normally): in "high" runs the sequential id counter is advanced to within
    /// a few ids of u32::MAX before the judged history starts - a state the public API reaches only after some
    /// 134 000 maximal batches - so that minting runs into the end of the id space.
    base: u32,
}

fn sym(e: &Env, f: &str) -> Symbol {
    Symbol::new(e, f)
}

impl Sys {
    /// None: the id lies beyond u32::MAX - no such token can exist (and an id wrapped around would make the
    /// consecutive owner_of scan the whole artificially skipped id space)
    fn real(&self, m: u32) -> Option<u32> {
        self.base.checked_add(m)
    }
    fn model(&self, r: u32) -> u32 {
        r.wrapping_sub(self.base)
    }

    fn new(fl: &str, imp: &str, min_temp: u32, base: u32) -> Sys {
        let lbase: u32 = LBASE.with(|c| c.get());
        let e = new_env(&LedgerCfg { seq: lbase + NOW0, min_temp, min_persistent: 1_000_000, max_ttl: MAX_TTL });
        let names = Names::new(&e, &ACCTS);
        let admin = <Address as soroban_sdk::testutils::Address>::generate(&e);
        let st = |x: &str| SStr::from_str(&e, x);
        let c = match (fl, imp) {
            ("base", "thin") => e.register(thin_base::BaseNft, (st("https://x/"), st("n"), st("s"))),
            ("base", "example") => e.register(ex_seq::ExampleContract, (st("https://x/"), st("n"), st("s"), admin.clone())),
            ("enumerable", "thin") => e.register(thin_enum::EnumNft, (st("https://x/"), st("n"), st("s"))),
            ("enumerable", "example") => {
                e.register(ex_enum::ExampleContract, (st("https://x/"), st("n"), st("s"), admin.clone()))
            }
            ("consecutive", "example") => {
                e.register(ex_cons::ExampleContract, (st("https://x/"), st("n"), st("s"), admin.clone()))
            }
            ("consecutive", "thin") => {
                e.register(thin_cons::ConsNft, (st("https://x/"), st("n"), st("s"), admin.clone()))
            }
            _ => panic!("flavour {fl}/{imp}"),
        };
        let sys = Sys {
            e,
            names,
            admin,
            c,
            fl: fl.into(),
            imp: imp.into(),
            min_temp,
            touched: BTreeSet::new(),
            batches: vec![],
            next: 0,
            base,
        };
        if base > 0 {
            // set-up, not judged: the library's own counter primitive, in the contract's frame
            let (e2, c2) = (sys.e.clone(), sys.c.clone());
            e2.as_contract(&c2, || {
                stellar_tokens::non_fungible::sequential::increment_token_id(&e2, base);
            });
        }
        sys
    }

    // ---- getters (public entry points only) -------------------------------------------------
    fn get<T: TryFromVal<Env, Val>>(&self, f: &str, a: SVec<Val>) -> Option<T> {
        match self.e.try_invoke_contract::<T, SErr>(&self.c, &sym(&self.e, f), a) {
            Ok(Ok(v)) => Some(v),
            _ => None,
        }
    }
    fn owner_of(&self, id: u32) -> String {
        match self.real(id) {
            Some(rid) => self.names.opt_name(&self.get::<Address>("owner_of", args(&self.e, (rid,)))),
            None => "none".into(),
        }
    }
    fn has_uri(&self, id: u32) -> &'static str {
        match self.real(id) {
            Some(rid) if self.get::<SStr>("token_uri", args(&self.e, (rid,))).is_some() => "ok",
            _ => "fail",
        }
    }
    fn balance(&self, a: &str) -> i64 {
        self.get::<u32>("balance", args(&self.e, (self.names.get(a),))).map(|x| x as i64).unwrap_or(-1)
    }
    fn approved(&self, id: u32) -> String {
        let Some(rid) = self.real(id) else { return "none".into() };
        match self.get::<Option<Address>>("get_approved", args(&self.e, (rid,))) {
            Some(x) => self.names.opt_name(&x),
            None => "?".into(),
        }
    }
    fn operator(&self, o: &str, p: &str) -> bool {
        self.get::<bool>("is_approved_for_all", args(&self.e, (self.names.get(o), self.names.get(p)))).unwrap_or(false)
    }

    /// ids whose owner is queried after every call: every id named so far +-1, every batch edge +-1,
    /// the bucket / item edges inside each batch, a margin beyond the highest id; all ids when few.
    fn obs_ids(&self) -> Vec<u32> {
        let mut s: BTreeSet<u32> = BTreeSet::new();
        let near = |s: &mut BTreeSet<u32>, x: u32| {
            for y in [x.saturating_sub(1), x, x.saturating_add(1)] {
                s.insert(y);
            }
        };
        for &t in &self.touched {
            near(&mut s, t);
        }
        for &(lo, hi) in &self.batches {
            near(&mut s, lo);
            near(&mut s, hi);
            // first and last bucket edge and item edge inside the batch
            for unit in [BUCKET, ITEM] {
                let first = lo.div_ceil(unit) * unit;
                let last = (hi / unit) * unit;
                for x in [first, last] {
                    if x > lo && x <= hi {
                        s.insert(x - 1);
                        s.insert(x);
                    }
                }
            }
        }
        for k in 0..3 {
            s.insert(self.next + k);
        }
        if self.next < 40 {
            for x in 0..self.next + 3 {
                s.insert(x);
            }
        }
        s.into_iter().collect()
    }

    fn obs(&self) -> Value {
        no_auth(&self.e);
        let ids = self.obs_ids();
        let owners: Vec<Value> = ids.iter().map(|&i| json!({"id": i, "o": self.owner_of(i), "u": self.has_uri(i)})).collect();
        let appr: Vec<Value> = ids.iter().map(|&i| json!({"id": i, "who": self.approved(i)})).collect();
        let mut bal = JMap::new();
        let mut opall = JMap::new();
        let mut otok = JMap::new();
        let mut otok_oob = JMap::new();
        let enumerable = self.fl == "enumerable";
        for a in ACCTS {
            let b = self.balance(a);
            bal.insert(a.into(), json!(b));
            let mut row = JMap::new();
            for p in ACCTS {
                row.insert(p.into(), json!(self.operator(a, p)));
            }
            opall.insert(a.into(), Value::Object(row));
            let addr = self.names.get(a);
            let mut lst: Vec<i64> = vec![];
            let mut oob = "fail";
            if enumerable {
                for k in 0..(b.max(0) as u32).min(LIST_CAP) {
                    lst.push(self.get::<u32>("get_owner_token_id", args(&self.e, (addr.clone(), k))).map(|x| self.model(x) as i64).unwrap_or(-1));
                }
                if self.get::<u32>("get_owner_token_id", args(&self.e, (addr.clone(), b.max(0) as u32))).is_some() {
                    oob = "ok";
                }
            }
            otok.insert(a.into(), json!(lst));
            otok_oob.insert(a.into(), json!(oob));
        }
        let (mut supply, mut glob, mut glob_oob) = (-1i64, Vec::<i64>::new(), "fail");
        if enumerable {
            supply = self.get::<u32>("total_supply", args(&self.e, ())).map(|x| x as i64).unwrap_or(-2);
            for k in 0..(supply.max(0) as u32).min(LIST_CAP) {
                glob.push(self.get::<u32>("get_token_id", args(&self.e, (k,))).map(|x| self.model(x) as i64).unwrap_or(-1));
            }
            if self.get::<u32>("get_token_id", args(&self.e, (supply.max(0) as u32,))).is_some() {
                glob_oob = "ok";
            }
        }
        json!({"owners": owners, "bal": bal, "appr": appr, "opall": opall, "supply": supply, "glob": glob,
               "glob_oob": glob_oob, "otok": otok, "otok_oob": otok_oob})
    }

    // ---- one call -----------------------------------------------------------------------------
    fn invoke(&self, f: &str, a: SVec<Val>, auth: &[(Address, Inv)]) -> (&'static str, i64, Option<Val>) {
        set_auths(&self.e, auth);
        let r = self.e.try_invoke_contract::<Val, SErr>(&self.c, &sym(&self.e, f), a);
        let (res, code) = res_of(&r);
        let v = match r {
            Ok(Ok(v)) => Some(v),
            _ => None,
        };
        (res, code, v)
    }

    fn same(&self, who: &[Address], f: &str, a: &SVec<Val>) -> Vec<(Address, Inv)> {
        who.iter().map(|w| (w.clone(), Inv::new(&self.c, f, a.clone()))).collect()
    }

    fn step(&mut self, op: &Value) -> Value {
        let e = self.e.clone();
        set_seq(&e, seq(&e) + n(op, "dt") as u32);
        let lbase = LBASE.with(|c| c.get());
        let now = seq(&e) - lbase;
        let who = auth_addrs(op, &self.names);
        let kind = s(op, "op");
        let id = n(op, "id") as u32;
        let until = if n(op, "until") > 0 { (lbase as u64 + n(op, "until") as u64).min(u32::MAX as u64) as u32 } else { 0 };
        let Some(rid) = self.real(id) else {
            // an id beyond u32::MAX cannot be passed to the contract at all
            return json!({"op": op, "now": now, "res": "fail", "err": -8, "ret": -1, "obs": self.obs()});
        };
        let acct = |k: &str| self.names.get(s(op, k));
        let mut ret: i64 = -1;
        let (res, code) = match kind {
            "mint_seq" | "mint_id" | "batch" => {
                // minting is the deployer's business: the examples gate it by their owner, whose
                // authorization is always supplied; the thin contracts forward without a gate
                let to = acct("to");
                let (f, a): (&str, SVec<Val>) = match (kind, self.fl.as_str(), self.imp.as_str()) {
                    ("mint_seq", _, "thin") => ("mint_seq", args(&e, (to,))),
                    ("mint_seq", "enumerable", "example") | ("mint_seq", "base", "example") => ("mint", args(&e, (to,))),
                    ("mint_id", _, "thin") => ("mint_id", args(&e, (to, rid))),
                    ("batch", "consecutive", _) => ("batch_mint", args(&e, (to, n(op, "n") as u32))),
                    _ => ("", args(&e, ())),
                };
                if f.is_empty() {
                    ("fail", -9) // entry point not exposed by this flavour
                } else {
                    let auth = vec![(self.admin.clone(), Inv::new(&self.c, f, a.clone()))];
                    let (res, code, v) = self.invoke(f, a, &auth);
                    if res == "ok" {
                        match kind {
                            "mint_id" => {
                                self.touched.insert(id);
                            }
                            _ => {
                                let r = self.model(v.and_then(|v| u32::try_from_val(&e, &v).ok()).expect("mint returns an id"));
                                ret = r as i64;
                                self.next = self.next.max(r + 1);
                                if kind == "batch" {
                                    let cnt = n(op, "n") as u32;
                                    self.batches.push(((r + 1).saturating_sub(cnt), r));
                                } else {
                                    self.touched.insert(r);
                                }
                            }
                        }
                    }
                    (res, code)
                }
            }
            "transfer" => {
                self.touched.insert(id);
                let a = args(&e, (acct("from"), acct("to"), rid));
                let (r, c, _) = self.invoke("transfer", a.clone(), &self.same(&who, "transfer", &a));
                (r, c)
            }
            "transfer_from" => {
                self.touched.insert(id);
                let a = args(&e, (acct("sp"), acct("from"), acct("to"), rid));
                let (r, c, _) = self.invoke("transfer_from", a.clone(), &self.same(&who, "transfer_from", &a));
                (r, c)
            }
            "burn" => {
                self.touched.insert(id);
                let a = args(&e, (acct("from"), rid));
                let (r, c, _) = self.invoke("burn", a.clone(), &self.same(&who, "burn", &a));
                (r, c)
            }
            "burn_from" => {
                self.touched.insert(id);
                let a = args(&e, (acct("sp"), acct("from"), rid));
                let (r, c, _) = self.invoke("burn_from", a.clone(), &self.same(&who, "burn_from", &a));
                (r, c)
            }
            "approve" => {
                self.touched.insert(id);
                let a = args(&e, (acct("from"), acct("to"), rid, until));
                let (r, c, _) = self.invoke("approve", a.clone(), &self.same(&who, "approve", &a));
                (r, c)
            }
            "approve_for_all" => {
                let a = args(&e, (acct("from"), acct("to"), until));
                let (r, c, _) = self.invoke("approve_for_all", a.clone(), &self.same(&who, "approve_for_all", &a));
                (r, c)
            }
            k => panic!("op {k}"),
        };
        json!({"op": op, "now": now, "res": res, "err": code, "ret": ret, "obs": self.obs()})
    }

    fn reset_event(&self) -> Value {
        json!({"op": {"op": "reset", "flavour": self.fl, "imp": self.imp, "min_temp": self.min_temp, "base": self.base.to_string(), "lbase": LBASE.with(|c| c.get()).to_string()},
               "now": NOW0, "res": "ok", "err": 0, "ret": -1, "obs": self.obs()})
    }
}

// ---------------------------------------------------------------------------------------------
// model ids -> real ids for the consecutive flavour: the model's bucket geometry is ITEMS = 2 items
// of BITS = 2 bits; its item and bucket edges are sent to the real item and bucket edges.
// ---------------------------------------------------------------------------------------------
fn edge(m: i64) -> i64 {
    if m < 0 {
        return -1;
    }
    (m / 4) * BUCKET as i64 + ((m % 4) / 2) * ((BUCKET - ITEM) as i64) + (m % 2) * (ITEM as i64 - 1)
}

fn remap(ops: &[Value]) -> Vec<Value> {
    let mut ctr: i64 = 0;
    ops.iter()
        .map(|op| {
            let mut o = op.clone();
            if s(op, "op") == "batch" {
                let k = n(op, "n");
                if k > 0 {
                    o["n"] = json!(edge(ctr + k - 1) - edge(ctr - 1));
                    if op.get("exp").and_then(|x| x.as_str()) != Some("fail") {
                        ctr += k;
                    }
                }
            } else {
                o["id"] = json!(edge(n(op, "id")));
            }
            o
        })
        .collect()
}

fn run_ops(t: &mut Trace, fl: &str, imp: &str, min_temp: u32, ops: &[Value]) {
    run_ops_at(t, fl, imp, min_temp, 0, ops)
}

fn run_ops_at(t: &mut Trace, fl: &str, imp: &str, min_temp: u32, base: u32, ops: &[Value]) {
    let mut sys = Sys::new(fl, imp, min_temp, base);
    t.reset(sys.reset_event());
    for op in ops {
        let ev = sys.step(op);
        t.step(ev);
    }
}

// ---------------------------------------------------------------------------------------------
// seeded random driver with state feedback through the public getters
// ---------------------------------------------------------------------------------------------
fn pick_id(r: &mut StdRng, sys: &Sys) -> u32 {
    let mut pool: Vec<u32> = sys.touched.iter().cloned().collect();
    for &(lo, hi) in &sys.batches {
        let span = hi - lo + 1;
        let inside = lo + r.gen_range(0..span);
        pool.extend([lo, hi, (lo + 1).min(hi), hi.saturating_sub(1).max(lo), inside]);
        for unit in [BUCKET, ITEM] {
            // an edge of that unit at or after a random point of the batch
            let x = (inside.div_ceil(unit)) * unit;
            if x > lo && x <= hi {
                pool.push(x);
                pool.push(x - 1);
            }
        }
    }
    if pool.is_empty() || r.gen_bool(0.06) {
        return sys.next + r.gen_range(0..2);
    }
    let x = *pick(r, &pool);
    if r.gen_bool(0.08) {
        x.saturating_add(1)
    } else {
        x
    }
}

fn gen_op(r: &mut StdRng, sys: &Sys, xid: &mut u32) -> Value {
    let now = (seq(&sys.e) - LBASE.with(|c| c.get())) as i64;
    let dt = if r.gen_ratio(1, 25) { 3000 } else { *pick(r, &[0i64, 0, 0, 0, 1, 1, 2, 3]) };
    let t = now + dt;
    let have = !sys.touched.is_empty() || !sys.batches.is_empty();
    let kinds = ["mint", "mint", "transfer", "transfer", "transfer_from", "transfer_from", "transfer_from", "burn", "burn_from",
        "approve", "approve", "approve", "approve_for_all", "approve_for_all"];
    let kind = if have { *pick(r, &kinds) } else { "mint" };
    let any = |r: &mut StdRng| pick(r, &ACCTS).to_string();
    let mk = |op: &str, sp: &str, from: &str, to: &str, id: u32, cnt: i64, until: i64, auth: Vec<String>| {
        json!({"op": op, "sp": sp, "from": from, "to": to, "id": id, "n": cnt, "until": until, "auth": auth, "dt": dt})
    };
    if kind == "mint" {
        let to = any(r);
        return match sys.fl.as_str() {
            "consecutive" => {
                let nx = sys.next as i64;
                let cnt = match r.gen_range(0..10) {
                    0 => *pick(r, &[0i64, 32_001, 40_000]),
                    1 => *pick(r, &[31_999i64, 32_000]),
                    2 | 3 => {
                        // end exactly at, one before or one past the next bucket / item edge
                        let unit = *pick(r, &[BUCKET as i64, BUCKET as i64, ITEM as i64]);
                        let k = *pick(r, &[1i64, 1, 2, 3]);
                        ((nx / unit + k) * unit - nx + *pick(r, &[-1i64, 0, 1])).max(1)
                    }
                    4 => r.gen_range(3000..7000),
                    5 => r.gen_range(33..400),
                    _ => *pick(r, &[1i64, 1, 2, 3, 5, 31, 32, 33]),
                };
                mk("batch", "none", "none", &to, 0, cnt, 0, vec![])
            }
            _ => {
                if sys.imp == "thin" && r.gen_bool(0.35) {
                    *xid += 1 + r.gen_range(0..3);
                    mk("mint_id", "none", "none", &to, *xid, 0, 0, vec![])
                } else {
                    mk("mint_seq", "none", "none", &to, 0, 0, 0, vec![])
                }
            }
        };
    }
    no_auth(&sys.e);
    let id = pick_id(r, sys);
    let owner = sys.owner_of(id);
    let owner_or_any = |r: &mut StdRng| if owner != "none" && r.gen_bool(0.85) { owner.clone() } else { any(r) };
    let until = if r.gen_bool(0.15) {
        0
    } else {
        (t + *pick(r, &[-1i64, 0, 0, 1, 1, 2, 2, 3, 5, 40, 1000, (MAX_TTL - 1) as i64, MAX_TTL as i64])).max(1)
    };
    // the account in whose name the call is made
    let principal: String = match kind {
        "transfer" | "burn" | "approve_for_all" => owner_or_any(r),
        _ => {
            // owner, the approved account, an operator of the owner, or anybody
            let mut cands: Vec<String> = vec![];
            let ap = sys.approved(id);
            if ap != "none" && ap != "?" {
                cands.push(ap.clone());
                cands.push(ap);
            }
            if owner != "none" {
                for p in ACCTS {
                    if sys.operator(&owner, p) {
                        cands.push(p.to_string());
                        cands.push(p.to_string());
                    }
                }
                cands.push(owner.clone());
            }
            cands.push(any(r));
            pick(r, &cands).clone()
        }
    };
    let mut auth = subset(r, &ACCTS);
    if r.gen_bool(0.8) {
        if !auth.contains(&principal) {
            auth.push(principal.clone());
        }
    } else if r.gen_bool(0.5) {
        auth.retain(|x| *x != principal);
    }
    match kind {
        "transfer" => mk("transfer", "none", &principal, &any(r), id, 0, 0, auth),
        "burn" => mk("burn", "none", &principal, "none", id, 0, 0, auth),
        "transfer_from" => mk("transfer_from", &principal, &owner_or_any(r), &any(r), id, 0, 0, auth),
        "burn_from" => mk("burn_from", &principal, &owner_or_any(r), "none", id, 0, 0, auth),
        "approve" => mk("approve", "none", &principal, &any(r), id, 0, until, auth),
        "approve_for_all" => mk("approve_for_all", "none", &principal, &any(r), 0, 0, until, auth),
        k => panic!("kind {k}"),
    }
}

/// Directed probe: an operator approval that is first granted for long and then shortened keeps its storage entry alive
/// beyond the new expiry; once that has passed, nothing else (a live approval of the same token for somebody else,
/// the entry still being readable) may let the former operator move or burn the token.
fn lapse_script(r: &mut StdRng, sys: &Sys) -> Vec<Value> {
    no_auth(&sys.e);
    let id = pick_id(r, sys);
    let owner = sys.owner_of(id);
    if owner == "none" || owner == "?" {
        return vec![];
    }
    let others: Vec<&str> = ACCTS.iter().copied().filter(|a| *a != owner).collect();
    let opr = others[r.gen_range(0..others.len())];
    let third = *pick(r, &others.iter().copied().filter(|a| *a != opr).collect::<Vec<_>>());
    let now = (seq(&sys.e) - LBASE.with(|c| c.get())) as i64;
    let mk = |op: &str, sp: &str, from: &str, to: &str, id: u32, until: i64, auth: &str, dt: i64| {
        json!({"op": op, "sp": sp, "from": from, "to": to, "id": id, "n": 0, "until": until, "auth": [auth], "dt": dt})
    };
    let long = now + *pick(r, &[40i64, 1000, 100_000]);
    let short = now + *pick(r, &[0i64, 1, 2]);
    let mut v = vec![mk("approve_for_all", "none", &owner, opr, 0, long, &owner, 0),
        mk("approve_for_all", "none", &owner, opr, 0, short, &owner, 0)];
    match r.gen_range(0..3) {
        0 => {}
        1 => v.push(mk("approve", "none", &owner, third, id, long, &owner, 0)),
        // the token-level approval is the one that was shortened, the operator approval of somebody else lives on
        _ => {
            v = vec![mk("approve", "none", &owner, opr, id, long, &owner, 0), mk("approve", "none", &owner, opr, id, short, &owner, 0),
                mk("approve_for_all", "none", &owner, third, 0, long, &owner, 0)];
        }
    }
    let last = if r.gen_bool(0.3) { "burn_from" } else { "transfer_from" };
    let to = if last == "burn_from" { "none" } else { *pick(r, &[opr, third]) };
    v.push(mk(last, opr, &owner, to, id, 0, opr, 3));
    v
}

fn main() {
    match cli() {
        Mode::Exec { input, output } => {
            let mut t = Trace::create(&output);
            for (bi, b) in read_behaviours(&input).iter().enumerate() {
                if b.ops.is_empty() {
                    continue;
                }
                LBASE.with(|c| c.set(0));
                let has = |k: &str| b.ops.iter().any(|o| s(o, "op") == k);
                match b.cfg.get("flavour").and_then(|v| v.as_str()) {
                    // a replay file: exactly the recorded configuration, ops verbatim
                    Some(fl) => {
                        let imp = b.cfg.get("imp").and_then(|v| v.as_str()).unwrap_or("thin");
                        let mt = b.cfg.get("min_temp").and_then(|v| v.as_u64()).unwrap_or(16) as u32;
                        let base: u32 = b.cfg.get("base").and_then(|v| v.as_str()).and_then(|x| x.parse().ok()).unwrap_or(0);
                        LBASE.with(|c| c.set(b.cfg.get("lbase").and_then(|v| v.as_str()).and_then(|x| x.parse().ok()).unwrap_or(0)));
                        run_ops_at(&mut t, fl, imp, mt, base, &b.ops);
                    }
                    // a behaviour printed by TLC: the flavour is carried by every op record
                    None => match s(&b.ops[0], "fl") {
                        // (min_temp_entry_ttl = 16 = the model's MinTempTtl: an approval entry outlives
                        // a short explicit expiry, so only the explicit comparison protects)
                        // (the nft-sequential-minting example has no mint with an explicit id)
                        "base" => run_ops(&mut t, "base", if has("mint_id") || bi % 2 == 0 { "thin" } else { "example" }, 16, &b.ops),
                        "enumerable" => {
                            let imp = if has("mint_id") { "thin" } else { "example" };
                            run_ops(&mut t, "enumerable", imp, 16, &b.ops)
                        }
                        "consecutive" => {
                            // model geometry on the example, real bucket geometry alternately on the example and
                            // on the contract with nothing overridden
                            run_ops(&mut t, "consecutive", "example", 16, &b.ops);
                            run_ops(&mut t, "consecutive", if bi % 2 == 1 { "thin" } else { "example" }, 16, &remap(&b.ops));
                        }
                        f => panic!("flavour {f}"),
                    },
                }
            }
            t.finish();
        }
        Mode::Drive { seed, runs, len, output } => {
            let mut t = Trace::create(&output);
            let mut r = StdRng::seed_from_u64(seed);
            for run in 0..runs {
                let (fl, imp) = match run % 5 {
                    0 if (run / 5) % 2 == 1 => ("base", "example"),
                    0 => ("base", "thin"),
                    1 => ("enumerable", "example"),
                    2 => ("enumerable", "thin"),
                    3 => ("consecutive", "thin"),
                    _ => ("consecutive", "example"),
                };
                let min_temp = if r.gen_bool(0.5) { 1 } else { 16 };
                // "high" runs of the examples: the id counter starts a few ids (or a batch or two) below u32::MAX
                let base = if (imp == "example" || fl == "consecutive") && (run / 5) % 3 == 2 { u32::MAX - *pick(&mut r, &[15u32, 100, 5000, 40_000]) } else { 0 };
                LBASE.with(|c| c.set(if (run / 5) % 4 == 3 { *pick(&mut r, &[i32::MAX as u32 - 30, i32::MAX as u32 - 12, 3_000_000_000u32]) } else { 0 }));
                let mut sys = Sys::new(fl, imp, min_temp, base);
                t.reset(sys.reset_event());
                let mut xid: u32 = 1_000_000 + r.gen_range(0..1000);
                // long enumerations: one enumerable run in three starts with 40..90 tokens spread over two owners, so that
                // the swap-and-pop bookkeeping of the random calls that follow works on long lists
                if fl == "enumerable" && base == 0 && (run / 5) % 3 == 1 {
                    for k in 0..r.gen_range(40..90) {
                        let to = if k % 3 == 0 { "b" } else { "a" };
                        let op = json!({"op": "mint_seq", "sp": "none", "from": "none", "to": to, "id": 0, "n": 0, "until": 0, "auth": [], "dt": 0});
                        let ev = sys.step(&op);
                        t.step(ev);
                    }
                }
                let lapse_at = if r.gen_ratio(1, 3) { r.gen_range(2..12) } else { usize::MAX };
                let mut script: Vec<Value> = vec![];
                for k in 0..len {
                    if k == lapse_at {
                        script = lapse_script(&mut r, &sys);
                    }
                    let op = if script.is_empty() { gen_op(&mut r, &sys, &mut xid) } else { script.remove(0) };
                    let ev = sys.step(&op);
                    t.step(ev);
                }
            }
            t.finish();
        }
    }
}
