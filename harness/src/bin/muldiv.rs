//! Binding of spec/MulDiv.tla: the real mul_div_i128 / checked_mul_div_i128 / mul_div_i256 /
//! checked_mul_div_i256 and the Wad API, called through a thin contract (so that a panic is a
//! rolled-back failure), on the boundary lattice and on random values of every bit length.
//! Numbers are logged as sign + little-endian limbs (base 2^15) for BigInt.tla.
#![allow(dead_code)]
use soroban_sdk::{Bytes, Env, I256};
use verif_harness::*;

mod thin {
    use soroban_sdk::{contract, contractimpl, Env, I256};
    use stellar_contract_utils::math::{
        checked_mul_div_i128, checked_mul_div_i256, mul_div_i128, mul_div_i256, wad::Wad, Rounding,
    };

    fn mode(m: u32) -> Rounding {
        match m {
            0 => Rounding::Floor,
            1 => Rounding::Ceil,
            _ => Rounding::Truncate,
        }
    }

    #[contract]
    pub struct MathC;

    #[contractimpl]
    impl MathC {
        pub fn md(e: &Env, x: i128, y: i128, d: i128, m: u32) -> i128 {
            mul_div_i128(e, x, y, d, mode(m))
        }
        pub fn cmd(e: &Env, x: i128, y: i128, d: i128, m: u32) -> Option<i128> {
            checked_mul_div_i128(e, x, y, d, mode(m))
        }
        pub fn md256(e: &Env, x: I256, y: I256, d: I256, m: u32) -> I256 {
            mul_div_i256(e, x, y, d, mode(m))
        }
        pub fn cmd256(e: &Env, x: I256, y: I256, d: I256, m: u32) -> Option<I256> {
            checked_mul_div_i256(e, x, y, d, mode(m))
        }
        pub fn wmul(e: &Env, a: i128, b: i128) -> Option<i128> {
            Wad::from_raw(a).checked_mul(e, Wad::from_raw(b)).map(|w| w.raw())
        }
        pub fn wdiv(e: &Env, a: i128, b: i128) -> Option<i128> {
            Wad::from_raw(a).checked_div(e, Wad::from_raw(b)).map(|w| w.raw())
        }
        pub fn wratio(e: &Env, n: i128, d: i128) -> i128 {
            Wad::from_ratio(e, n, d).raw()
        }
        pub fn wpow(e: &Env, a: i128, n: u32) -> i128 {
            Wad::from_raw(a).pow(e, n).raw()
        }
        pub fn wcpow(e: &Env, a: i128, n: u32) -> Option<i128> {
            Wad::from_raw(a).checked_pow(e, n).map(|w| w.raw())
        }
    }
}

const WAD: i128 = 1_000_000_000_000_000_000;

/// sign + big-endian magnitude bytes
#[derive(Clone, Debug, PartialEq)]
struct Big {
    neg: bool,
    mag: Vec<u8>,
}

impl Big {
    fn from_i128(v: i128) -> Big {
        Big { neg: v < 0, mag: v.unsigned_abs().to_be_bytes().to_vec() }.norm()
    }
    fn norm(mut self) -> Big {
        while self.mag.first() == Some(&0) {
            self.mag.remove(0);
        }
        if self.mag.is_empty() {
            self.neg = false;
        }
        self
    }
    /// two's complement big-endian (32 bytes) → Big
    fn from_twos(b: &[u8]) -> Big {
        let neg = b[0] & 0x80 != 0;
        let mut m = b.to_vec();
        if neg {
            for x in m.iter_mut() {
                *x = !*x;
            }
            for i in (0..m.len()).rev() {
                let (v, c) = m[i].overflowing_add(1);
                m[i] = v;
                if !c {
                    break;
                }
            }
        }
        Big { neg, mag: m }.norm()
    }
    /// Big → two's complement of n bytes; None when it does not fit
    fn to_twos(&self, n: usize) -> Option<Vec<u8>> {
        if self.mag.len() > n {
            return None;
        }
        let mut m = vec![0u8; n - self.mag.len()];
        m.extend_from_slice(&self.mag);
        if self.neg {
            // magnitude must be <= 2^(8n-1)
            let top = m[0] & 0x80 != 0;
            if top && !(m[0] == 0x80 && m[1..].iter().all(|x| *x == 0)) {
                return None;
            }
            for x in m.iter_mut() {
                *x = !*x;
            }
            for i in (0..n).rev() {
                let (v, c) = m[i].overflowing_add(1);
                m[i] = v;
                if !c {
                    break;
                }
            }
        } else if m[0] & 0x80 != 0 {
            return None;
        }
        Some(m)
    }
    fn to_i128(&self) -> Option<i128> {
        self.to_twos(16).map(|b| i128::from_be_bytes(b.try_into().unwrap()))
    }
    fn hex(&self) -> String {
        let h: String = self.mag.iter().map(|b| format!("{b:02x}")).collect();
        format!("{}0x{}", if self.neg { "-" } else { "" }, if h.is_empty() { "0".into() } else { h })
    }
    fn parse(s: &str) -> Big {
        let (neg, r) = match s.strip_prefix('-') {
            Some(r) => (true, r),
            None => (false, s),
        };
        let r = r.strip_prefix("0x").unwrap_or(r);
        let r = if r.len() % 2 == 1 { format!("0{r}") } else { r.to_string() };
        let mag = (0..r.len()).step_by(2).map(|i| u8::from_str_radix(&r[i..i + 2], 16).unwrap()).collect();
        Big { neg, mag }.norm()
    }
    /// [n, m] record for BigInt.tla: little-endian limbs base 2^15
    fn log(&self) -> Value {
        let mut limbs = Vec::new();
        // bits little-endian
        let mut bits: Vec<u8> = Vec::new();
        for b in self.mag.iter().rev() {
            for i in 0..8 {
                bits.push((b >> i) & 1);
            }
        }
        for ch in bits.chunks(15) {
            let mut v = 0u32;
            for (i, b) in ch.iter().enumerate() {
                v |= (*b as u32) << i;
            }
            limbs.push(v);
        }
        while limbs.last() == Some(&0) {
            limbs.pop();
        }
        json!({"n": if self.neg && !limbs.is_empty() { 1 } else { 0 }, "m": limbs})
    }
    fn to_i256(&self, e: &Env) -> Option<I256> {
        self.to_twos(32).map(|b| I256::from_be_bytes(e, &Bytes::from_slice(e, &b)))
    }
    fn from_i256(v: &I256) -> Big {
        let b = v.to_be_bytes();
        let mut a = [0u8; 32];
        b.copy_into_slice(&mut a);
        Big::from_twos(&a)
    }
}

struct Sys {
    e: Env,
    c: soroban_sdk::Address,
}

fn okfail<T, E1: core::fmt::Debug, E2: core::fmt::Debug>(r: Result<Result<T, E1>, Result<soroban_sdk::Error, E2>>) -> Option<T> {
    match r {
        Ok(Ok(v)) => Some(v),
        _ => None,
    }
}

impl Sys {
    fn new() -> Sys {
        let e = new_env(&LedgerCfg::default());
        let c = e.register(thin::MathC, ());
        Sys { e, c }
    }

    /// Executes one case; `op` = {"op": fn, "mode": "floor"|"ceil"|"trunc", "x","y","d": hex strings}
    fn step(&self, op: &Value) -> Value {
        let e = &self.e;
        let cl = thin::MathCClient::new(e, &self.c);
        let f = s(op, "op");
        let mode = s(op, "mode");
        let m: u32 = match mode { "floor" => 0, "ceil" => 1, _ => 2 };
        let (x, y, d) = (Big::parse(s(op, "x")), Big::parse(s(op, "y")), Big::parse(s(op, "d")));
        let zero = Big::from_i128(0);
        // (plain result, has2, checked result); the equivalent mul-div operands are logged as X, Y, D
        let (mut lx, mut ly, mut ld) = (x.clone(), y.clone(), d.clone());
        let (r1, has2, r2): (Option<Big>, bool, Option<Big>) = match f {
            "i128" => {
                let (a, b, c) = (x.to_i128().unwrap(), y.to_i128().unwrap(), d.to_i128().unwrap());
                let p = okfail(cl.try_md(&a, &b, &c, &m)).map(Big::from_i128);
                let q = okfail(cl.try_cmd(&a, &b, &c, &m)).flatten().map(Big::from_i128);
                (p, true, q)
            }
            "i256" => {
                let (a, b, c) = (x.to_i256(e).unwrap(), y.to_i256(e).unwrap(), d.to_i256(e).unwrap());
                let p = okfail(cl.try_md256(&a, &b, &c, &m)).map(|v| Big::from_i256(&v));
                let q = okfail(cl.try_cmd256(&a, &b, &c, &m)).flatten().map(|v| Big::from_i256(&v));
                (p, true, q)
            }
            "wad_mul" => {
                let (a, b) = (x.to_i128().unwrap(), y.to_i128().unwrap());
                ld = Big::from_i128(WAD);
                (okfail(cl.try_wmul(&a, &b)).flatten().map(Big::from_i128), false, None)
            }
            "wad_div" => {
                // a / b  ==  a * 10^18 / b
                let (a, b) = (x.to_i128().unwrap(), y.to_i128().unwrap());
                ly = Big::from_i128(WAD);
                ld = y.clone();
                (okfail(cl.try_wdiv(&a, &b)).flatten().map(Big::from_i128), false, None)
            }
            "wad_ratio" => {
                let (a, b) = (x.to_i128().unwrap(), y.to_i128().unwrap());
                ly = Big::from_i128(WAD);
                ld = y.clone();
                (okfail(cl.try_wratio(&a, &b)).map(Big::from_i128), false, None)
            }
            "wad_pow" => {
                let a = x.to_i128().unwrap();
                let n = y.to_i128().unwrap() as u32;
                let p = okfail(cl.try_wpow(&a, &n)).map(Big::from_i128);
                let q = okfail(cl.try_wcpow(&a, &n)).flatten().map(Big::from_i128);
                (p, true, q)
            }
            k => panic!("fn {k}"),
        };
        if f == "wad_pow" {
            lx = x.clone();
            ly = y.clone();
            ld = Big::from_i128(1);
        }
        json!({"op": op, "fn": f, "mode": mode,
               "X": lx.log(), "Y": ly.log(), "D": ld.log(),
               "res": if r1.is_some() { "ok" } else { "fail" }, "Q": r1.clone().unwrap_or(zero.clone()).log(),
               "qs": r1.map(|b| b.hex()).unwrap_or("-".into()),
               "has2": has2, "cres": if r2.is_some() { "ok" } else { "fail" }, "CQ": r2.unwrap_or(zero).log()})
    }
}

fn lattice128() -> Vec<i128> {
    let mut v: Vec<i128> = vec![0, 1, 2, 3, 7, 10, 1 << 31, 1 << 32, 1 << 62, 1 << 63, 1 << 64, (1 << 64) + 1, 1 << 126,
                                WAD, WAD - 1, WAD + 1, 10i128.pow(36), 10i128.pow(38), i128::MAX, i128::MAX - 1,
                                i128::MAX / 2, i128::MAX / 3, 0x5555_5555_5555_5555_5555_5555_5555_5555,
                                // floor(sqrt(i128::MAX)) and its neighbours: where a product of two like factors starts to overflow
                                13_043_817_825_332_782_211, 13_043_817_825_332_782_212, 13_043_817_825_332_782_213,
                                13_043_817_825_332_782_214, 1 << 127 - 64, (1 << 63) - 1, (1 << 64) - 1, (1 << 126) - 1];
    let mut n: Vec<i128> = v.iter().map(|x| -*x).collect();
    v.append(&mut n);
    v.push(i128::MIN);
    v.push(i128::MIN + 1);
    v.sort();
    v.dedup();
    v
}

fn rand128(r: &mut StdRng) -> i128 {
    let bits = r.gen_range(0..=127u32);
    let mag: u128 = if bits == 0 { 0 } else { (r.gen::<u128>() >> (128 - bits)) | (1u128 << (bits - 1)) };
    let v = mag as i128;
    match r.gen_range(0..20) {
        0 => i128::MIN,
        1 => i128::MAX,
        _ => if r.gen_bool(0.5) { v } else { v.wrapping_neg() },
    }
}

/// 2^k (k <= 255), optionally +-1, with a sign: the boundary lattice of the 256-bit operations
fn pow2_256(k: usize, delta: i8, neg: bool) -> Big {
    let mut m = vec![0u8; 33];
    m[32 - k / 8] |= 1 << (k % 8);
    // add / subtract one on the magnitude
    if delta > 0 {
        for i in (0..33).rev() {
            let (v, c) = m[i].overflowing_add(1);
            m[i] = v;
            if !c { break; }
        }
    } else if delta < 0 {
        for i in (0..33).rev() {
            let (v, b) = m[i].overflowing_sub(1);
            m[i] = v;
            if !b { break; }
        }
    }
    Big { neg, mag: m }.norm()
}

fn lattice256(r: &mut StdRng) -> Big {
    let k = *pick(r, &[0usize, 1, 63, 64, 126, 127, 128, 129, 191, 192, 253, 254, 255]);
    let delta = *pick(r, &[0i8, 0, 0, 1, -1]);
    let neg = r.gen_bool(0.5);
    // magnitudes beyond the 256-bit range do not exist: 2^255 is I256::MIN only, 2^255 - 1 is I256::MAX
    if k == 255 {
        return if delta < 0 { pow2_256(255, -1, neg) } else { pow2_256(255, 0, true) };
    }
    pow2_256(k, delta, neg)
}

fn rand256(r: &mut StdRng) -> Big {
    if r.gen_ratio(2, 5) {
        return lattice256(r);
    }
    let bits = r.gen_range(0..=255usize);
    let mut m = vec![0u8; 32];
    for i in 0..bits {
        if r.gen_bool(0.5) || i == bits - 1 {
            m[31 - i / 8] |= 1 << (i % 8);
        }
    }
    let neg = r.gen_bool(0.5);
    let b = Big { neg, mag: m }.norm();
    match r.gen_range(0..25) {
        0 => Big { neg: true, mag: { let mut z = vec![0u8; 32]; z[0] = 0x80; z } }.norm(), // I256::MIN
        1 => Big { neg: false, mag: { let mut z = vec![0xffu8; 32]; z[0] = 0x7f; z } },     // I256::MAX
        _ => b,
    }
}

/// Quotient-targeted I256 case: x = q * d + k with k of the product's sign and 0 < |k| < |d|, so that the truncated quotient of
/// x * 1 / d is exactly `q` and the division is inexact - `q` taken from the boundaries of the narrower widths (the rounding
/// step then has to step across i128::MIN / i128::MAX / 2^64 ... although everything fits easily in 256 bits).
/// (Host I256 arithmetic builds the operands; None when x does not fit.)
fn quotient_case(e: &Env, q: &Big, d: i128, k: i128) -> Option<(Big, Big)> {
    let (qi, di) = (q.to_i256(e)?, I256::from_i128(e, d));
    if d == 0 || k <= 0 || k >= d.unsigned_abs().min(i128::MAX as u128) as i128 {
        return None;
    }
    // |q| * |d| must stay well inside 255 bits
    let qbits = 8 * q.mag.iter().skip_while(|b| **b == 0).count() as u32;
    let dbits = 128 - d.unsigned_abs().leading_zeros();
    if qbits + dbits >= 250 {
        return None;
    }
    let prod = qi.mul(&di);
    let zero = I256::from_i128(e, 0);
    let neg = if prod == zero { (q.neg) != (d < 0) } else { prod < zero };
    let x = if neg { prod.sub(&I256::from_i128(e, k)) } else { prod.add(&I256::from_i128(e, k)) };
    Some((Big::from_i256(&x), Big::from_i128(d)))
}

/// The same for the i128 functions: factors x, y (both i128) and a denominator d with x * y = q * d + k, 0 < |k| < |d|, the
/// truncated quotient exactly `q` at the edge of i128 - so that floor / ceil step onto or over i128::MIN / i128::MAX.
fn quotient_case_128(e: &Env, q: i128, d: i128, y: i128) -> Option<i128> {
    let (qi, di, yi, zero) = (I256::from_i128(e, q), I256::from_i128(e, d), I256::from_i128(e, y), I256::from_i128(e, 0));
    let prod = qi.mul(&di);
    let neg = if q == 0 { d < 0 } else { prod < zero };
    for k in 1..d.unsigned_abs().min(64) as i128 {
        let n = if neg { prod.sub(&I256::from_i128(e, k)) } else { prod.add(&I256::from_i128(e, k)) };
        if n.rem_euclid(&yi) == zero {
            if let Some(x) = Big::from_i256(&n.div(&yi)).to_i128() {
                return Some(x);
            }
        }
    }
    None
}

fn quotient_targets() -> Vec<Big> {
    let mut v = vec![];
    for (k, delta) in [(127usize, 0i8), (127, 1), (127, -1), (64, 0), (64, 1), (64, -1), (63, 0), (128, 0), (128, -1), (200, 1)] {
        v.push(pow2_256(k, delta, true));
        v.push(pow2_256(k, delta, false));
    }
    v.push(Big::from_i128(0));
    v.push(Big::from_i128(1));
    v.push(Big::from_i128(-1));
    v
}

fn main() {
    match cli() {
        Mode::Exec { input, output } => {
            let mut t = Trace::create(&output);
            let sys = Sys::new();
            for b in read_behaviours(&input) {
                t.reset(json!({"op": {"op": "reset"}}));
                for op in &b.ops {
                    t.step(sys.step(op));
                }
            }
            t.finish();
        }
        Mode::Drive { seed, runs, len, output } => {
            let mut t = Trace::create(&output);
            let mut r = StdRng::seed_from_u64(seed);
            let lat = lattice128();
            let modes = ["floor", "ceil", "trunc"];
            let sys = Sys::new();
            // directed cases: the rare branch classes (MIN / -1, zero denominators, wide products whose
            // quotient just fits or just does not) are covered in every trace file
            t.reset(json!({"op": {"op": "reset"}}));
            let h = |v: i128| Big::from_i128(v).hex();
            // (only the first of the parallel workers replays them: seeds are seed*1000 + worker)
            for mode in modes.iter().copied().filter(|_| seed % 1000 == 0) {
                let big = 1i128 << 100;
                for (x, y, d) in [(i128::MIN, 1, -1), (-(1i128 << 64), 1i128 << 63, -1), (1i128 << 63, -(1i128 << 64), -1),
                                  (i128::MIN, 1, 1), (i128::MIN, -1, -1), (i128::MAX, 1, -1), (5, 7, 0), (i128::MAX, i128::MAX, 0), (0, 0, 0),
                                  (big, big, 1 << 73), (big, big, 1 << 72), (-big, big, 1 << 73), (-big, big, 1 << 72),
                                  (big, -big, -(1 << 73)), (big, big, -(1 << 73)), (big, big, -(1 << 72)), (-big, -big, -(1 << 72)),
                                  (-big, big, -(1 << 73)), (-big, big, -(1 << 72)), (big, big, (1 << 73) - 1), (-big, big, (1 << 73) - 1),
                                  (i128::MAX, i128::MAX, i128::MAX), (i128::MIN, i128::MIN, i128::MIN), (i128::MIN, i128::MAX, i128::MIN),
                                  (i128::MAX, 2, 2), (i128::MIN, 2, 2), (i128::MIN, 3, -3), (i128::MAX, 3, 2), (i128::MIN, 3, 2), (i128::MIN, 3, -2),
                                  (0, 5, 3), (0, 5, -3), (7, 1, 2), (-7, 1, 2), (7, 1, -2), (-7, 1, -2),
                                  // around floor(sqrt(i128::MAX)) = ...212: the smallest like factors whose product overflows
                                  (13_043_817_825_332_782_213, 13_043_817_825_332_782_213, 2), (13_043_817_825_332_782_213, 13_043_817_825_332_782_212, 2),
                                  (13_043_817_825_332_782_212, 13_043_817_825_332_782_212, 1), (-13_043_817_825_332_782_213, 13_043_817_825_332_782_213, 3),
                                  (13_043_817_825_332_782_213, -13_043_817_825_332_782_213, -7), (13_043_817_825_332_782_213, 13_043_817_825_332_782_213, 1)] {
                    t.step(sys.step(&json!({"op": "i128", "mode": mode, "x": h(x), "y": h(y), "d": h(d)})));
                }
            }
            // directed I256 cases: products exactly at and next to -2^255 / 2^255 - 1, every rounding mode
            for mode in modes.iter().copied().filter(|_| seed % 1000 == 0) {
                let p = |k: usize, d: i8, n: bool| pow2_256(k, d, n).hex();
                let one = || Big::from_i128(1).hex();
                for (x, y) in [(p(255, 0, true), one()), (p(128, 0, true), p(127, 0, false)), (p(127, 0, false), p(128, 0, true)),
                               (p(255, -1, false), one()), (p(255, -1, true), one()), (p(128, 0, false), p(127, 0, false)),
                               (p(128, 0, true), p(127, 0, true)), (p(255, 0, true), Big::from_i128(-1).hex()),
                               (p(254, 0, true), Big::from_i128(2).hex()), (p(254, 0, false), Big::from_i128(2).hex())] {
                    for d in [1i128, -1, 2, -2, 3, -3, 7, i128::MAX, i128::MIN] {
                        t.step(sys.step(&json!({"op": "i256", "mode": mode, "x": x, "y": y, "d": Big::from_i128(d).hex()})));
                    }
                    for d in [p(255, 0, true), p(255, -1, false), p(200, 1, true)] {
                        t.step(sys.step(&json!({"op": "i256", "mode": mode, "x": x, "y": y, "d": d})));
                    }
                }
            }
            // quotient-targeted i128 cases: truncated quotient exactly i128::MAX, MAX - 1, MIN, MIN + 1, inexact
            for mode in modes.iter().copied().filter(|_| seed % 1000 == 0) {
                for q in [i128::MAX, i128::MAX - 1, i128::MIN, i128::MIN + 1] {
                    for (d, y) in [(5i128, 7i128), (-5, 7), (5, -7), (3, 11), (-3, -11), (1_000_003, 2_000_003), (-1_000_003, 2_000_003)] {
                        if let Some(x) = quotient_case_128(&sys.e, q, d, y) {
                            t.step(sys.step(&json!({"op": "i128", "mode": mode, "x": h(x), "y": h(y), "d": h(d)})));
                        }
                    }
                }
            }
            // quotient-targeted I256 cases (truncated quotient exactly +-2^127, +-2^127 +- 1, +-2^64 ..., inexact)
            let qt = quotient_targets();
            for mode in modes.iter().copied().filter(|_| seed % 1000 == 0) {
                for q in qt.iter().take(12) {
                    for d in [3i128, -3, 7, (1i128 << 64) + 1, i128::MIN] {
                        for k in [1i128, (d.unsigned_abs() - 1).min(i128::MAX as u128) as i128] {
                            if let Some((x, dd)) = quotient_case(&sys.e, q, d, k) {
                                t.step(sys.step(&json!({"op": "i256", "mode": mode, "x": x.hex(), "y": Big::from_i128(1).hex(), "d": dd.hex()})));
                            }
                        }
                    }
                }
            }
            for _ in 0..runs {
                t.reset(json!({"op": {"op": "reset"}}));
                for _ in 0..len {
                    let mode = *pick(&mut r, &modes);
                    let pick128 = |r: &mut StdRng| -> i128 {
                        match r.gen_range(0..10) {
                            0..=4 => *pick(r, &lat),
                            5 => { let b = *pick(r, &lat); b.wrapping_add(r.gen_range(-2..=2)) }
                            6 => r.gen_range(-20..=20),
                            _ => rand128(r),
                        }
                    };
                    let op = match r.gen_range(0..20) {
                        0..=9 => {
                            let (x, mut y, d) = (pick128(&mut r), pick128(&mut r), pick128(&mut r));
                            // one case in five: the product sits right at the edge of i128 (whatever the size of x)
                            if x != 0 && x != -1 && r.gen_ratio(1, 5) {
                                let edge = if r.gen_bool(0.5) { i128::MAX } else { i128::MIN };
                                y = (edge / x).wrapping_add(r.gen_range(-1..=1));
                            }
                            json!({"op": "i128", "mode": mode, "x": Big::from_i128(x).hex(), "y": Big::from_i128(y).hex(), "d": Big::from_i128(d).hex()})
                        }
                        10 if r.gen_bool(0.6) => {
                            // I256, quotient-targeted (see quotient_case), also through y = -1 and a negated x
                            let q = pick(&mut r, &qt).clone();
                            let d = match r.gen_range(0..4) { 0 => *pick(&mut r, &[2i128, -2, 3, -3, 7, -7, 10, 1_000_000_007]), 1 => *pick(&mut r, &lat), _ => pick128(&mut r) };
                            let k = match r.gen_range(0..3) { 0 => 1, 1 => (d.unsigned_abs().max(2) - 1).min(i128::MAX as u128) as i128, _ => r.gen_range(1..=(d.unsigned_abs().max(2) - 1).min(1 << 100) as i128) };
                            match quotient_case(&sys.e, &q, d, k) {
                                Some((x, dd)) if r.gen_bool(0.7) => json!({"op": "i256", "mode": mode, "x": x.hex(), "y": Big::from_i128(1).hex(), "d": dd.hex()}),
                                Some((x, dd)) => json!({"op": "i256", "mode": mode, "x": Big::from_i128(-1).hex(), "y": x.hex(), "d": Big { neg: !dd.neg, mag: dd.mag.clone() }.norm().hex()}),
                                None => json!({"op": "i256", "mode": mode, "x": q.hex(), "y": Big::from_i128(1).hex(), "d": Big::from_i128(if d == 0 { 1 } else { d }).hex()}),
                            }
                        }
                        10..=12 => {
                            // I256: products that fit (small x small) and that do not, boundary quotients
                            let x = if r.gen_bool(0.5) { Big::from_i128(pick128(&mut r)) } else { rand256(&mut r) };
                            let y = if r.gen_bool(0.6) { Big::from_i128(pick128(&mut r)) } else { rand256(&mut r) };
                            let d = if r.gen_bool(0.5) { Big::from_i128(pick128(&mut r)) } else { rand256(&mut r) };
                            json!({"op": "i256", "mode": mode, "x": x.hex(), "y": y.hex(), "d": d.hex()})
                        }
                        13..=14 => json!({"op": "wad_mul", "mode": "trunc", "x": Big::from_i128(pick128(&mut r)).hex(), "y": Big::from_i128(pick128(&mut r)).hex(), "d": "0x1"}),
                        15..=16 => json!({"op": "wad_div", "mode": "trunc", "x": Big::from_i128(pick128(&mut r)).hex(), "y": Big::from_i128(pick128(&mut r)).hex(), "d": "0x1"}),
                        17 => json!({"op": "wad_ratio", "mode": "trunc", "x": Big::from_i128(pick128(&mut r)).hex(), "y": Big::from_i128(pick128(&mut r)).hex(), "d": "0x1"}),
                        _ => {
                            let base = match r.gen_range(0..6) {
                                0 => WAD, 1 => 0, 2 => 2 * WAD, 3 => -3 * WAD / 2, 4 => r.gen_range(-5 * WAD..5 * WAD), _ => pick128(&mut r),
                            };
                            let mut n: i128 = *pick(&mut r, &[0i128, 1, 2, 3, 5, 10, 64, 127, 128, 200, 1000, u32::MAX as i128]);
                            // result-targeted: a small base with the last exponent whose power still fits, and its neighbours
                            let mut base = base;
                            if r.gen_ratio(1, 3) {
                                let (num, den) = *pick(&mut r, &[(2i128, 1i128), (-2, 1), (3, 1), (10, 1), (-10, 1), (7, 1), (3, 2), (-3, 2), (11, 10), (2003, 1000), (5, 4)]);
                                base = WAD / den * num;
                                let room = ((i128::MAX / WAD) as f64).log2();
                                let last = (room / ((num.abs() as f64) / (den as f64)).log2()).floor() as i128;
                                n = (last + *pick(&mut r, &[-1i128, 0, 0, 0, 1, 1])).max(0);
                            }
                            json!({"op": "wad_pow", "mode": "trunc", "x": Big::from_i128(base).hex(), "y": Big::from_i128(n).hex(), "d": "0x1"})
                        }
                    };
                    t.step(sys.step(&op));
                }
            }
            t.finish();
        }
    }
}
