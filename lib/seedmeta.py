#!/usr/bin/env python3
"""Merges what was run against each seeded change into seeded/<name>/meta.json and prints the
detection table (markdown) used in DESIGN.md section 11.3."""
import json, os, re, glob
ROOT = os.path.dirname(os.path.dirname(os.path.abspath(__file__)))
rows = []
for d in sorted(glob.glob(os.path.join(ROOT, "seeded", "*"))):
    mp = os.path.join(d, "meta.json")
    if not os.path.exists(mp):
        continue
    m = json.load(open(mp))
    conf = open(os.path.join(d, "confirm.log")).read() if os.path.exists(os.path.join(d, "confirm.log")) else ""
    res = re.findall(r"test result: (\w+)\. (\d+) passed; (\d+) failed", conf)
    m["confirmed_by_coordinator"] = dict(
        with_patch_and_demo="%s passed, %s failed (the failures are the demonstration)" % (res[0][1], res[0][2]) if res else "?",
        patch_reverted_demo="%s passed, %s failed" % (res[1][1], res[1][2]) if len(res) > 1 else "?",
        how="lib/seedconfirm.sh in the sub-agent's own worktree and private target directory (cargo test -p <package>); "
            "the sub-agent additionally ran the whole workspace suite (see tests_run)")
    checks = {}
    for lp in sorted(glob.glob(os.path.join(d, "check_*.log"))):
        pid = os.path.basename(lp)[6:-4]
        log = open(lp).read()
        mons = sorted(set(re.findall(r"monitor (\S+) \(", log)))
        checks[pid] = dict(violation_reported=("VIOLATION property=%s" % pid) in log, monitors=mons,
                           how="lib/seedrun.sh: patch applied to an isolated copy of /repo, ./check %s --tier quick in a copy of /verif "
                               "pointed at it, copy restored afterwards" % pid)
    m["verif_checks_run"] = checks
    json.dump(m, open(mp, "w"), indent=1)
    prop = m.get("property") or os.path.basename(d)[:3]
    det = "; ".join("%s: %s" % (p, ", ".join(c["monitors"]) if c["violation_reported"] else "NOT DETECTED") for p, c in checks.items())
    rows.append("| `%s` | %s | %s | %s |" % (os.path.basename(d), prop, (m.get("needs") or m.get("summary", ""))[:160].replace("|", "/").replace("\n", " "), det))
print("| seeded change | property | needs | detected by |\n|---|---|---|---|")
print("\n".join(rows))
