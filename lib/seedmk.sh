#!/bin/sh
# Creates a scratch worktree for a seeding sub-agent and prints the prompt to give it (property text only).
# usage: lib/seedmk.sh <property id> <suffix>     -> worktree /tmp/seed_<id><suffix>, prompt on stdout
ID=$1; SUF=$2; WT=/tmp/seed_$ID$SUF
git -C /repo worktree add --detach -f $WT HEAD >/dev/null 2>&1 || { echo "worktree failed" >&2; exit 2; }
python3 - "$ID" "$WT" <<'P'
import json, sys
pid, wt = sys.argv[1], sys.argv[2]
p = [json.loads(l) for l in open('/verif/properties.jsonl') if json.loads(l)['id'] == pid][0]
text = "%s: %s\n%s\nQuantified over: %s" % (p['id'], p['title'], p['statement'], p['quantifier']['text'])
t = open('/verif/lib/seed_prompt.txt').read().replace('__WT__', wt).replace('__PROP__', text)
t += ("\n\nHARD MODE: earlier, simpler seeded changes for this property were all detected by the tool. Aim for a change whose violation "
      "needs a rare combination: a boundary value (i128/u32 extremes, exactly-at-limit), an interplay of two features or two contracts, a "
      "state reached only after several steps, or a path that ordinary use never takes. Still realistic, still small.\n"
      "Keep each of your messages and tool inputs small (write files in pieces if long) so that you do not hit output limits.")
print(t)
P
