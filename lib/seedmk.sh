#!/bin/sh
# Creates a scratch worktree for a seeding sub-agent and prints the prompt to give it (property text only).
# usage: lib/seedmk.sh <property id> <suffix> [anchor file]    -> worktree /tmp/seed_<id><suffix>, prompt on stdout
# (with an anchor file of the property: the change has to be made there)
ID=$1; SUF=$2; FILE=$3; WT=/tmp/seed_$ID$SUF
git -C /repo worktree add --detach -f $WT HEAD >/dev/null 2>&1 || { echo "worktree failed" >&2; exit 2; }
python3 - "$ID" "$WT" "$FILE" <<'P'
import json, sys
pid, wt, hint = sys.argv[1], sys.argv[2], sys.argv[3]
p = [json.loads(l) for l in open('/verif/properties.jsonl') if json.loads(l)['id'] == pid][0]
text = "%s: %s\n%s\nQuantified over: %s" % (p['id'], p['title'], p['statement'], p['quantifier']['text'])
t = open('/verif/lib/seed_prompt.txt').read().replace('__WT__', wt).replace('__PROP__', text)
t += ("\n\nHARD MODE: earlier, simpler seeded changes for this property were all detected by the tool. Aim for a change whose violation "
      "needs a rare combination: a boundary value (i128/u32 extremes, exactly-at-limit), an interplay of two features or two contracts, a "
      "state reached only after several steps, or a path that ordinary use never takes. Still realistic, still small.\n"
      "Keep each of your messages and tool inputs small (write files in pieces if long) so that you do not hit output limits.")
if hint and "::" in hint or (hint and " fn " in hint):
    t += ("\n\nWHERE: the property's authors name this function among the mechanisms the property rests on: " + hint + " . Make your "
          "change IN THAT FUNCTION (or in a helper only it uses). If you are convinced that no change there can violate the property while "
          "keeping all existing tests green, say so in meta.json (\"impossible\": \"<why>\") and stop.")
elif hint:
    t += ("\n\nWHERE: the property's authors name this file among the code the property is anchored in: " + hint + " . Make your change "
          "THERE (a second cooperating site elsewhere is allowed if needed). If, after reading it, you are convinced that no change to that "
          "file can violate the property while keeping all existing tests green, say so in meta.json (\"property\": ..., \"impossible\": "
          "\"<why>\") and stop - do not fall back to another file.")
print(t)
P
