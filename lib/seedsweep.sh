#!/bin/sh
# Re-runs the checks against every stored seeded change with other VERIF_SEED values (detection stability).
# usage: lib/seedsweep.sh <scratchdir> <seed>...      output: one line per (change, property, seed)
D=$1; shift
[ -d $D/repo ] || /verif/lib/scratch.sh $D >/dev/null
rsync -a --exclude work --exclude replays --exclude .git --exclude evidence --exclude target /verif/ $D/verif/
find $D/verif/harness \( -name '*.rs' -o -name Cargo.toml \) -not -path '*/target/*' | xargs sed -i "s#\"/repo/#\"$D/repo/#g"
for d in /verif/seeded/C*; do
  name=$(basename $d)
  props=$(ls $d/check_C*.log 2>/dev/null | sed 's/.*check_\(C[0-9]*\).log/\1/' | tr '\n' ' ')
  cd $D/repo && git checkout -q -- . && git apply $d/patch.diff || { echo "$name patch does not apply"; continue; }
  cd $D/verif
  for s in "$@"; do for p in $props; do
    grep -q "VIOLATION property=$p" $d/check_$p.log || continue     # only properties that flagged it originally
    VERIF_SEED=$s VERIF_NCPU=${VERIF_NCPU:-6} ./check $p > /tmp/seedsweep_$$.log 2>&1; rc=$?
    echo "$name $p seed=$s exit $rc $(grep -c '^VIOLATION' /tmp/seedsweep_$$.log)"
  done; done
done
cd $D/repo && git checkout -q -- .
