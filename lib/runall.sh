#!/bin/sh
# Runs every claimed quick check (as `vp check` does) and prints one line per property.
cd "$(dirname "$0")/.." && mkdir -p work
for p in $(python3 -c "import json;print(' '.join(c['property_id'] for c in json.load(open('MANIFEST.json'))['checks']))"); do
  [ -n "$1" ] && case " $* " in *" $p "*) ;; *) continue;; esac
  s=$(date +%s); VERIF_SEED=${VERIF_SEED:-1} ./check $p --tier ${VERIF_TIER:-quick} > work/runall_$p.log 2>&1; rc=$?
  echo "$p exit $rc $(( $(date +%s) - s ))s $(grep -c '^VIOLATION' work/runall_$p.log) violations $(grep -c '^KNOWN-FINDING' work/runall_$p.log) known $(grep '^TOOL-ERROR' work/runall_$p.log | cut -c1-200)"
done
