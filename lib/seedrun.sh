#!/bin/sh
# Runs checks against a stored seeded change in an isolated scratch pair (never touches /repo).
# usage: lib/seedrun.sh <scratchdir> <seedname> <prop>...
D=$1; NAME=$2; shift; shift
[ -d $D/repo ] || /verif/lib/scratch.sh $D >/dev/null
# refresh the scratch copy of /verif (keeping its harness pointed at the scratch repo)
rsync -a --exclude work --exclude replays --exclude .git --exclude evidence --exclude target /verif/ $D/verif/
find $D/verif/harness \( -name '*.rs' -o -name Cargo.toml \) -not -path '*/target/*' | xargs sed -i "s#\"/repo/#\"$D/repo/#g"
mkdir -p $D/verif/work; rsync -a /verif/work/cache/ $D/verif/work/cache/ --include 'e1_*' --exclude '*' 2>/dev/null
cd $D/repo && git checkout -q -- . && git apply /verif/seeded/$NAME/patch.diff || { echo "patch does not apply"; exit 2; }
cd $D/verif
for p in "$@"; do
  VERIF_NCPU=${VERIF_NCPU:-6} ./check $p > /verif/seeded/$NAME/check_$p.log 2>&1; rc=$?
  echo "$NAME $p exit $rc: $(grep -A1 '^VIOLATION' /verif/seeded/$NAME/check_$p.log | grep monitor | sed 's/ failed at.*//' | sort | uniq -c | tr '\n' ';')"
done
cd $D/repo && git checkout -q -- .
