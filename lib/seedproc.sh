#!/bin/sh
# Confirms a sub-agent's seeded change, runs checks against it in a scratch pair, removes the worktree.
# usage: lib/seedproc.sh <scratch> <worktree> <name> <package> <demo filter> <prop>...
SC=$1; WT=$2; NAME=$3; PKG=$4; FILT=$5; shift 5
if [ -f $WT/_seed/patch.diff ] && [ -s $WT/_seed/patch.diff ]; then
  /verif/lib/seedconfirm.sh $WT $NAME $PKG $FILT 2>&1 | grep -E "test result" | tail -2
  /verif/lib/seedrun.sh $SC $NAME "$@"
else
  echo "$NAME: no patch ($(head -c 300 $WT/_seed/meta.json 2>/dev/null))"
fi
git -C /repo worktree remove --force $WT 2>/dev/null; rm -rf $WT
