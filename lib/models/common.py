"""Helpers shared by the model descriptions."""
ABC = {"a", "b", "c"}


def set_field(ev, path, val):
    """Returns ev with ev[path] := val, or None when that would not change anything."""
    cur = ev
    for k in path[:-1]:
        cur = cur[k]
    if cur[path[-1]] == val:
        return None
    cur[path[-1]] = val
    return ev
