"""SacAdmin (beyond the listed properties, X02): SAC admin helpers through the sac-admin-generic and
sac-admin-wrapper examples in front of a real Stellar Asset Contract."""
from common import set_field

NAME = "SacAdmin"
EXTRA = True


def _mc(flavour, mgmt="code", bug="", depth=5, every=40, tdepth=None, tevery=None, name=None):
    nm = name or (flavour + ("_" + bug if bug else ""))
    d = dict(name=nm, module="MC_SacAdmin",
             constants=dict(Depth=depth, EmitEvery=0 if bug else every, Flavour=flavour, Max=3, Curr=0, MGMT=mgmt, BUG=bug),
             invariants=["NoViolation", "Refines"], cfg=dict(flavour=flavour, max=3, curr=0),
             thorough=dict(Depth=tdepth or depth + 1, EmitEvery=tevery or every * 4))
    if bug:
        d.update(expect="violation", invariants=["NoViolation"], thorough={})
    return d


def _known(d):
    d["invariants"] = ["KnownOnly", "Refines"]
    return d


def _flip_admin(ev):
    return set_field(ev, ["obs", "admin"], "n" if ev["obs"]["admin"] == "self" else "self")


def _ok_signed(ev, kind):
    """a successful call of the given kind that the generic admin contract's __check_auth let through"""
    o = ev["op"]
    return o["op"] == kind and o["via"] == "sac" and ev["res"] == "ok" and o["key"] != "none" and o["auth"] == []


MODEL = dict(
    bin="sacadmin",
    trace="Trace_SacAdmin",
    mc=[
        # the tree as it is: the chief's management calls and the operators' mint / clawback are refused (the two
        # recorded known findings); nothing else fails
        _known(_mc("generic", "code", name="generic_code", depth=7, every=8, tdepth=9, tevery=40)),
        # the example as its comments and the library's README describe it (the chief manages operators and limits,
        # operators mint within their limit and claw back): no monitor fails
        _mc("generic", "intended", every=40, tdepth=7, tevery=400),
        _mc("wrapper", depth=6, every=25, tdepth=8, tevery=60),
        # vacuity guards: seeded model bugs that the monitors must see
        _mc("generic", "intended", "limit_single", depth=4), _mc("generic", "intended", "remove_keeps", depth=4),
        _mc("generic", "intended", "badsig_ok", depth=4), _mc("generic", "intended", "role_any_key", depth=4),
        _mc("wrapper", "code", "wrap_no_role", depth=4), _mc("wrapper", "code", "wrap_no_auth", depth=4),
    ],
    quick=dict(sample=3000, drive_runs=240, drive_len=40),
    thorough=dict(sample=40000, drive_runs=4800, drive_len=60),
    need=[(o, r) for o in ("mint", "clawback", "set_authorized", "set_admin", "xfer", "grant", "revoke") for r in ("ok", "fail")]
    + [("assign", "fail"), ("remove", "fail"), ("set_limit", "fail"), ("update_limit", "fail")],
    selftest=[
        lambda ev: set_field(ev, ["obs", "bal", "u"], ev["obs"]["bal"]["u"] + 1),
        _flip_admin,
        lambda ev: set_field(ev, ["res"], "ok") if ev["op"]["op"] == "mint" and ev["res"] == "fail" and ev["op"]["sig"] in ("bad", "forged") else None,
        lambda ev: set_field(ev, ["op", "sig"], "bad") if _ok_signed(ev, "set_authorized") else None,
        lambda ev: set_field(ev, ["op", "key"], "ko") if _ok_signed(ev, "set_admin") else None,
        lambda ev: set_field(ev, ["op", "auth"], []) if ev["op"]["via"] == "wrap" and ev["res"] == "ok" else None,
        lambda ev: set_field(ev, ["op", "key"], "ko") if ev["op"]["op"] == "xfer" and ev["res"] == "ok" else None,
    ],
)
SERVES = {"X02": dict(assumptions=[
    "SAC registered by the SDK test host (issuer flags AUTH_REVOCABLE and AUTH_CLAWBACK_ENABLED set before any balance exists); holders are contract addresses",
    "every authorization is a genuine SorobanAuthorizationEntry whose root is exactly the judged call (no sub-invocation trees)"])}
