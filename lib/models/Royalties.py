"""Royalties (beyond the listed properties, X01): NFT royalties through the nft-royalties example."""
from common import set_field

NAME = "Royalties"
EXTRA = True


def _mc(bug="", depth=4, price=12345):
    d = dict(name="code" + ("_" + bug if bug else ""), module="MC_Royalties",
             constants=dict(Depth=depth, Emit=not bug, BUG=bug, Price=price),
             invariants=["NoViolation", "Refines"], cfg=dict(price=price), thorough=dict(Depth=depth + 1))
    if bug:
        d.update(expect="violation", invariants=["NoViolation"], thorough={})
    return d


MODEL = dict(
    bin="royalties",
    trace="Trace_Royalties",
    mc=[_mc(depth=3), _mc("default_wins"), _mc("bps_10001"), _mc("remove_keeps")],
    quick=dict(sample=3000, drive_runs=160, drive_len=30),
    thorough=dict(sample=40000, drive_runs=3200, drive_len=50),
    need=[(o, r) for o in ("mint", "mint_royalty", "set_default", "set_token", "remove_token") for r in ("ok", "fail")],
    selftest=[
        lambda ev: set_field(ev, ["obs", "info", "0", "amt"], ev["obs"]["info"]["0"]["amt"] + 1) if ev["obs"]["info"]["0"]["ok"] else None,
        lambda ev: set_field(ev, ["res"], "ok") if ev["op"]["op"] == "set_default" and ev["res"] == "fail" and ev["op"]["bps"] > 10000 else None,
    ],
)
SERVES = {"X01": dict()}
