"""Registries (C20, RWA part): thin contracts forwarding 1:1 to the library functions of
claim_issuer (signing keys), claim_topics_and_issuers, token_binder, doc_manager,
identity_registry_storage, the compliance module lists and identity_claims (claims by id, ids by topic;
the claim issuers asked by add_claim are scripted contracts).  One model, seven flavours."""
import copy

NAME = "Registries"
FLS = {"keys", "cti", "binder", "docs", "irs", "modules", "claims"}

# universes of the exhaustive runs (the harness' regime "mc" probes exactly these)
_u = dict(
    KS={"k1", "k2", "k3"}, TS={"t1", "t2"}, RS={"r1", "r2"},
    CTS={"t1", "t2", "t3"}, CIS={"i1", "i2", "i3"}, CXn=2,
    BUS={"x1", "x2", "x3", "x4", "x5"}, BBn=2,
    DNS={"n1", "n2", "n3", "n4", "n5"}, DU={"u1", "u2"}, DH={"h1"}, DTS={1},
    IAS={"a1", "a2", "a3"}, IID={"d1", "d2"}, ITY={"ind"}, IC={"c1", "c2"}, ICn=2,
    MHS={"Created", "CanTransfer"}, MMS={"m1", "m2", "m3"},
    CTP={"t1", "t2"}, CIP={"i1", "i2", "i3"}, CDP={"d1", "d2"}, CSch={101},
    BS=2,
)
# limits out of reach: the behaviours replayed on the real code (real limits) carry exact expectations
_far = dict(LimKpt=99, LimRpk=99, LimTopics=99, LimIssuers=99, LimTokens=99, LimBatch=99, LimDocs=99,
            LimCountries=99, LimModules=99)
# scaled limits: at and one past every capacity limit within a handful of calls
_near = dict(LimKpt=2, LimRpk=3, LimTopics=2, LimIssuers=2, LimTokens=4, LimBatch=2, LimDocs=3,
             LimCountries=2, LimModules=2)
_dp = dict(DpKeys=4, DpCti=4, DpBinder=5, DpDocs=4, DpIrs=3, DpModules=5, DpClaims=5)
_dp_thorough = dict(DpKeys=5, DpCti=5, DpBinder=6, DpDocs=6, DpIrs=4, DpModules=7, DpClaims=6)


def _bug(name, fl, bug, **kw):
    """vacuity guard: the defect `bug` re-introduced into flavour `fl` must make a monitor fail"""
    return dict(name=name, module="MC_Registries",
                constants=dict(_u, **dict(_far, **kw), **_dp, Fls={fl}, BUG=bug, EmitEvery=0),
                invariants=["NoViolation"], expect="violation")


MODEL = dict(
    bin="registries",
    trace="Trace_Registries",
    mc=[
        # the code as it is, limits out of reach; emits the behaviours that are replayed on the real code
        dict(name="all", module="MC_Registries",
             constants=dict(_u, **_far, **_dp, Fls=FLS, ICn=1, BUG="none", EmitEvery=12),
             thorough=dict(_dp_thorough, BBn=3, ICn=2, EmitEvery=40),
             invariants=["NoViolation", "Refines"]),
        # scaled limits: the element at the limit is accepted, one past it refused, in every order
        dict(name="capacity", module="MC_Registries",
             constants=dict(_u, **_near, **dict(_dp, DpBinder=4), Fls=FLS - {"claims"}, BBn=3, IC={"c1"}, ICn=3, BUG="none",
                            EmitEvery=0),
             thorough=dict(_dp_thorough, DpBinder=5, IC={"c1", "c2"}),
             invariants=["NoViolation", "Refines"]),
        # BUG_C20_KEYS: the pinned allow_key pushed the pair and then tested len >= limit
        _bug("nonvacuous", "keys", "keys_offbyone", LimRpk=3),
        _bug("nonvacuous_keys_topic", "keys", "keys_stale_topic"),
        _bug("nonvacuous_cti", "cti", "cti_stale_reverse"),
        _bug("nonvacuous_binder", "binder", "binder_wrong_bucket"),
        _bug("nonvacuous_docs", "docs", "docs_stale_index"),
        _bug("nonvacuous_irs", "irs", "irs_rereg"),
        _bug("nonvacuous_modules", "modules", "modules_cap_gt", LimModules=2),
        _bug("nonvacuous_claims_dup", "claims", "claims_dup_index"),
        _bug("nonvacuous_claims_stale", "claims", "claims_stale_index"),
        _bug("nonvacuous_claims_id", "claims", "claims_topic_blind"),
    ],
    # runs of >= 50 calls (thorough) include, in every eighth driver process, the fill to 10 000 tokens / 5 000 documents
    quick=dict(sample=2500, drive_runs=180, drive_len=40),
    thorough=dict(sample=30000, drive_runs=720, drive_len=60, harness_timeout=6000),
    selftest_drive=(34, 30),   # two driver cycles: every kind of run occurs at run >= 3
    need=[("allow", "ok"), ("allow", "fail"), ("remove", "ok"), ("remove", "fail"),
          ("add_topic", "ok"), ("add_topic", "fail"), ("remove_topic", "ok"), ("remove_topic", "fail"),
          ("add_issuer", "ok"), ("add_issuer", "fail"), ("remove_issuer", "ok"), ("remove_issuer", "fail"),
          ("update_issuer", "ok"), ("update_issuer", "fail"),
          ("bind", "ok"), ("bind", "fail"), ("unbind", "ok"), ("unbind", "fail"),
          ("bind_batch", "ok"), ("bind_batch", "fail"),
          ("set_doc", "ok"), ("remove_doc", "ok"), ("remove_doc", "fail"),
          ("add_identity", "ok"), ("add_identity", "fail"), ("modify_identity", "ok"), ("remove_identity", "ok"),
          ("recover", "ok"), ("recover", "fail"), ("add_countries", "ok"), ("add_countries", "fail"),
          ("modify_country", "ok"), ("delete_country", "ok"), ("delete_country", "fail"),
          ("add_module", "ok"), ("add_module", "fail"), ("remove_module", "ok"), ("remove_module", "fail"),
          ("add_claim", "ok"), ("add_invalid", "fail"), ("remove_claim", "ok"), ("remove_claim", "fail")],
    # the real limits are reached from both sides (total capacity of binder / docs: thorough tier only)
    need_cnt=[x + n for n in ("rpk", "kpt", "topics", "issuers", "batch", "countries", "modules") for x in ("over_", "at_")]
             + ["C20_irs_recovery", "C20_claims_query", "C20_claims_enum", "C20_claims_refuse", "C20_claims_ids"],
)


# ---- self-test: corruptions of one recorded event that the trace specification must reject --------
def _fl(ev):
    o = ev["obs"]
    for k, f in (("kft", "keys"), ("ti", "cti"), ("tokens", "binder"), ("byname", "docs"), ("ident", "irs"),
                 ("mods", "modules"), ("byt", "claims")):
        if k in o:
            return f
    return "?"


def _flip(kind, frm, to):
    def f(ev):
        if ev["op"]["op"] == kind and ev["res"] == frm:
            ev["res"] = to
            return ev
        return None
    return f


def _keys_drop(ev):
    if _fl(ev) == "keys":
        for t, r in ev["obs"]["kft"].items():
            if len(r["v"]) >= 1:
                r["v"].pop(0)
                return ev
    return None


def _keys_extra_topic(ev):
    if _fl(ev) == "keys":
        for k, l in ev["obs"]["kt"].items():
            if "t1" not in l:
                l.append("t1")
                return ev
    return None


def _keys_regs_dup(ev):
    if _fl(ev) == "keys":
        for k, r in ev["obs"]["regs"].items():
            if len(r["v"]) == 1:
                r["v"].append(r["v"][0])
                return ev
    return None


def _cti_stale(ev):
    # an issuer shows up under a topic it is not assigned to
    if _fl(ev) == "cti":
        o = ev["obs"]
        for t, r in o["ti"].items():
            for i in o["issuers"]:
                if r["ok"] and i not in r["v"]:
                    r["v"].append(i)
                    return ev
    return None


def _cti_dup_topic(ev):
    if _fl(ev) == "cti" and ev["obs"]["topics"]:
        ev["obs"]["topics"].append(ev["obs"]["topics"][0])
        return ev
    return None


def _cti_has_lost(ev):
    if _fl(ev) == "cti":
        for i, h in ev["obs"]["has"].items():
            if h["yes"]:
                h["yes"].pop()
                return ev
    return None


def _cti_map_lost(ev):
    if _fl(ev) == "cti" and ev["obs"]["map"]["v"]:
        ev["obs"]["map"]["v"].pop()
        return ev
    return None


def _binder_swap(ev):
    if _fl(ev) == "binder" and len(ev["obs"]["tokens"]) >= 2:
        l = ev["obs"]["tokens"]
        l[0], l[-1] = l[-1], l[0]
        return ev
    return None


def _binder_isb(ev):
    if _fl(ev) == "binder" and ev["obs"]["isb"]:
        ev["obs"]["isb"][0]["v"] = not ev["obs"]["isb"][0]["v"]
        return ev
    return None


def _binder_past_end(ev):
    if _fl(ev) == "binder" and ev["obs"]["tokens"]:
        ev["obs"]["at"][-1]["v"] = ev["obs"]["tokens"][0]
        return ev
    return None


def _binder_gap(ev):
    # an index inside the range is refused
    if _fl(ev) == "binder" and len(ev["obs"]["tokens"]) >= 2:
        ev["obs"]["at"][1]["v"] = "none"
        return ev
    return None


def _docs_count(ev):
    if _fl(ev) == "docs":
        ev["obs"]["count"] += 1
        return ev
    return None


def _docs_uri(ev):
    if _fl(ev) == "docs":
        for p in ev["obs"]["byname"]:
            if p["ok"]:
                p["d"]["uri"] = "u9"
                return ev
    return None


def _docs_at_swapped(ev):
    if _fl(ev) == "docs":
        at = [p for p in ev["obs"]["at"] if p["ok"]]
        if len(at) >= 2:
            at[0]["k"], at[1]["k"] = at[1]["k"], at[0]["k"]
            return ev
    return None


def _docs_bucket_lost(ev):
    if _fl(ev) == "docs" and ev["obs"]["full"]:
        for b in ev["obs"]["buckets"]:
            if b["v"]:
                b["v"].pop()
                return ev
    return None


def _irs_link_lost(ev):
    if _fl(ev) == "irs":
        for a, x in ev["obs"]["rec"].items():
            if x != "none":
                ev["obs"]["rec"][a] = "none"
                return ev
    return None


def _irs_reregistered(ev):
    # a refused registration of a recovered account re-labelled as accepted
    if _fl(ev) == "irs" and ev["op"]["op"] == "add_identity" and ev["res"] == "fail" \
            and ev["obs"]["rec"].get(ev["op"]["a"], "none") != "none":
        ev["res"] = "ok"
        return ev
    return None


def _irs_past_end(ev):
    if _fl(ev) == "irs":
        for a, l in ev["obs"]["cd"].items():
            if len(l) >= 2:
                l[-1] = dict(ok=True, c=l[0]["c"])
                return ev
    return None


def _irs_country_order(ev):
    if _fl(ev) == "irs":
        for a, p in ev["obs"]["prof"].items():
            if p["cs"] != p["cs"][::-1]:
                p["cs"].reverse()
                return ev
    return None


def _modules_drop(ev):
    if _fl(ev) == "modules":
        for h, l in ev["obs"]["mods"].items():
            if l:
                l.pop(0)
                return ev
    return None


def _modules_reg_extra(ev):
    if _fl(ev) == "modules":
        for h, l in ev["obs"]["reg"].items():
            if "m1" not in l:
                l.append("m1")
                return ev
    return None


def _claims_stale_id(ev):
    # the id of a claim that does not exist is listed under its topic
    if _fl(ev) == "claims":
        for p in ev["obs"]["claim"]:
            if not p["ok"] and p["id"] not in ev["obs"]["byt"][p["t"]]:
                ev["obs"]["byt"][p["t"]].append(p["id"])
                return ev
    return None


def _claims_dup_id(ev):
    if _fl(ev) == "claims":
        for t, l in ev["obs"]["byt"].items():
            if l:
                l.append(l[0])
                return ev
    return None


def _claims_lost_id(ev):
    if _fl(ev) == "claims":
        for t, l in ev["obs"]["byt"].items():
            if len(l) >= 2:
                l.pop(1)
                return ev
    return None


def _claims_data(ev):
    if _fl(ev) == "claims":
        for p in ev["obs"]["claim"]:
            if p["ok"]:
                p["data"] = "d9"
                return ev
    return None


def _claims_wrong_topic(ev):
    # get_claim(id of (t, i)) answers with a claim of another topic
    if _fl(ev) == "claims":
        for p in ev["obs"]["claim"]:
            if p["ok"]:
                p["topic"] = "t2" if p["topic"] == "t1" else "t1"
                return ev
    return None


def _claims_id_collision(ev):
    if _fl(ev) == "claims" and len(ev["obs"]["claim"]) >= 2:
        ev["obs"]["claim"][1]["id"] = ev["obs"]["claim"][0]["id"]
        return ev
    return None


def _claims_ret(ev):
    # an overwrite returns another id than the claim's
    if _fl(ev) == "claims" and ev["op"]["op"] == "add_claim" and ev["res"] == "ok":
        ev["ret"] = "t9/i9"
        return ev
    return None


def _claims_refused_with_effect(ev):
    # a refused call after which a topic lists its ids in another order
    if ev["res"] == "fail" and _fl(ev) == "claims":
        for t, l in ev["obs"]["byt"].items():
            if l != l[::-1]:
                l.reverse()
                return ev
    return None


def _refused_with_effect(ev):
    # a refused call whose observation differs from the one before (only the order of a list changes,
    # so that every set-level answer stays right)
    if ev["res"] == "fail" and _fl(ev) == "modules":
        for h, l in ev["obs"]["mods"].items():
            if l != l[::-1]:
                l.reverse()
                return ev
    return None


MODEL["selftest"] = [
    _keys_drop, _keys_extra_topic, _keys_regs_dup, _flip("allow", "fail", "ok"), _flip("allow", "ok", "fail"),
    _flip("remove", "fail", "ok"),
    _cti_stale, _cti_dup_topic, _cti_has_lost, _cti_map_lost, _flip("add_topic", "fail", "ok"),
    _flip("remove_issuer", "fail", "ok"), _flip("add_issuer", "ok", "fail"),
    _binder_swap, _binder_isb, _binder_past_end, _binder_gap, _flip("bind", "fail", "ok"), _flip("unbind", "fail", "ok"),
    _docs_count, _docs_uri, _docs_at_swapped, _docs_bucket_lost, _flip("remove_doc", "fail", "ok"),
    _irs_link_lost, _irs_reregistered, _irs_past_end, _irs_country_order, _flip("recover", "fail", "ok"),
    _modules_drop, _modules_reg_extra, _flip("add_module", "fail", "ok"), _flip("remove_module", "fail", "ok"),
    _refused_with_effect,
    _claims_stale_id, _claims_dup_id, _claims_lost_id, _claims_data, _claims_wrong_topic, _claims_id_collision, _claims_ret,
    _claims_refused_with_effect, _flip("remove_claim", "fail", "ok"), _flip("add_invalid", "fail", "ok"),
]

SERVES = {
    "C20": dict(assumptions=[
        "RWA registries are exercised through thin contracts forwarding 1:1 to the library functions; the registry "
        "contracts asked by allow_key are mocks that let the claim issuer sign every topic",
        "capacity limits are the library's public constants (15 topics, 50 issuers, 50 keys per topic, 20 registries "
        "per key, 20 modules, 15 country entries, batches of 200 over buckets of 100, document buckets of 50) and are "
        "reached from both sides by the random driver; the totals of 10 000 tokens / 5 000 documents only in the thorough tier",
        "identity claims: the issuers asked by add_claim are scripted contracts whose is_claim_valid traps iff a flag is "
        "set (the validity of a claim is C15's subject); claim ids are compared over the probed universe of topics x issuers",
    ]),
}
