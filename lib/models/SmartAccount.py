"""SmartAccount (C03; context-rule registry part of C20): the multisig-smart-account example driven through
its management entry points, `try_invoke_contract_check_auth` (crafted payload, signatures, contexts) and
end-to-end invocations authorized by genuine entries, with a byte-deciding verifier, logging policy contracts
and always-yes accounts (delegated signers) as collaborators."""
from common import set_field

NAME = "SmartAccount"

# ---- corruptions for the self-test (each must be rejected by Trace_SmartAccount) ---------------------------
def _c_check_ok(ev):
    """a failed check reported as successful"""
    if ev["op"]["op"] == "check" and ev["res"] == "fail":
        return set_field(ev, ["res"], "ok")


def _c_e2e_ok(ev):
    """a refused end-to-end invocation reported as successful"""
    if ev["op"]["op"] == "e2e" and ev["res"] == "fail":
        return set_field(ev, ["res"], "ok")


def _c_check_fail(ev):
    """a successful check reported as failed"""
    if ev["op"]["op"] == "check" and ev["res"] == "ok":
        return set_field(ev, ["res"], "fail")


def _c_enf_rule(ev):
    """an enforce call naming another rule"""
    if ev["op"]["op"] == "check" and ev["res"] == "ok" and ev["log"]["enf"]:
        ev["log"]["enf"][0]["rule"] += 1
        return ev


def _c_enf_twice(ev):
    """a policy enforced twice"""
    if ev["op"]["op"] == "check" and ev["res"] == "ok" and ev["log"]["enf"]:
        ev["log"]["enf"].append(dict(ev["log"]["enf"][0]))
        return ev


def _c_scope(ev):
    """a policy is handed a signer the rule does not name"""
    if ev["op"]["op"] == "check" and ev["log"]["can"]:
        ev["log"]["can"][0]["sg"].append("zz")
        return ev


def _c_count(ev):
    return set_field(ev, ["obs", "count"], ev["obs"]["count"] + 1)


def _c_signer_list(ev):
    """a signer missing from a rule's signer list"""
    for r in ev["obs"]["rules"]:
        if r["signers"]:
            r["signers"].pop()
            return ev


def _c_type_list(ev):
    """a rule missing from its per-type list"""
    for t, y in ev["obs"]["types"].items():
        if y["ids"]:
            y["ids"].pop()
            return ev


def _c_dup_accepted(ev):
    """a refused management call (duplicate / absent) reported as accepted"""
    if ev["op"]["op"] in ("add_signer", "rm_signer", "add_policy", "rm_policy", "rm_rule") and ev["res"] == "fail":
        return set_field(ev, ["res"], "ok")


def _c_id_reused(ev):
    if ev["op"]["op"] == "add_rule" and ev["res"] == "ok" and ev["ret"] > 0:
        return set_field(ev, ["ret"], ev["ret"] - 1)


F = frozenset


def _powerset(xs):
    xs = sorted(xs)
    return {F(x for i, x in enumerate(xs) if m >> i & 1) for m in range(1 << len(xs))}


_base = dict(
    Signers={"s1", "s2", "d"}, Unknown={"u"}, Pols={"p1", "p2"},
    LimRules=15, LimSigners=15, LimPolicies=5,      # the documented limits (out of reach here; see `cap`)
    Now0=10, BUG="none", Emit=False, EmitMod=1, DTs={0},
)
# Encodings (TLC configuration files cannot express tuples): the joint behaviour of the two policies is
# c1 + 1000*c2 with c = 2*k + (1 if enforce refuses), k = number of authenticated signers can_enforce demands
# (99: never accepts); a rule is the set of its signer and policy names ("dup": the first signer is listed
# twice); a batch is one context a or the pair 10*a + b over 1 = c1, 2 = c2, 3 = c3, 4 = w1, 5 = v1 (w1 with
# constructor arguments); valid_until offset 99 = None, otherwise ledger of the call + offset - 10 (9: already past).
_ALWAYS, _K1, _K2, _K1_REFUSING, _NEVER = 0, 2, 4, 3, 198

# all supplied-signer sets x one invalid signature, rule sets of <= 2 rules, one management call after init
_code = dict(
    _base, CTs={"D", "c1", "c2", "w1"},
    PolCfgs={_ALWAYS, _K2, _K1_REFUSING + 1000 * _NEVER, 1000 * _K1},
    Supplied=_powerset({"s1", "s2", "d", "u"}),
    InitRules={F({"s1"}), F({"s1", "d", "p1"})},
    RSets={F({"p1"}), F({"s1"}), F({"s2", "d"}), F({"s1", "p1", "p2"})},
    VUoffs={99, 11}, CheckDTs={0, 1, 2},
    Batches={1, 4, 12, 51},
    BadMode="one", GenRules=2, Depth=1, Emit=True, EmitMod=3,
)
_code_thorough = dict(
    PolCfgs={_ALWAYS, _K2, _K1_REFUSING + 1000 * _NEVER, 1000 * _K1, _K1 + 1000 * _K2},
    InitRules={F({"s1"}), F({"s1", "d", "p1"}), F({"p2"})},
    RSets={F({"p1"}), F({"s1"}), F({"s2", "d"}), F({"s1", "p1", "p2"}), F({"s1", "s2", "d"}), F({"d", "p2"}),
           F({"s1", "s2", "p1"}), F({"s1", "dup"}), F({"s2"}), F({"s1", "s2"}), F({"p1", "p2"}), F({"d"})},
    VUoffs={99, 9, 10, 11},
    Batches={1, 2, 4, 12, 11, 51},
    BadMode="any", EmitMod=40,
)
# histories: rule sets of <= 3 rules built by two (thorough: three) management calls, fewer check variants
_hist = dict(
    _base, CTs={"D", "c1", "w1"},
    PolCfgs={_ALWAYS, _K2 + 1000 * _K1_REFUSING},
    Supplied={F(), F({"s1"}), F({"s1", "s2", "d"}), F({"s2", "d", "u"})},
    InitRules={F({"s1", "p1", "p2"})},           # also offered to add_rule: remove it and add it again
    RSets={F({"s1"}), F({"s2", "d"}), F({"s1", "p1", "p2"})},
    VUoffs={99, 11}, CheckDTs={0, 1, 2},
    Batches={1, 41},
    BadMode="one", GenRules=3, Depth=2, Emit=True, EmitMod=3,
)
_hist_thorough = dict(
    Depth=3, EmitMod=40,
    Supplied={F(), F({"s1"}), F({"s1", "s2", "d"}), F({"s2", "d", "u"}), F({"s1", "d"}), F({"s2"}), F({"d"}),
              F({"s1", "s2", "d", "u"})},
)
# capacity, scaled: at most 2 rules, 2 signers, 1 policy (the real limits are exercised by the random driver)
_cap = dict(
    _base, CTs={"D", "c1"}, LimRules=2, LimSigners=2, LimPolicies=1,
    PolCfgs={_ALWAYS}, Supplied={F()}, Batches=set(),
    InitRules={F({"s1"})},
    RSets={F({"s2"}), F({"s1", "s2"}), F({"s1", "s2", "d"}), F({"p1"}), F({"p1", "p2"}), F({"s2", "d", "p2"})},
    VUoffs={99}, CheckDTs={0},
    BadMode="one", GenRules=3, Depth=3,
)

MODEL = dict(
    bin="smartaccount",
    trace="Trace_SmartAccount",
    mc=[
        dict(name="code", module="MC_SmartAccount", constants=_code, thorough=_code_thorough,
             invariants=["NoViolation", "Refines"]),
        dict(name="hist", module="MC_SmartAccount", constants=_hist, thorough=_hist_thorough,
             invariants=["NoViolation", "Refines"]),
        dict(name="cap", module="MC_SmartAccount", constants=_cap, invariants=["NoViolation", "Refines"]),
        # vacuity guard: the monitors do fail on a model that tries Default rules before the type-specific ones
        dict(name="nonvacuous", module="MC_SmartAccount", constants=dict(_hist, BUG="default_first", Emit=False, Depth=1),
             invariants=["NoViolation"], expect="violation"),
    ],
    quick=dict(sample=4000, drive_runs=320, drive_len=40),
    thorough=dict(sample=None, drive_runs=4000, drive_len=60),
    need=[("check", "ok"), ("check", "fail"), ("e2e", "ok"), ("e2e", "fail"), ("init", "ok"), ("add_rule", "ok"), ("add_rule", "fail"), ("rm_rule", "ok"),
          ("rm_rule", "fail"), ("upd_name", "ok"), ("upd_vu", "ok"), ("upd_vu", "fail"), ("add_signer", "ok"),
          ("add_signer", "fail"), ("rm_signer", "ok"), ("rm_signer", "fail"), ("add_policy", "ok"), ("add_policy", "fail"),
          ("rm_policy", "ok"), ("rm_policy", "fail")],
    selftest=[_c_check_ok, _c_e2e_ok, _c_check_fail, _c_enf_rule, _c_enf_twice, _c_scope, _c_count, _c_signer_list, _c_type_list,
              _c_dup_accepted, _c_id_reused],
)
SERVES = {
    "C03": dict(assumptions=[
        "policies and the verifier are harness collaborators: a policy accepts iff it is handed at least k authenticated "
        "signers, a signature is valid iff its first byte says so; the management entry points are called with the "
        "account's own authorization granted by the test host (they are set-up for C03)"]),
    "C20": dict(assumptions=["context-rule registry: management calls are made with the account's own authorization granted by the test host"]),
}
