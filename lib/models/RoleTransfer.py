"""RoleTransfer (C07; gate monitor of C06): ownable example + nft-access-control example (admin)."""
from common import ABC, set_field

NAME = "RoleTransfer"
_c = dict(Acct=ABC, MinTempTtl=1, MaxTtl=20, DUs={0, 1, 4}, DTs={0, 1, 2}, Now0=10)
MODEL = dict(
    bin="roletransfer",
    trace="Trace_RoleTransfer",
    mc=[
        # the code as it is: exactly one way to violate C07 (the recorded known finding); emits behaviours
        dict(name="code", module="MC_RoleTransfer",
             constants=dict(_c, Depth=3, FIXED_C07=False, Emit=True),
             thorough=dict(Depth=5),
             invariants=["KnownOnly", "Refines"]),
        # a repaired design (accept compares the explicit expiry): no monitor fails
        dict(name="repaired", module="MC_RoleTransfer",
             constants=dict(_c, Depth=5, FIXED_C07=True, Emit=False),
             thorough=dict(Depth=6),
             invariants=["NoViolation"]),
        # vacuity guard: the monitors do fail on the model of the code as it is
        dict(name="nonvacuous", module="MC_RoleTransfer",
             constants=dict(_c, Depth=3, FIXED_C07=False, Emit=False),
             invariants=["NoViolation"], expect="violation"),
    ],
    quick=dict(sample=4000, drive_runs=320, drive_len=40),
    thorough=dict(sample=None, drive_runs=16000, drive_len=60),
    need=[("offer", "ok"), ("offer", "fail"), ("cancel", "ok"), ("accept", "ok"), ("accept", "fail"),
          ("renounce", "ok"), ("renounce", "fail"), ("gated", "ok"), ("gated", "fail")],
    selftest=[
        lambda ev: set_field(ev, ["obs", "holder"], "c" if ev["obs"]["holder"] != "c" else "b"),
        lambda ev: set_field(ev, ["res"], "ok") if ev["op"]["op"] == "accept" and ev["res"] == "fail" else None,
        lambda ev: set_field(ev, ["res"], "ok") if ev["op"]["op"] == "gated" and ev["res"] == "fail" else None,
    ],
)
SERVES = {
    "C07": dict(assumptions=["ledger min_temp_entry_ttl = 1 as the property prescribes"]),
    "C06": dict(),
}
