"""Nft (C10, C11): thin base NFT, nft-enumerable example (+ thin enumerable for explicit ids),
nft-consecutive example."""

from common import ABC

NAME = "Nft"

_c = dict(ITEMS=2, BITS=2, MinTempTtl=16, MaxTtl=6000000, Now0=10, BUG="none", PastDU=False)
AB = {"a", "b"}

# ownership configurations: the owner acts with its own authorization; mints, transfers, burns
_own = dict(_c, Acct=AB, AuthMode="self", RcSet=AB, ToSet=AB, FromSet=AB, PreMode="none", DUs={1}, DTs={0})
_own_be = dict(_own, OpSet={"mint_seq", "mint_id", "transfer", "burn"}, MaxId=3, XIds={20}, NS={1},
               TIds={0, 1, 2, 3, 4, 20})
_own_c = dict(_own, FLAVOUR="consecutive", OpSet={"batch", "transfer", "burn"}, MaxId=8, XIds=set(),
              NS={1, 2, 3, 5}, TIds=set(range(10)))
# authorization configurations: tokens pre-minted (0 -> a, 1 -> b; consecutive: 0,1 -> a, 2 -> b),
# every caller x {principal authorizes, everybody else authorizes}, ledger around the expiry
_auth = dict(_c, Acct=ABC, AuthMode="all", RcSet={"c"}, ToSet={"c"}, FromSet=AB, PreMode="two",
             OpSet={"approve", "approve_for_all", "transfer_from", "burn_from", "transfer", "burn"},
             MaxId=2, XIds=set(), NS={1}, TIds={0}, DUs={0, 1}, DTs={0, 1})
# the spender holds a token himself (0, 1 -> a, 2 -> b; b approved / operator): balances of all three parties matter
_held = dict(_c, Acct=ABC, AuthMode="self", RcSet={"c"}, ToSet={"b"}, FromSet={"a"}, PreMode="three",
             OpSet={"approve", "approve_for_all", "transfer_from", "burn_from", "transfer", "burn"},
             MaxId=3, XIds=set(), NS={1}, TIds={0, 1, 2}, DUs={1}, DTs={0})
_auth_t = dict(DUs={0, 1, 5999999, 6000000}, PastDU=True, ToSet={"b", "c"})
_inv = ["NoViolation", "Refines"]


def _mc(name, consts, thorough=None, emit=True, **kw):
    th = dict(thorough or {})
    if th and emit:
        th["EmitMod"] = 8
    return dict(name=name, module="MC_Nft", constants=dict(consts, Emit=emit, EmitMod=1), thorough=th,
                invariants=kw.pop("invariants", _inv), constraints=[], **kw)


def _owners_corrupt(ev):
    for r in ev["obs"]["owners"]:
        if r["o"] != "none":
            r["o"] = "d" if r["o"] != "d" else "a"
            return ev
    return None


def _owner_ghost_token(ev):
    """an id that never existed reports an owner"""
    for r in ev["obs"]["owners"]:
        if r["o"] == "none":
            r["o"] = "a"
            return ev
    return None


def _bal_corrupt(ev):
    ev["obs"]["bal"]["b"] += 1
    return ev


def _glob_dup(ev):
    g = ev["obs"]["glob"]
    if ev["obs"]["supply"] >= 2 and g[0] != g[1]:
        g[1] = g[0]
        return ev
    return None


def _otok_swap_owner(ev):
    o = ev["obs"]["otok"]
    for a in o:
        for b in o:
            if a != b and o[a] and o[b]:
                o[a][0], o[b][0] = o[b][0], o[a][0]
                return ev
    return None


def _res_ok(kind):
    def f(ev):
        if ev["op"]["op"] == kind and ev["res"] == "fail" and ev["err"] in (201, 202, 203):
            ev["res"] = "ok"
            return ev
        return None
    return f


def _appr_stale(ev):
    """the token's approval survives a transfer / burn"""
    if ev["op"]["op"] in ("transfer", "transfer_from", "burn", "burn_from") and ev["res"] == "ok":
        for r in ev["obs"]["appr"]:
            if r["id"] == ev["op"]["id"]:
                r["who"] = "b"
                return ev
    return None


def _opall_ghost(ev):
    o = ev["obs"]["opall"]
    for a in o:
        for b in o[a]:
            if not o[a][b]:
                o[a][b] = True
                return ev
    return None


def _reuse_id(ev):
    if ev["op"]["op"] == "mint_seq" and ev["res"] == "ok" and ev["ret"] >= 1:
        ev["ret"] -= 1
        return ev
    return None


MODEL = dict(
    bin="nft",
    trace="Trace_Nft",
    mc=[
        _mc("own_base", dict(_own_be, FLAVOUR="base", Depth=5), dict(Depth=6)),
        _mc("own_enum", dict(_own_be, FLAVOUR="enumerable", Depth=5), dict(Depth=6)),
        _mc("own_cons", dict(_own_c, Depth=4), dict(Depth=5)),
        _mc("auth_base", dict(_auth, FLAVOUR="base", Depth=3), dict(Depth=4, ToSet={"b", "c"})),
        _mc("auth_enum", dict(_auth, FLAVOUR="enumerable", Depth=2), dict(Depth=3, ToSet={"b", "c"})),
        _mc("auth_cons", dict(_auth, FLAVOUR="consecutive", Depth=3), dict(_auth_t, Depth=3)),
        _mc("held_base", dict(_held, FLAVOUR="base", Depth=3), dict(Depth=4), replay_all=True),
        _mc("held_enum", dict(_held, FLAVOUR="enumerable", Depth=3), dict(Depth=4), replay_all=True),
        # vacuity guards: re-introduced bugs must make the monitors fail
        _mc("nonvacuous_cons", dict(_own_c, Depth=3, BUG="no_prev_marker"), emit=False,
            invariants=["NoViolation"], expect="violation"),
        _mc("nonvacuous_enum", dict(_own_be, FLAVOUR="enumerable", Depth=5, BUG="swap_index"), emit=False,
            invariants=["NoViolation"], expect="violation"),
        _mc("nonvacuous_appr", dict(_auth, FLAVOUR="base", Depth=2, BUG="keep_approval"), emit=False,
            invariants=["NoViolation"], expect="violation"),
    ],
    quick=dict(sample=3000, drive_runs=240, drive_len=40),
    thorough=dict(sample=30000, drive_runs=3000, drive_len=60),
    need=[("mint_seq", "ok"), ("mint_id", "ok"), ("batch", "ok"), ("batch", "fail"),
          ("transfer", "ok"), ("transfer", "fail"), ("transfer_from", "ok"), ("transfer_from", "fail"),
          ("burn", "ok"), ("burn", "fail"), ("burn_from", "ok"), ("burn_from", "fail"),
          ("approve", "ok"), ("approve", "fail"), ("approve_for_all", "ok"), ("approve_for_all", "fail")],
    selftest=[_owners_corrupt, _owner_ghost_token, _bal_corrupt, _glob_dup, _otok_swap_owner,
              _res_ok("transfer_from"), _res_ok("approve"), _res_ok("burn_from"), _appr_stale, _opall_ghost,
              _reuse_id],
)
_assume = ["explicit-id mints name ids that are neither in use nor in the range of the sequential counter "
           "(Base::mint / non_sequential_mint document uniqueness as the caller's duty)",
           "minting is gated by the deployer (the examples' owner authorization is always supplied)"]
SERVES = {
    "C10": dict(assumptions=_assume),
    "C11": dict(assumptions=_assume),
}
