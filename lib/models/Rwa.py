"""Rwa (C04; RWA flavour of C01 and C02): thin RWA token over the library's RWA::* and pausable,
logging compliance mock, identity-verifier mock with per-account verdicts and a recovery map."""
from common import ABC, set_field

NAME = "Rwa"
_kinds = {"mint", "transfer", "transfer_from", "approve", "forced_transfer", "burn", "recover", "freeze", "unfreeze",
          "set_frozen", "pause", "unpause", "set_id", "set_ct", "set_cc", "set_rec"}
_c = dict(Acct=ABC, Amts={0, 1, 2}, NegAmt=False, Now0=10, DU=100, AllAuth=False, Kinds=_kinds, EmitMod=1)
MODEL = dict(
    bin="rwa",
    trace="Trace_Rwa",
    mc=[
        # the code as it is (transfer_from validates like transfer): no monitor fails; emits behaviours
        dict(name="code", module="MC_Rwa",
             constants=dict(_c, Depth=3, BUG_C04=False, Emit=True, EmitMod=40),
             thorough=dict(Amts={0, 1, 2, 3}, EmitMod=8),
             invariants=["NoViolation", "Refines", "ImplInv"]),
        # every subset of the parties authorizing, a holder posing as operator, negative amounts; shallower
        dict(name="auth", module="MC_Rwa",
             constants=dict(_c, Amts={1, 2}, NegAmt=True, Depth=2, AllAuth=True, BUG_C04=False, Emit=True, EmitMod=8),
             thorough=dict(Amts={0, 1, 2, 3}, EmitMod=2),
             invariants=["NoViolation", "Refines", "ImplInv"]),
        # vacuity guards: on the model of the pinned code (transfer_from without validate_transfer) the gate
        # monitor fails within 3 calls, and frozen > balance is reached (mint, freeze, approve, transfer_from)
        dict(name="nonvacuous", module="MC_Rwa",
             constants=dict(_c, Depth=3, BUG_C04=True, Emit=False),
             invariants=["NoViolation"], expect="violation"),
        dict(name="nonvacuous_frozen", module="MC_Rwa",
             constants=dict(_c, Acct={"a", "b"}, Amts={1}, Depth=4, BUG_C04=True, Emit=False,
                            Kinds={"mint", "freeze", "approve", "transfer_from", "transfer"}),
             invariants=["NoFrozenViolation"], expect="violation"),
    ],
    quick=dict(sample=4000, drive_runs=320, drive_len=40),
    thorough=dict(sample=None, drive_runs=16000, drive_len=60),
    need=[("mint", "ok"), ("mint", "fail"), ("transfer", "ok"), ("transfer", "fail"),
          ("transfer_from", "ok"), ("transfer_from", "fail"), ("approve", "ok"), ("approve", "fail"),
          ("forced_transfer", "ok"), ("forced_transfer", "fail"), ("burn", "ok"), ("burn", "fail"),
          ("recover", "ok"), ("recover", "fail"), ("freeze", "ok"), ("freeze", "fail"),
          ("unfreeze", "ok"), ("unfreeze", "fail"), ("set_frozen", "ok"), ("pause", "ok"), ("pause", "fail"),
          ("unpause", "ok"), ("unpause", "fail"), ("set_id", "ok"), ("set_ct", "ok"), ("set_cc", "ok"),
          ("set_rec", "ok")],
    selftest=[],
)
SERVES = {
    "C04": dict(assumptions=[
        "the compliance and identity-verifier contracts are harness mocks (configurable verdicts, call log); "
        "the real compliance / identity stack is the subject of C15 and C20",
        "supervisory entry points are reached through a thin token contract that forwards 1:1 to RWA::* behind "
        "an operator check; the operator check itself is harness code and is not judged"]),
    "C01": dict(),
    "C02": dict(),
}
