"""Rwa (C04; RWA flavour of C01 and C02): thin RWA token over the library's RWA::* and pausable,
logging compliance mock, identity-verifier mock with per-account verdicts and a recovery map."""
from common import ABC, set_field

NAME = "Rwa"


def _first(d):
    return sorted(d)[0]


def _bump(ev, path, by=1):
    cur = ev
    for k in path[:-1]:
        cur = cur[k]
    cur[path[-1]] += by
    return ev


def _drop_calls(ev, kinds):
    n = len(ev["calls"])
    ev["calls"] = [c for c in ev["calls"] if c["k"] not in kinds]
    return ev if len(ev["calls"]) != n else None


def _moves(ev):
    return ev["res"] == "ok" and ev["op"]["op"] in ("transfer", "transfer_from", "forced_transfer", "mint", "burn")


_SELFTEST = [
    # a frozen amount nobody froze (C04_gate_state / C04_frozen_inv)
    lambda ev: _bump(ev, ["obs", "frozen", _first(ev["obs"]["frozen"])]),
    # a refused holder transfer reported as successful
    lambda ev: set_field(ev, ["res"], "ok") if ev["op"]["op"] in ("transfer", "transfer_from") and ev["res"] == "fail" else None,
    # a successful movement without its compliance notification (C04_compliance_log)
    lambda ev: _drop_calls(ev, ("transferred", "created", "destroyed")) if _moves(ev) else None,
    # ... with a notification for another amount
    lambda ev: _bump(ev, ["calls", len(ev["calls"]) - 1, "amt"]) if _moves(ev) else None,
    # a transfer that never asked the compliance contract (C04_gates)
    lambda ev: _drop_calls(ev, ("can_transfer",)) if _moves(ev) else None,
    # supply no longer the sum of the balances (C01_rwa_sum)
    lambda ev: _bump(ev, ["obs", "supply"]),
    # a failed call that left an allowance behind (C01_rwa_fail)
    lambda ev: _bump(ev, ["obs", "allow", _first(ev["obs"]["allow"]), _first(ev["obs"]["allow"])]) if ev["res"] == "fail" else None,
    # a holder transfer nobody authorized (C04_auth, C02_rwa_debit)
    lambda ev: set_field(ev, ["op", "auth"], []) if ev["op"]["op"] == "transfer" and ev["res"] == "ok" else None,
    # a supervisory debit that unfroze one token too many (C04_supervisory_min)
    lambda ev: _bump(ev, ["obs", "frozen", ev["op"]["from"]], -1)
    if ev["op"]["op"] in ("forced_transfer", "burn") and ev["res"] == "ok" and ev["obs"]["frozen"][ev["op"]["from"]] > 0 else None,
    # a mint that moved one token more than asked (C01_rwa_delta)
    lambda ev: _bump(_bump(ev, ["obs", "bal", ev["op"]["to"]]), ["obs", "supply"]) if ev["op"]["op"] == "mint" and ev["res"] == "ok" else None,
]
_kinds = {"mint", "transfer", "transfer_from", "approve", "forced_transfer", "burn", "recover", "freeze", "unfreeze",
          "set_frozen", "pause", "unpause", "set_id", "set_ct", "set_cc", "set_rec"}
_c = dict(Acct=ABC, Amts={0, 1, 2}, NegAmt=False, Now0=10, DU=100, AllAuth=False, Kinds=_kinds, EmitMod=1, EmitLast=set())
MODEL = dict(
    # unbounded amounts: Apalache discharges the conservation / freeze invariant as an inductive invariant (thorough tier)
    proofs=[dict(name="ApaRwa", cmd=["lib/apalache.sh", "ApaRwa"], tiers=("thorough",))],
    bin="rwa",
    trace="Trace_Rwa",
    mc=[
        # the code as it is (transfer_from validates like transfer): no monitor fails; emits behaviours
        dict(name="code", module="MC_Rwa",
             constants=dict(_c, Depth=3, BUG_C04=False, Emit=True, EmitMod=40),
             thorough=dict(Amts={0, 1, 2, 3}, EmitMod=8),
             invariants=["NoViolation", "Refines", "ImplInv"]),
        # every subset of the parties authorizing, a holder posing as operator, negative amounts; shallower
        dict(name="auth", module="MC_Rwa",
             constants=dict(_c, Amts={1, 2}, NegAmt=True, Depth=2, AllAuth=True, BUG_C04=False, Emit=True, EmitMod=8),
             thorough=dict(Amts={0, 1, 2, 3}, EmitMod=2),
             invariants=["NoViolation", "Refines", "ImplInv"]),
        # two holders, the core entry points, twice as deep (e.g. mint, freeze, approve, pause, transfer_from, unpause)
        dict(name="deep", module="MC_Rwa",
             constants=dict(_c, Acct={"a", "b"}, Amts={1, 2}, Depth=4, BUG_C04=False, Emit=True, EmitMod=20,
                            Kinds={"mint", "transfer", "transfer_from", "approve", "forced_transfer", "burn", "freeze",
                                   "unfreeze", "set_frozen", "pause", "unpause", "set_id", "set_ct"}),
             thorough=dict(Depth=6, EmitMod=50),
             invariants=["NoViolation", "Refines", "ImplInv"]),
        # recovery after partial and address freezes on both accounts (mint, freeze, set_frozen, set_rec, recover)
        dict(name="recovery", module="MC_Rwa",
             constants=dict(_c, Acct={"a", "b"}, Amts={1, 2}, Depth=5, BUG_C04=False, Emit=True, EmitMod=10,
                            Kinds={"mint", "freeze", "set_frozen", "set_rec", "recover", "set_id"}),
             thorough=dict(Depth=7, EmitMod=40),
             invariants=["NoViolation", "Refines", "ImplInv"]),
        # both accounts partially frozen before the recovery (mint, mint, freeze, freeze, set_rec, recover): six calls
        dict(name="recovery_both", module="MC_Rwa", replay_all=True,
             constants=dict(_c, Acct={"a", "b"}, Amts={1, 2}, Depth=6, BUG_C04=False, Emit=True, EmitMod=1, EmitLast={"recover"},
                            Kinds={"mint", "freeze", "set_rec", "recover"}),
             thorough=dict(Depth=7, EmitMod=4),
             invariants=["NoViolation", "Refines", "ImplInv"]),
        # vacuity guards: on the model of the pinned code (transfer_from without validate_transfer) the gate
        # monitor fails within 3 calls, and frozen > balance is reached (mint, freeze, approve, transfer_from)
        dict(name="nonvacuous", module="MC_Rwa",
             constants=dict(_c, Depth=3, BUG_C04=True, Emit=False),
             invariants=["NoViolation"], expect="violation"),
        dict(name="nonvacuous_frozen", module="MC_Rwa",
             constants=dict(_c, Acct={"a", "b"}, Amts={1}, Depth=4, BUG_C04=True, Emit=False,
                            Kinds={"mint", "freeze", "approve", "transfer_from", "transfer"}),
             invariants=["NoFrozenViolation"], expect="violation"),
    ],
    quick=dict(sample=4000, drive_runs=320, drive_len=40),
    thorough=dict(sample=None, drive_runs=8000, drive_len=60),
    need=[("mint", "ok"), ("mint", "fail"), ("transfer", "ok"), ("transfer", "fail"),
          ("transfer_from", "ok"), ("transfer_from", "fail"), ("approve", "ok"), ("approve", "fail"),
          ("forced_transfer", "ok"), ("forced_transfer", "fail"), ("burn", "ok"), ("burn", "fail"),
          ("recover", "ok"), ("recover", "fail"), ("freeze", "ok"), ("freeze", "fail"),
          ("unfreeze", "ok"), ("unfreeze", "fail"), ("set_frozen", "ok"), ("pause", "ok"), ("pause", "fail"),
          ("unpause", "ok"), ("unpause", "fail"), ("set_id", "ok"), ("set_ct", "ok"), ("set_cc", "ok"),
          ("set_rec", "ok")],
    selftest=_SELFTEST,
)
SERVES = {
    "C04": dict(assumptions=[
        "the compliance and identity-verifier contracts are harness mocks (configurable verdicts, call log); "
        "the real compliance / identity stack is the subject of C15 and C20",
        "supervisory entry points are reached through a thin token contract that forwards 1:1 to RWA::* behind "
        "an operator check; the operator check itself is harness code and is not judged"]),
    "C01": dict(),
    "C02": dict(),
}
