"""Verifiers (C18): webauthn-verifier + ed25519-verifier examples and the base64url helper."""
from common import set_field

NAME = "Verifiers"

_LATTICE = {0, 1, 62, 63, 127, 128, 251, 254, 255}
_c = dict(BUG="", Emit=False, MaxB64=3, Lattice=_LATTICE)

# coverage classes that must occur in the recorded traces (mirror of AllClasses in Verifiers.tla,
# minus the informational counters)
_TYPES = ["create", "upper", "space", "prefix", "empty", "missing"]
_CHALS = ["wrong", "other_payload", "padded", "std_alphabet", "truncated", "extended", "empty", "missing"]
_WSIGS = ["altered_auth", "altered_client", "other_key", "garbage", "bitflip", "no_hash", "payload_only"]
_WKEYS = ["cred", "other", "bitflip", "short"]
_CLASSES = (["flags_%d" % n for n in range(16)]
            + ["type_" + v for v in _TYPES] + ["chal_" + v for v in _CHALS] + ["sig_" + v for v in _WSIGS]
            + ["key_" + v for v in _WKEYS] + ["payload_" + v for v in ("other", "short", "long")]
            + ["alen_below", "alen_at", "alen_above", "clen_at", "clen_above", "xbits"]
            + ["layout_" + v for v in ("compact", "spaced", "reordered", "nested")]
            + ["ed_genuine"] + ["ed_payload_" + v for v in ("other", "short", "long")]
            + ["ed_key_" + v for v in ("other", "bitflip")] + ["ed_sig_" + v for v in ("other_key", "bitflip", "over_other")]
            + ["b64_mod0", "b64_mod1", "b64_mod2"])


def _nonvacuous(bug):
    return dict(name="nonvacuous_" + bug, module="MC_Verifiers", constants=dict(_c, BUG=bug),
                invariants=["NoViolation"], expect="violation")


def _genuine(ev):
    o = ev["op"]
    f = set(o.get("flags", []))
    return (o["op"] == "webauthn" and o["type"] == "get" and o["chal"] == "right" and o["payload"] == "right"
            and {"UP", "UV"} <= f and not ("BS" in f and "BE" not in f) and o["alen"] >= 37 and o["clen"] <= 1024
            and o["sig"] == "right" and o["key"] in ("right", "cred") and o["xbits"] == 0)


def _drop_uv(ev):
    # the recorded call is re-labelled as one whose authenticator data lacked the UV flag
    if not (_genuine(ev) and ev["res"] == "ok"):
        return None
    ev["op"]["flags"] = [x for x in ev["op"]["flags"] if x != "UV"]
    return ev


def _out(ev, f):
    if ev["op"]["op"] != "b64" or ev["res"] != "ok" or len(ev["obs"]["out"]) < 4:
        return None
    ev["obs"]["out"] = f(list(ev["obs"]["out"]))
    return ev


MODEL = dict(
    bin="verifiers",
    trace="Trace_Verifiers",
    mc=[
        # every abstract assertion / every short byte string: the transcription of the code's checks equals
        # Accept, the loop of the encoder equals RFC 4648 section 5; emits one behaviour per case
        dict(name="code", module="MC_Verifiers", constants=dict(_c, Emit=True), thorough=dict(MaxB64=4),
             invariants=["NoViolation", "Correct", "DefsAgree"]),
        # vacuity guards: seeded bugs in the model of the code make the monitors fail
        _nonvacuous("no_bs"),     # backup-state consistency check dropped
        _nonvacuous("no_uv"),     # user verification not required
        _nonvacuous("pad"),       # encoder emits '=' padding
    ],
    quick=dict(sample=2500, drive_runs=64, drive_len=100),
    thorough=dict(sample=None, drive_runs=800, drive_len=100),
    need=[("webauthn", "ok"), ("webauthn", "fail"), ("ed25519", "ok"), ("ed25519", "fail"), ("b64", "ok")],
    need_cnt=["C18_cls_" + c for c in _CLASSES],
    selftest_drive=(6, 100),
    selftest=[
        # a rejected non-genuine assertion reported as accepted
        lambda ev: set_field(ev, ["res"], "ok") if ev["op"]["op"] == "webauthn" and ev["res"] == "fail"
        and ev["op"]["payload"] != "long" else None,
        # a genuine assertion reported as rejected
        lambda ev: set_field(ev, ["res"], "fail") if _genuine(ev) and ev["res"] == "ok" else None,
        _drop_uv,
        lambda ev: set_field(ev, ["res"], "ok" if ev["res"] == "fail" else "fail") if ev["op"]["op"] == "ed25519" else None,
        # one output character of the encoder changed / padding appended / one character lost
        lambda ev: _out(ev, lambda o: [o[0] ^ 1] + o[1:]),
        lambda ev: _out(ev, lambda o: o + [61]),
        lambda ev: _out(ev, lambda o: o[:-1]),
    ],
)

SERVES = {
    "C18": dict(assumptions=[
        "hashes and signatures are uninterpreted: an assertion is described by how it was produced relative to a "
        "genuine one (which key signed which bytes); the curve arithmetic is the host's",
        "payloads are 32 bytes (a longer payload is recorded but not judged: the WebAuthn verifier reads its first 32 bytes)",
        "encoder: all byte strings of length 0..3 (4 in the thorough tier) over a 9-value lattice exhaustively, lengths "
        "0..300 with random and boundary bytes on the real function, each compared with RFC 4648 section 5 computed in TLA+",
    ]),
}
