"""Compliance (beyond the listed properties, X05): hook dispatch of the modular RWA compliance contract
(can_transfer / can_create verdicts, transferred / created / destroyed notifications, token binding gate)."""
from common import set_field

NAME = "Compliance"
EXTRA = True

NOTIFY = ("transferred", "created", "destroyed")
CAN = ("can_transfer", "can_create")


def _mc(name, profile, bug="", depth=4, emit=False, tdepth=None):
    d = dict(name=name, module="MC_Compliance",
             constants=dict(Depth=depth, Emit=emit, Profile=profile, BUG=bug),
             invariants=["NoViolation", "Refines"], thorough=dict(Depth=tdepth or depth + 1))
    if bug:
        d.update(expect="violation", invariants=["NoViolation"], thorough={})
    return d


def _op(ev):
    return ev["op"]["op"]


def _ok(ev, ops):
    return _op(ev) in ops and ev["res"] == "ok"


def _drop_note(ev):
    if _ok(ev, NOTIFY) and ev["obs"]["notes"]:
        return set_field(ev, ["obs", "notes"], ev["obs"]["notes"][1:])


def _dup_note(ev):
    if _ok(ev, NOTIFY) and ev["obs"]["notes"]:
        return set_field(ev, ["obs", "notes"], ev["obs"]["notes"] + ev["obs"]["notes"][:1])


def _note_amount(ev):
    if _ok(ev, NOTIFY) and ev["obs"]["notes"]:
        notes = [dict(x) for x in ev["obs"]["notes"]]
        notes[-1]["amt"] += 1
        return set_field(ev, ["obs", "notes"], notes)


def _note_kind(ev):
    if _ok(ev, ("created",)) and ev["obs"]["notes"]:
        notes = [dict(x) for x in ev["obs"]["notes"]]
        notes[0]["kind"] = "on_destroyed"
        return set_field(ev, ["obs", "notes"], notes)


def _stray_note(ev):
    # a failed hook call that nevertheless left a notification behind
    if _op(ev) in NOTIFY and ev["res"] == "fail":
        o = ev["op"]
        return set_field(ev, ["obs", "notes"], [dict(m="m1", kind="on_transfer", to=o["to"], amt=o["amt"], tok=o["tok"], **{"from": o["from"]})])


def _can_notifies(ev):
    if _ok(ev, CAN):
        o = ev["op"]
        return set_field(ev, ["obs", "notes"], ev["obs"]["notes"] + [dict(m="m1", kind="on_created", to=o["to"], amt=o["amt"], tok=o["tok"], **{"from": ""})])


def _flip_true(ev):
    # a verdict turned from FALSE into TRUE
    if _ok(ev, CAN) and not ev["ret"]:
        return set_field(ev, ["ret"], True)


def _flip_false(ev):
    if _ok(ev, CAN) and ev["ret"] and ev["op"]["amt"] >= 0:
        return set_field(ev, ["ret"], False)


def _unauth_ok(ev):
    if _op(ev) in NOTIFY and ev["res"] == "fail" and ev["op"]["tok"] not in ev["op"]["auth"]:
        return set_field(ev, ["res"], "ok")


def _auth_fail(ev):
    if _ok(ev, NOTIFY) and ev["op"]["amt"] >= 0:
        ev["obs"]["notes"] = []
        return set_field(ev, ["res"], "fail")


def _lost_module(ev):
    for h, l in ev["obs"]["mods"].items():
        if l:
            return set_field(ev, ["obs", "mods", h], l[1:])


def _unbound(ev):
    if ev["obs"]["bound"]:
        return set_field(ev, ["obs", "bound"], ev["obs"]["bound"][1:])


def _asked_after_false(ev):
    # a module consulted although an earlier one had already said FALSE: replay the last consultation under another name
    if _ok(ev, CAN) and not ev["ret"] and ev["obs"]["notes"]:
        h = "CanTransfer" if _op(ev) == "can_transfer" else "CanCreate"
        asked = [x["m"] for x in ev["obs"]["notes"]]
        rest = [m for m in ev["obs"]["mods"][h] if m not in asked]
        if rest:
            return set_field(ev, ["obs", "notes"], ev["obs"]["notes"] + [dict(ev["obs"]["notes"][-1], m=rest[0])])


MODEL = dict(
    bin="compliance",
    trace="Trace_Compliance",
    mc=[
        _mc("notify", "notify", depth=5, emit=True),
        _mc("verdict", "verdict", emit=True),
        # vacuity guards: seeded model bugs must make the monitors fail
        _mc("ignore_last", "verdict", bug="ignore_last", depth=3),
        _mc("first_only", "verdict", bug="first_only", depth=4),
        _mc("wrong_list_v", "verdict", bug="wrong_list", depth=3),
        _mc("no_bound", "notify", bug="no_bound", depth=2),
        _mc("no_auth", "notify", bug="no_auth", depth=2),
        _mc("wrong_list_n", "notify", bug="wrong_list", depth=3),
        _mc("remove_next", "notify", bug="remove_next", depth=3),
    ],
    quick=dict(sample=3000, drive_runs=240, drive_len=40),
    thorough=dict(sample=30000, drive_runs=4800, drive_len=60),
    need=[(o, r) for o in NOTIFY + ("require", "add", "remove", "bind", "unbind") for r in ("ok", "fail")]
         + [(o, "ok") for o in CAN] + [(o, "fail") for o in CAN],
    need_cnt=["X05_verdict_true", "X05_verdict_false", "X05_verdict_live", "X05_notify_gate", "X05_notify_exact",
              "X05_notify_live", "X05_atomic", "X05_readonly", "X05_order", "X05_lists"],
    selftest=[_drop_note, _dup_note, _note_amount, _note_kind, _stray_note, _can_notifies, _flip_true, _flip_false,
              _unauth_ok, _auth_fail, _lost_module, _unbound, _asked_after_false],
)
SERVES = {"X05": dict(assumptions=[
    "the scripted modules answer can_transfer / can_create by a rule over the arguments they receive and report every "
    "call they get to one recorder contract; 'a notification was recorded' means the recorder holds it after the call",
    "amounts are logged as small model numbers (1000000 = i128::MAX, -1000000 = i128::MIN, 999999 = i128::MAX - 1, "
    "500000 = 2^64); the converse directions (a hook call must succeed, FALSE needs a rejecting module) are claimed "
    "for amounts >= 0 only"]),
    # C04 demands "the compliance contract approves the transfer" and "is notified exactly once, with the exact parties
    # and amount": with the library's modular compliance contract (an anchor of C04) that is its hook dispatch
    "C04": dict(assumptions=["the RWA token of the C04 model talks to a scripted compliance contract; the library's modular "
                             "compliance contract (hook dispatch to registered modules) is judged separately by the Compliance "
                             "model, whose monitors count for C04 as well"],
                also=["X05_verdict_true", "X05_verdict_false", "X05_verdict_live", "X05_notify_gate", "X05_notify_exact",
                      "X05_notify_live", "X05_atomic", "X05_readonly", "X05_order", "X05_lists"])}
