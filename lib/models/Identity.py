"""Identity (C15): identity verifier + claim-topics-and-issuers registry + identity registry storage +
identity-claims contract (library-backed "ida", arbitrary "idb") + claim issuers composed from the
library helpers, all three signature schemes."""
from common import set_field

NAME = "Identity"

REG = {"add_topic", "rm_topic", "add_issuer", "rm_issuer", "upd_issuer"}
ALL_DEFECTS = {"none", "data", "until", "topic", "identity", "issuer", "network", "nonce", "scheme", "sigbyte",
               "forged", "slot_topic", "slot_issuer"}


def _mc(name, rot=0, every=20, tevery=None, thorough=None, **over):
    c = dict(Topics={"t1", "t2"}, Issuers={"i1", "i2"}, Ids={"idb"}, Keys={"k1"}, Regs={"A", "B"},
             Defects={"none", "data"}, Untils={9}, TickDts={1}, BadTs=False,
             P1=REG, P2={"add_claim", "rm_claim"},
             P3={"rm_topic", "rm_issuer", "upd_issuer", "revoke", "bump", "remove_key", "tick"},
             Max1=3, Max2=2, Max3=1, PresetK={"k1"}, BUG="none", EmitEvery=every)
    c.update(over)
    th = dict(thorough or {})
    if tevery is not None:
        th["EmitEvery"] = tevery
    return dict(name=name, module="MC_Identity", constants=c, thorough=th,
                invariants=["NoViolation", "Refines"],
                cfg=dict(rot=rot, presetk=sorted(c["PresetK"])))


MODEL = dict(
    bin="identity",
    trace="Trace_Identity",
    mc=[
        # every registry reachable by <= 3 (thorough: 4) add/remove/update calls x every set of <= 2 (3)
        # claims (good / tampered) held by an arbitrary identity contract x one late call (de-listing after
        # signing, revocation, nonce bump, key removal, expiry)
        _mc("verify", rot=0, every=60, tevery=300, Max2=3,
            thorough=dict(Max1=4, P3={"add_topic", "add_issuer", "rm_topic", "rm_issuer", "upd_issuer", "revoke",
                                      "bump", "remove_key", "tick"})),
        # longer registry histories (a topic or an issuer removed and listed again) over one good claim
        _mc("relist", rot=2, every=20, tevery=20, Defects={"none"}, Max1=4, Max2=2, Max3=1,
            P2={"add_claim"}, P3={"add_topic", "rm_topic", "rm_issuer", "upd_issuer"}),
        # the same over the library-backed identity (add_claim refuses what the issuer refuses; index upkeep)
        _mc("verify_lib", rot=1, every=40, tevery=60, Ids={"ida"}, Untils={2, 9},
            P3={"rm_topic", "rm_issuer", "upd_issuer", "revoke", "bump", "remove_key", "tick", "rm_claim"},
            thorough=dict(Max2=3, Max3=2)),
        # every single corruption of a claim, on both identity contracts, under a fixed small registry
        _mc("defects", rot=2, every=6, tevery=2, Topics={"t1"}, Issuers={"i1"}, Ids={"ida", "idb"},
            Keys={"k1", "k2"}, Defects=ALL_DEFECTS, Untils={1, 9}, P1={"add_topic", "add_issuer"},
            P2={"add_claim", "tick"}, P3={"tick", "bump", "revoke"}, Max1=2, Max2=2, Max3=1),
        # issuer side: key allowed / removed per (topic, registry) pair, revoke / un-revoke, nonce bump and
        # re-signing, expiry boundary, on the library-backed identity
        _mc("issuer", rot=1, every=4, tevery=60, Topics={"t1"}, Issuers={"i1"}, Ids={"ida"}, Keys={"k1", "k2"},
            Defects={"none", "nonce"}, Untils={1, 9}, TickDts={1, 2}, BadTs=True,
            P1={"add_topic", "add_issuer"},
            P2={"allow_key", "remove_key", "add_claim", "rm_claim", "revoke", "unrevoke", "bump", "tick"},
            P3=set(), Max1=2, Max2=3, Max3=0, thorough=dict(Max2=4)),
        # vacuity guard: the pre-fix verify_identity (a required topic without trusted issuer is skipped)
        dict(_mc("nonvacuous", every=0, BUG="empty_topic", Max1=2, Max2=1, Max3=0),
             invariants=["NoViolation"], expect="violation", thorough={}),
    ],
    quick=dict(sample=4000, drive_runs=400, drive_len=40),
    thorough=dict(sample=12000, drive_runs=3000, drive_len=50, tlc_timeout=3000),
    need=[(o, r) for o in ("add_topic", "rm_topic", "add_issuer", "rm_issuer", "upd_issuer", "allow_key",
                           "remove_key", "add_claim", "rm_claim") for r in ("ok", "fail")]
    + [("revoke", "ok"), ("unrevoke", "ok"), ("bump", "ok"), ("tick", "ok")],
    need_cnt=["C15_verify_sound", "C15_verify_complete", "C15_no_topics", "C15_issuer_iff", "C15_add_claim"],
    selftest=[
        # an account verifies although the specification says it must not
        lambda ev: set_field(ev, ["obs", "ver", "a"], "yes") if ev["obs"]["ver"]["a"] == "no" else None,
        # an account does not verify although every required topic is covered (or none is required)
        lambda ev: set_field(ev, ["obs", "ver", "b"], "no") if ev["obs"]["ver"]["b"] == "yes" else None,
        # the issuer refuses a good claim
        lambda ev: _flip_slot(ev, "yes", "no"),
        # the issuer confirms a claim it must refuse
        lambda ev: _flip_slot(ev, "no", "yes"),
        # the library's add_claim accepts a corrupted claim
        lambda ev: set_field(ev, ["res"], "ok") if ev["op"]["op"] == "add_claim" and ev["op"]["id"] == "ida"
        and ev["res"] == "fail" and ev["op"]["def"] not in ("none",) else None,
    ],
)


def _flip_slot(ev, frm, to):
    for id_, m in ev["obs"]["val"].items():
        for t, mm in m.items():
            for i, v in mm.items():
                if v == frm:
                    mm[i] = to
                    return ev
    return None


SERVES = {
    "C15": dict(assumptions=[
        "signatures are genuine Ed25519 / secp256k1 / secp256r1 signatures; unforgeability itself is assumed",
        "the claim issuer is composed from the library helpers as its module documentation prescribes",
        "a claim whose valid_until equals the current timestamp is left open (the library's two descriptions disagree)",
    ]),
    # C04 demands "both parties pass identity verification": the soundness / completeness of the library's
    # verify_identity (an anchor of C04) is part of that gate; the C04 model itself scripts the verifier
    "C04": dict(assumptions=["the RWA token of the C04 model asks a scripted identity verifier; the library's verify_identity "
                             "is judged separately, on the identity stack of the C15 model, and its soundness / completeness "
                             "monitors count for C04 as well"],
                also=["C15_verify_sound", "C15_verify_complete"]),
}
