"""Fungible (C01, C02, fungible part of C16): thin Base+burnable token and the allowlist, blocklist,
pausable and capped examples."""
from common import set_field

NAME = "Fungible"


def _mc(flavour, regime="S", bug="", depth=3, tdepth=3, every=40, tevery=8, thin=False, **over):
    c = dict(ThinBlock=thin, Flavour=flavour, MAXI=1000, Cap=3, CapAmts={0, 1, 2, 4}, Amts={0, 1, 2}, MintAmts={1, 2}, ApprAmts={0, 2},
             DUs={0, 2, 19, 20}, WithNeg=True, MinTempTtl=1, MaxTtl=20, Now0=10, Depth=depth,
             EmitEvery=every, BUG=bug)
    if regime == "O":
        # 8 units = i128::MAX itself (the harness maps 8 * 2^124, which does not exist, to i128::MAX)
        c.update(MAXI=7, Cap=6, Amts={1, 6, 7}, MintAmts={1, 6, 7}, ApprAmts={7, 8}, DUs={2}, WithNeg=False)
    c.update(over)
    name = flavour + ("_thin" if thin else "") + ("_O" if regime == "O" else "") + ("_" + bug if bug else "")
    d = dict(name=name, module="MC_Fungible", constants=c, invariants=["NoViolation", "Refines"],
             thorough=dict(Depth=tdepth, EmitEvery=tevery),
             cfg=dict(flavour=flavour, regime=regime, cap=c["Cap"], impl="thin" if thin else "example"))
    if bug:
        d.update(expect="violation", invariants=["NoViolation"], thorough={})
        d["constants"]["EmitEvery"] = 0
        d["constants"]["Depth"] = 3
    return d


MODEL = dict(
    # unbounded amounts: Apalache discharges the conservation / freeze invariant as an inductive invariant (thorough tier)
    proofs=[dict(name="ApaFungible", cmd=["lib/apalache.sh", "ApaFungible"], tiers=("thorough",))],
    bin="fungible",
    trace="Trace_Fungible",
    mc=[
        # Depth = number of calls in a history (the bound is an enabling condition of Next)
        _mc("base", depth=4, tdepth=4, every=40, tevery=4),
        _mc("base", regime="O", depth=4, tdepth=5, every=4, tevery=10),
        _mc("allowlist", depth=4, tdepth=4, every=60, tevery=6),
        _mc("blocklist", depth=3, tdepth=4, every=1, tevery=6),
        # BlockList::burn / burn_from are exposed by no example: thin BlockList + burnable contract
        _mc("blocklist", depth=3, tdepth=4, every=2, tevery=8, thin=True),
        _mc("pausable", depth=4, tdepth=4, every=60, tevery=6),
        _mc("capped", depth=3, tdepth=4, every=1, tevery=6),
        _mc("capped", regime="O", depth=4, tdepth=5, every=2, tevery=10),
        # the cap lowered / raised after minting (set_cap + burnable; no example exposes it): thin contract
        _mc("capped", depth=4, tdepth=5, every=12, tevery=60, thin=True),
        # vacuity guards: seeded model bugs must be seen by the monitors
        _mc("base", bug="self_transfer"),
        _mc("allowlist", bug="burn_not_listed"),
        _mc("blocklist", bug="burn_not_listed", thin=True),
        _mc("pausable", bug="burn_not_pausable"),
        _mc("capped", bug="cap_off_by_one"),
        _mc("capped", bug="cap_headroom", thin=True, depth=4),
        _mc("base", bug="no_burn_event"),
    ],
    quick=dict(sample=6000, drive_runs=480, drive_len=40),
    thorough=dict(sample=None, drive_runs=16000, drive_len=60, tlc_timeout=3000),
    need=[(o, r) for o in ("mint", "transfer", "transfer_from", "approve", "burn", "burn_from", "pause", "unpause",
                           "list", "unlist") for r in ("ok", "fail")] + [("set_cap", "ok"), ("set_cap", "fail")],
    selftest=[
        lambda ev: set_field(ev, ["obs", "supply"], ev["obs"]["supply"] + 1),
        lambda ev: set_field(ev, ["obs", "bal", "a"], ev["obs"]["bal"]["a"] + 1) if ev["res"] == "fail" else None,
        lambda ev: set_field(ev, ["res"], "ok") if ev["op"]["op"] == "transfer" and ev["res"] == "fail"
        and ev["op"]["from"] != ev["op"]["to"] and ev["op"]["amt"] > 0 else None,
        lambda ev: set_field(ev, ["evs"], []) if any(x["k"] in ("mint", "burn", "transfer") for x in ev["evs"]) else None,
        lambda ev: set_field(ev, ["obs", "al", "a", "b"], ev["obs"]["al"]["a"]["b"] + 1),
    ],
)
SERVES = {
    "C01": dict(assumptions=["amount regime O maps the model unit to 2^124 so that i128 overflow is reachable; "
                             "balances of accounts outside the driven universe are not observed (none is ever named)"]),
    "C02": dict(assumptions=["ledger min_temp_entry_ttl = 1 (allowance entries get no lifetime beyond what the code requests)"]),
    "C16": dict(assumptions=["pausable / list / cap gates are exercised through the repository's example contracts as wired"]),
}
