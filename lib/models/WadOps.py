"""WadOps (beyond the listed properties, X03): the parts of the 18-decimal fixed-point type `Wad` that C12 does not
cover - conversions (from_integer / to_integer, from_token_amount / to_token_amount / from_price for every u8 decimals),
checked_add / checked_sub / checked_mul_int / checked_div_int, abs, min / max, the operator impls and the VALUE of
checked_pow - judged by definition with BigInt.tla."""
from common import set_field

NAME = "WadOps"
EXTRA = True

_TR = ["fits_x", "fits_p", "fits_n"]
_CONV = ["up_fits", "up_over", "id_fits", "range"] + ["down_" + t for t in _TR]
# exactly ReachableClasses of WadOps.tla (MC_WadOps: ClassKnown / ClassAgrees / ClassesReached at the mini scale)
_CLASSES = (["from_integer_up_fits", "from_integer_up_over"]
            + ["to_integer_down_" + t for t in _TR]
            + [f + "_" + c for f in ("from_token", "from_price", "to_token") for c in _CONV]
            + [f + "_" + c for f in ("cadd", "add", "csub", "sub", "cmul_int", "mul_int", "int_mul", "abs", "neg") for c in ("fits", "over")]
            + [f + "_" + c for f in ("cdiv_int", "div_int") for c in ["zero", "over"] + _TR]
            + [f + "_" + c + "_fits" for f in ("min", "max") for c in ("lt", "eq", "gt")]
            + ["mul_" + c for c in ["over", "phantom"] + _TR]
            + ["div_" + c for c in ["zero", "over", "phantom"] + _TR]
            + ["cpow_" + c for c in ("e0", "e1", "b0", "b1", "gen_fits", "gen_over")])
assert len(_CLASSES) == 77 and len(set(_CLASSES)) == 77

_FNS = ["from_integer", "to_integer", "from_token", "from_price", "to_token", "cadd", "csub", "cmul_int", "cdiv_int", "abs",
        "min", "max", "add", "sub", "mul", "div", "neg", "mul_int", "int_mul", "div_int", "cpow"]
_NEVER_FAIL = ("to_integer", "min", "max")


def _mc(name, sd, wb, maxexp, invariants, bug="", thorough=None):
    d = dict(name=name + ("_" + bug if bug else ""), module="MC_WadOps",
             constants=dict(SD=sd, WB=wb, BUG=bug, MaxExp=maxexp),
             invariants=invariants, view=None, constraints=[], action_constraints=[])
    if thorough:
        d["thorough"] = thorough
    if bug:
        d.update(expect="violation", invariants=["NoViolation"])
    return d


def _bump(ev, key="Q"):
    # corrupt a logged number: add one to its lowest limb
    m = list(ev[key]["m"]) or [0]
    m[0] = (m[0] + 1) % 32768
    ev[key] = dict(ev[key], m=m)
    return ev


def _flip(ev, key="Q"):
    ev[key] = dict(ev[key], n=1 - ev[key]["n"])
    return ev


_JUDGE = ["JudgeExact", "ClassAgrees", "ClassesReached"]
MODEL = dict(
    bin="wadops",
    trace="Trace_WadOps",
    mc=[
        # the transcribed code against X03 written with native integers: all inputs of a mini-Wad with scale 10^2
        _mc("native_w8", 2, 8, 12, ["Correct", "ClassKnown"], thorough=dict(WB=9)),
        # the BigInt judge of WadOps.tla against the native envelope, exhaustively on a mini-Wad with scale 10^1
        _mc("judge_w6", 1, 6, 9, _JUDGE, thorough=dict(WB=7)),
        # seeded bugs: the monitors can fail
        _mc("judge_w6", 1, 6, 9, None, bug="down_floor"),
        _mc("judge_w6", 1, 6, 9, None, bug="pow_extra_square"),
        _mc("judge_w6", 1, 6, 9, None, bug="abs_wraps"),
        _mc("judge_w6", 1, 6, 9, None, bug="range_zero"),
        _mc("judge_w6", 1, 6, 9, None, bug="add_strict"),
    ],
    # "runs" x "len" cases in total; every case is judged by definition with BigInt arithmetic (~250 cases/s/worker)
    quick=dict(sample=None, drive_runs=1600, drive_len=5),
    thorough=dict(sample=None, drive_runs=48000, drive_len=5, tlc_timeout=3000),
    need=[(f, "ok") for f in _FNS] + [(f, "fail") for f in _FNS if f not in _NEVER_FAIL],
    need_cnt=["X03_class_" + c for c in _CLASSES] + ["X03_exact", "X03_fail_only", "X03_decimals", "X03_pow"],
    selftest_drive=(80, 10),
    selftest=[
        # a returned value off by one unit in the last place
        lambda ev: _bump(ev) if ev["res"] == "ok" and ev["fn"] in ("from_token", "to_token", "from_price") else None,
        lambda ev: _bump(ev) if ev["res"] == "ok" and ev["fn"] in ("mul", "div") and ev["Q"]["m"] else None,
        lambda ev: _bump(ev) if ev["res"] == "ok" and ev["fn"] == "cpow" and len(ev["W"]) >= 3 else None,
        # a wrong sign
        lambda ev: _flip(ev) if ev["res"] == "ok" and ev["fn"] in ("neg", "abs") and ev["Q"]["m"] else None,
        # an unnecessary failure
        lambda ev: set_field(ev, ["res"], "fail") if ev["res"] == "ok" and ev["fn"] in ("cadd", "add", "cmul_int", "from_integer") else None,
        lambda ev: set_field(ev, ["res"], "fail") if ev["res"] == "ok" and ev["fn"] == "cpow" and len(ev["W"]) >= 2 else None,
        # a missing failure: out-of-range decimals, overflow, checked_pow overflow
        lambda ev: set_field(ev, ["res"], "ok") if ev["res"] == "fail" and ev["fn"] in ("from_token", "from_price", "to_token") and ev["dec"] > 56 else None,
        lambda ev: set_field(ev, ["res"], "ok") if ev["res"] == "fail" and ev["fn"] in ("sub", "csub", "mul_int", "int_mul") else None,
        lambda ev: set_field(ev, ["res"], "ok") if ev["res"] == "fail" and ev["fn"] == "cpow" else None,
        # other decimals than the ones the call was made with
        lambda ev: set_field(ev, ["dec"], ev["dec"] + 1) if ev["res"] == "ok" and ev["fn"] == "to_token" and ev["Q"]["m"] and ev["dec"] < 50 else None,
        # min / max exchanged
        lambda ev: set_field(ev, ["fn"], "max") if ev["fn"] == "min" and ev["A"] != ev["B"] else None,
    ],
)
SERVES = {"X03": dict(assumptions=[
    "contract built with overflow checks (the workspace's release profile and the harness profile set overflow-checks = true): "
    "the operator impls and abs panic on overflow instead of wrapping",
    "exhaustive only on a mini-Wad (scale 10^2 over 8/9-bit raw values for the transcribed code; scale 10^1 over 6/7-bit values for "
    "the BigInt judge); at full width: directed boundary cases of every class, boundary lattice and random values of every bit "
    "length, every u8 decimals class, each judged by definition with BigInt.tla",
    "checked_pow: the intermediate values of square-and-multiply are supplied by the harness (host 256-bit integers) as witnesses and "
    "each one is verified by definition by TLC before use; the operators Wad * Wad and Wad / Wad may fail whenever the raw "
    "intermediate product does not fit (they evaluate the documented formula in i128 and do not widen)"])}
