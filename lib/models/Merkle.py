"""Merkle (C17): crypto::merkle Verifier (SHA-256 and Keccak-256, sorted-pair and positional fold), the
merkle_distributor library functions (thin contracts) and the fungible-merkle-airdrop example."""
from common import set_field

NAME = "Merkle"

S_ALL = {"promote", "dup", "heap", "chain"}   # constructions used with the sorted-pair fold
P_ALL = {"dup", "pad"}                        # constructions whose positions are the index bits


def _mc(name, flavour, mode, phase, ns, styles, depth, every, bug="", thorough=None):
    c = dict(Flavour=flavour, Mode=mode, Phase=phase, Ns=set(ns), Styles=set(styles),
             Salts={0} if phase == "verify" else {0, 1}, U=8, Fund=100000, Depth=depth, EmitEvery=every, BUG=bug)
    d = dict(name=name, module="MC_Merkle", constants=c, invariants=["NoViolation", "Refines"],
             thorough=thorough or {}, cfg=dict(flavour=flavour, mode=mode, u=8))
    if bug:
        d.update(expect="violation", invariants=["NoViolation"], thorough={})
        d["constants"]["EmitEvery"] = 0
    return d


MODEL = dict(
    bin="merkle",
    trace="Trace_Merkle",
    mc=[
        # every tree, every leaf, the honest proof and every single corruption, one call deep (all emitted)
        _mc("verify_s", "lib", "s", "verify", {1, 2, 3, 4}, S_ALL, 1, 1, thorough=dict(Ns={1, 2, 3, 4, 5, 6})),
        _mc("verify_p", "lib", "p", "verify", {1, 2, 3, 4}, P_ALL, 1, 1, thorough=dict(Ns={1, 2, 3, 4, 5, 6})),
        # histories of set_root / claim (honest, corrupted, repeated, foreign proofs, root changes)
        _mc("dist_s", "lib", "s", "dist", {2, 3}, {"promote", "heap"}, 4, 20,
            thorough=dict(Ns={1, 2, 3, 4}, Styles=S_ALL, Depth=5, EmitEvery=150)),
        _mc("dist_p", "lib", "p", "dist", {2, 3}, P_ALL, 4, 20,
            thorough=dict(Ns={1, 2, 3, 4}, Depth=5, EmitEvery=80)),
        _mc("airdrop", "airdrop", "s", "dist", {2, 3}, {"promote", "heap"}, 4, 20,
            thorough=dict(Ns={1, 2, 3, 4}, Styles=S_ALL, Depth=5, EmitEvery=150)),
        # vacuity guards: seeded model bugs must be seen by the monitors
        _mc("early_exit", "lib", "s", "verify", {1, 2, 3}, S_ALL, 1, 0, bug="early_exit"),
        _mc("index_ignored", "lib", "p", "verify", {1, 2, 3}, P_ALL, 1, 0, bug="index_ignored"),
        _mc("no_claimed_check", "lib", "s", "dist", {2, 3}, {"promote"}, 3, 0, bug="no_claimed_check"),
        _mc("mark_before_verify", "lib", "p", "dist", {2, 3}, {"dup"}, 3, 0, bug="mark_before_verify"),
    ],
    quick=dict(sample=4000, drive_runs=400, drive_len=40),
    thorough=dict(sample=None, drive_runs=8000, drive_len=60, tlc_timeout=3000),
    need=[("verify", "ok"), ("verify", "fail"), ("claim", "ok"), ("claim", "fail"), ("set_root", "ok")],
    need_cnt=["C17_accept", "C17_reject", "C17_once", "C17_marked", "C17_failed_marks_nothing", "C17_airdrop"],
    selftest=[
        # an honest proof reported as rejected
        lambda ev: set_field(ev, ["ret"], "false") if ev["op"]["op"] == "verify" and ev["op"]["corr"] == "none"
        and ev["ret"] == "true" else None,
        # a corrupted proof reported as accepted
        lambda ev: set_field(ev, ["ret"], "true") if ev["op"]["op"] == "verify" and ev["ret"] == "false"
        and ev["op"]["corr"] in ("leaf", "alter", "root") else None,
        # a claim with an altered leaf reported as successful
        lambda ev: set_field(ev, ["res"], "ok") if ev["op"]["op"] == "claim" and ev["res"] == "fail"
        and ev["op"]["corr"] == "leaf" else None,
        # a failed claim that marks an index
        lambda ev: set_field(ev, ["obs", "claimed"], ev["obs"]["claimed"] + [15]) if ev["op"]["op"] == "claim"
        and ev["res"] == "fail" and 15 not in ev["obs"]["claimed"] else None,
        # a successful claim that leaves its index unmarked
        lambda ev: set_field(ev, ["obs", "claimed"], [i for i in ev["obs"]["claimed"] if i != ev["op"]["pos"]])
        if ev["op"]["op"] == "claim" and ev["res"] == "ok" and ev["op"]["corr"] == "none" else None,
        # the airdrop pays one unit too much
        lambda ev: set_field(ev, ["obs", "bal"], [b + (1 if k == ev["op"]["pos"] else 0) for k, b in enumerate(ev["obs"]["bal"])])
        if ev["op"]["op"] == "claim" and ev["res"] == "ok" and ev["obs"]["pool"] > 0 else None,
        # a repeated claim reported as successful
        lambda ev: set_field(ev, ["res"], "ok") if ev["op"]["op"] == "claim" and ev["res"] == "fail"
        and ev["op"]["corr"] == "none" and ev["op"]["pos"] in ev["obs"]["claimed"] else None,
    ],
)
SERVES = {
    "C17": dict(assumptions=[
        "hashes are collision-free: rejection is decided on terms of a free algebra, the real trees are built from "
        "distinct seeded random leaves (verify) / XDR-encoded (index, receiver, amount) records (claims)",
        "an interior node presented as a leaf of a sorted-pair tree is the documented caveat and is logged, not judged",
        "each run uses one pairing rule (sorted-pair or positional) for tree construction and verification",
    ]),
}
