"""Timelock (C08): thin contract over stellar_governance::timelock + the timelock-controller example
(external admin, no executors), both driving a logging target contract."""
from common import set_field

NAME = "Timelock"
U32MAX = 1 << 30          # model image of u32::MAX (spec/Timelock.tla)
_c = dict(Univ="std", Sched={"A", "B"}, Delays={0, 1, 2, U32MAX}, Mins={0, 2}, DTs={0, 1, 2},
          HashIds={"A"}, Now0=10, Min0=1, BUG="none", Emit=False)


def _flip_state(ev):
    o = ev["obs"]["ops"]["A"]
    o["state"] = "Ready" if o["state"] != "Ready" else "Waiting"
    return ev


def _bump_ledger(ev):
    for k, o in ev["obs"]["ops"].items():
        if o["state"] in ("Waiting", "Ready"):
            o["ledger"] += 1
            return ev
    return None


def _total(ev):
    ev["obs"]["total"] += 1
    return ev


def _calls(ev):
    o = ev["obs"]["ops"]["A"]
    if o["calls"] == 0:
        return None
    o["calls"] -= 1
    return ev


def _same(ev):
    if ev["op"]["op"] != "hash":
        return None
    ev["obs"]["same"] = not ev["obs"]["same"]
    return ev


def _done_not_absorbing(ev):
    # a refused call on a Done operation reported as successful
    o = ev["op"]
    if o["op"] in ("execute", "cancel", "schedule") and ev["res"] == "fail" and ev["obs"]["ops"][o["id"]]["state"] == "Done":
        ev["res"] = "ok"
        return ev
    return None


MODEL = dict(
    bin="timelock",
    trace="Trace_Timelock",
    mc=[
        # A (no predecessor) and B (predecessor A): every interleaving of schedule / execute / cancel /
        # set_min_delay with ledger steps 0..2 around the ready ledger
        dict(name="chain", module="MC_Timelock",
             constants=dict(_c, Depth=4, Emit=True),
             thorough=dict(Depth=5, Delays={0, 1, 2, 3, U32MAX}),
             invariants=["NoViolation", "Refines"]),
        # C (predecessor never scheduled) and D (target panics), cancel on never-scheduled ids
        dict(name="orphans", module="MC_Timelock",
             constants=dict(_c, Sched={"C", "D"}, Delays={1, U32MAX}, Mins={0}, HashIds=set(), Depth=4, Emit=True),
             thorough=dict(Depth=5, Delays={0, 1, 2, U32MAX}),
             invariants=["NoViolation", "Refines"]),
        # all three predecessor shapes together (thorough only goes deeper)
        dict(name="all", module="MC_Timelock",
             constants=dict(_c, Sched={"A", "B", "C"}, Delays={0, 2, U32MAX}, Mins={2}, DTs={0, 2}, HashIds=set(),
                            Depth=5, Emit=True),
             thorough=dict(Depth=6),
             invariants=["NoViolation", "Refines"]),
        # an operation naming itself as predecessor can never run (not constructible with a real
        # hash, hence design level only: no behaviours emitted)
        dict(name="selflink", module="MC_Timelock",
             constants=dict(_c, Univ="self", HashIds=set(), Depth=4),
             thorough=dict(Depth=5),
             invariants=["NoViolation", "Refines"]),
        # vacuity guards: seeded design bugs make the monitors fail
        dict(name="nonvacuous", module="MC_Timelock",
             constants=dict(_c, BUG="early", Sched={"A"}, Depth=3),
             invariants=["NoViolation"], expect="violation"),
        dict(name="nonvacuous_once", module="MC_Timelock",
             constants=dict(_c, BUG="cancel_done", Sched={"A"}, Depth=4),
             invariants=["NoViolation"], expect="violation"),
        dict(name="nonvacuous_self", module="MC_Timelock",
             constants=dict(_c, Univ="self", BUG="self_pred", Sched={"A"}, Depth=3),
             invariants=["NoViolation"], expect="violation"),
        dict(name="nonvacuous_resched", module="MC_Timelock",
             constants=dict(_c, BUG="resched", Sched={"A"}, Depth=3),
             invariants=["NoViolation"], expect="violation"),
    ],
    quick=dict(sample=2500, drive_runs=320, drive_len=40),
    thorough=dict(sample=40000, drive_runs=8000, drive_len=60),
    need=[("schedule", "ok"), ("schedule", "fail"), ("execute", "ok"), ("execute", "fail"), ("cancel", "ok"),
          ("cancel", "fail"), ("set_min_delay", "ok"), ("hash", "ok")],
    selftest=[_flip_state, _bump_ledger, _total, _calls, _same, _done_not_absorbing],
)
SERVES = {
    "C08": dict(assumptions=[
        "u32 ledgers/delays within 2^29 of u32::MAX are recorded as 2^30 - (u32::MAX - x); runs use ledgers < 2^29 "
        "(saturating ready ledgers are reached by near-maximal delays, not by advancing the ledger to u32::MAX)",
        "an operation naming itself as predecessor would need a fixed point of the id hash: covered by the "
        "exhaustive model only",
    ]),
}
