"""FeeForwarder (C19): both fee-forwarder examples and a thin contract over the fee-abstraction library,
over thin Base fee tokens and a logging target with a failing mode."""
from common import set_field

NAME = "FeeForwarder"

STRATEGY = dict(permissionless="Eager", permissioned="Lazy")
ALL_DIFFS = {"none", "token", "max", "exp", "target", "fn", "args", "absent", "noappr", "notgt"}
T, F = True, False


def _mc(name, flavour, strategy=None, bug="", depth=2, tdepth=3, every=20, tevery=20, **over):
    strategy = strategy or STRATEGY[flavour]
    c = dict(Flavour=flavour, Strategy=strategy, Fund=3,
             Fees={1}, Maxs={2}, DEs={1}, WithNeg=False, DTs={0}, Users={"u"}, Rels={"r"}, RAuths={T},
             Diffs={"none"}, TFns={"hit"}, TFails={F}, FToks={"t1"}, ApprAmts=set(), ApprDEs={0, 5},
             LToks=set(), Opers={"m"}, OAuths={T}, Depth=depth, EmitEvery=every, BUG=bug)
    c.update(over)
    d = dict(name=name + ("_" + bug if bug else ""), module="MC_FeeForwarder", constants=c,
             invariants=["NoViolation", "Refines"], thorough=dict(Depth=tdepth, EmitEvery=tevery),
             cfg=dict(flavour=flavour, strategy=strategy, fund=c["Fund"]))
    if bug:
        d.update(expect="violation", invariants=["NoViolation"], thorough={})
        d["constants"]["EmitEvery"] = 0
    return d


# all fee / max pairs in {-1,0,1,2,3}^2, expiration - now in {-1,0,1}, pre-existing allowance {0 .. max+1} live or
# expired at the forward; the user's authorization differing in each single component / absent / without the nested
# approve or target call, target demanding the user's authorization itself, failing target; relayer with / without
# role and authorization; user = forwarder
_full = dict(Fees={0, 1, 2, 3}, Maxs={0, 1, 2, 3}, DEs={0, 1}, WithNeg=T, DTs={0, 1},
             Diffs=ALL_DIFFS, TFns={"hit", "hit_auth"}, TFails={F, T}, Rels={"r", "q"}, RAuths={T, F},
             Users={"u", "fw"}, ApprAmts={0, 1, 2, 3, 4}, ApprDEs={0, 5})
# allow / disallow histories over three tokens interleaved with forwards in two of them
_list = dict(LToks={"t1", "t2", "t3"}, FToks={"t1", "t2"}, Opers={"m", "r"}, OAuths={T, F})

MODEL = dict(
    bin="feefwd",
    trace="Trace_FeeForwarder",
    mc=[
        _mc("pl", "permissionless", depth=2, tdepth=3, every=12, tevery=15, **_full),
        _mc("pd", "permissioned", depth=2, tdepth=3, every=12, tevery=15, **_full),
        _mc("pd_list", "permissioned", depth=5, tdepth=6, every=15, tevery=4, **_list),
        _mc("lib_eager_list", "lib", "Eager", depth=4, tdepth=5, every=4, tevery=4,
            LToks={"t1", "t2", "t3"}, FToks={"t1", "t2"}, Fees={1, 2}, Maxs={1, 2}),
        _mc("lib_lazy", "lib", "Lazy", depth=2, tdepth=3, every=6, tevery=6,
            **dict(_full, Fees={0, 1, 3}, Maxs={1, 2}, WithNeg=F, Users={"u"}, Rels={"r"}, RAuths={T})),
        # vacuity guards: seeded model bugs must be seen by the monitors
        _mc("pd", "permissioned", bug="fee_gt_max", depth=2, **_full),
        _mc("pl", "permissionless", bug="target_first", depth=2, **_full),
        _mc("pd_list", "permissioned", bug="swap_no_index", depth=4, **_list),
        _mc("pd_list", "permissioned", bug="list_not_checked", depth=3, **_list),
        _mc("pl", "permissionless", bug="args_not_bound", depth=2, **_full),
        _mc("lib_eager", "lib", "Eager", bug="eager_keeps_higher", depth=2, **dict(_full, Users={"u"})),
    ],
    quick=dict(sample=4500, drive_runs=360, drive_len=40),
    thorough=dict(sample=None, drive_runs=6000, drive_len=60, tlc_timeout=3000),
    need=[(o, r) for o in ("forward", "approve", "allow", "disallow", "sweep") for r in ("ok", "fail")],
    need_cnt=["C19_auth", "C19_charge", "C19_target", "C19_atomic", "C19_allowance", "C19_allowlist",
              "C19_allowed_getter", "C19_list_enum", "C19_list_edit"],
    selftest=[
        # a successful forward that charged the user one unit less
        lambda ev: set_field(ev, ["obs", "bal", ev["op"]["tok"], ev["op"]["user"]],
                             ev["obs"]["bal"][ev["op"]["tok"]][ev["op"]["user"]] + 1)
        if ev["op"]["op"] == "forward" and ev["res"] == "ok" else None,
        # a forward refused by the code reported as accepted
        lambda ev: set_field(ev, ["res"], "ok") if ev["op"]["op"] == "forward" and ev["res"] == "fail" else None,
        # a failed forward whose target effect persisted
        lambda ev: set_field(ev, ["obs", "tg", "tg1", "n"], ev["obs"]["tg"]["tg1"]["n"] + 1)
        if ev["op"]["op"] == "forward" and ev["res"] == "fail" else None,
        # one unit more left usable by the forwarder than the strategy documents
        lambda ev: set_field(ev, ["obs", "al", ev["op"]["tok"], ev["op"]["user"], "amt"],
                             ev["obs"]["al"][ev["op"]["tok"]][ev["op"]["user"]]["amt"] + 1)
        if ev["op"]["op"] == "forward" and ev["res"] == "ok" else None,
        # stale index entry after a removal
        lambda ev: set_field(ev, ["obs", "list", "idx", ev["obs"]["list"]["at"][0]], 1)
        if ev["obs"]["list"]["cnt"] >= 1 else None,
        # enumeration slot not cleared
        lambda ev: set_field(ev, ["obs", "list", "at"], ev["obs"]["list"]["at"][:3] + ["t1"])
        if ev["op"]["op"] in ("allow", "disallow") else None,
        # is_allowed_fee_token disagreeing with the list
        lambda ev: set_field(ev, ["obs", "list", "allowed", "t2"], not ev["obs"]["list"]["allowed"]["t2"]),
        # a library getter that trapped
        lambda ev: set_field(ev, ["obs", "list", "getter_ok"], False),
        # a sweep that reports one unit less than it paid out
        lambda ev: set_field(ev, ["ret"], ev["ret"] - 1) if ev["op"]["op"] == "sweep" and ev["res"] == "ok" else None,
        # a refused sweep reported as accepted
        lambda ev: set_field(ev, ["res"], "ok") if ev["op"]["op"] == "sweep" and ev["res"] == "fail" and ev["err"] != -9 else None,
        # a duplicate allow reported as accepted
        lambda ev: set_field(ev, ["res"], "ok") if ev["op"]["op"] == "allow" and ev["res"] == "fail" else None,
    ],
)
SERVES = {
    # beyond the listed properties: sweeping the collected fees out of the forwarder (monitors X06_*)
    "X06": dict(assumptions=[
        "sweep_tokens of the permissioned example (gated by the manager role) and the library's sweep_token behind a thin "
        "ungated entry point; the permissionless example has no such entry point (calls are recorded as refused)"]),
    "C19": dict(assumptions=[
        "fee tokens are Base fungible tokens (allowance = amount + live_until_ledger); the target is a logging "
        "contract of the harness; the user's authorization is an explicit mock authorization tree, so 'the user "
        "authorized' means an entry for the user's address with exactly that root invocation and sub-invocations",
        "the allow-list enumeration (Count, Token(i), TokenIndex(t)) has no getter in the library or the examples; it is "
        "read from the forwarder's storage under the public FeeAbstractionStorageKey",
        "the approval strategy is fixed by each example (permissionless: Eager, permissioned: Lazy); the other "
        "combinations are exercised through a thin contract forwarding 1:1 to the library",
    ]),
}
