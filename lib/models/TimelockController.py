"""TimelockController (C09): the real timelock-controller example deployed as its own admin; the
controller's authorization is a genuine authorization entry whose signature is a crafted
Vec<OperationMeta>; accounts are always-yes / always-no custom-account contracts."""
from common import set_field

NAME = "TimelockController"
ALL_OPS = {"U0", "U3", "GX", "GP", "RX", "RP", "SR", "TA", "RN"}
ALL_CALLS = {"ud0", "ud3", "grXs", "grPs", "rvXx", "rvPp", "sra", "tar", "rna"}
_c = dict(Execs0=set(), SchedOps={"U0"}, SchedWhos={"p"}, ExecWhos={"none"}, Auths={True}, Delays={1}, DTs={0, 1},
          Calls={"ud0"}, Entries={True}, DPreds={"none"}, DSalts={0}, DExecs={"none"}, MetaLens={1}, Subs={"none"},
          XAuths={"none"}, ChkCtxs=set(), Now0=10, Min0=1, BUG_C09_ZIP=False, Emit=True)
_payload = dict(_c, SchedOps={"U0", "U0s"}, DSalts={0, 1}, DPreds={"none", "E"}, MetaLens={0, 1, 2},
                Subs={"none", "ud0"}, Entries={True, False},
                ChkCtxs={"ud0", "foreign", "create", "ud0_ud3", "ud0_ud0", "ud0_foreign", "empty"})


def _min(ev):
    ev["obs"]["min"] += 1
    return ev


def _empty_through(ev):
    o = ev["op"]
    if o["op"] == "admin" and ev["res"] == "fail" and not o["metas"]:
        ev["res"] = "ok"
        return ev
    return None


def _not_consumed(ev):
    # a successful admin call whose operation is afterwards still reported Ready
    o = ev["op"]
    if o["op"] == "admin" and ev["res"] == "ok":
        for k, v in ev["obs"]["ops"].items():
            if v == "Done":
                ev["obs"]["ops"][k] = "Ready"
        return ev
    return None


def _sched_without_role(ev):
    o = ev["op"]
    if o["op"] == "schedule" and ev["res"] == "fail" and (not o["auth"] or [o["who"], "proposer"] not in ev["obs"]["roles"]):
        ev["res"] = "ok"
        return ev
    return None


def _role(ev):
    if ["s", "executor"] in ev["obs"]["roles"]:
        return None
    ev["obs"]["roles"].append(["s", "executor"])
    return ev


def _exec_unauthorized(ev):
    # executors configured, the named executor did not authorize, yet the call is reported successful
    o = ev["op"]
    if (o["op"] == "admin" and ev["res"] == "fail" and o["metas"] and o["metas"][0]["exec"] not in o["xauth"]
            and any(r[1] == "executor" for r in ev["obs"]["roles"])):
        ev["res"] = "ok"
        return ev
    return None


MODEL = dict(
    bin="tlcontroller",
    trace="Trace_TimelockController",
    mc=[
        # descriptor vectors of length 0..2 (right / wrong salt / wrong predecessor) against 1..2 contexts
        # (with / without a sub-invocation in the controller's entry), entry present / absent, and the
        # direct __check_auth entry with foreign-contract and create-contract contexts; no executors
        dict(name="payload", module="MC_TimelockController",
             constants=dict(_payload, Depth=3),
             thorough=dict(Depth=4),
             invariants=["NoViolation", "Refines"]),
        # executors configured (x accepts, n refuses): descriptor executor in {absent, stranger, role but
        # refusing, role and authorizing} x every set of attached executor authorizations; execute_op by
        # every caller with / without authorization
        dict(name="executor", module="MC_TimelockController",
             constants=dict(_c, Execs0={"x", "n"}, SchedOps={"U0", "E"}, DExecs={"none", "x", "n", "s"}, MetaLens={0, 1},
                            XAuths={"none", "x", "n", "s", "xns"},
                            ExecWhos={"none", "x", "n", "s"}, Auths={True, False}, ChkCtxs={"ud0"}, Depth=3),
             thorough=dict(Depth=4),
             invariants=["NoViolation", "Refines"]),
        # the executor configuration itself changes through consumed operations (grant s / revoke x)
        dict(name="execcfg", module="MC_TimelockController",
             constants=dict(_c, Execs0={"x"}, SchedOps={"U0", "RX", "GX"}, Calls={"ud0", "rvXx", "grXs"},
                            DExecs={"none", "x", "s"}, MetaLens={0, 1}, XAuths={"none", "x", "s"}, DTs={1}, Depth=4),
             thorough=dict(Depth=5),
             invariants=["NoViolation", "Refines"]),
        # every admin-only entry point, operation unset / waiting / ready / done / cancelled
        dict(name="entrypoints", module="MC_TimelockController",
             constants=dict(_c, SchedOps=ALL_OPS, Calls=ALL_CALLS, MetaLens={0, 1}, Depth=3),
             thorough=dict(Depth=4),
             invariants=["NoViolation", "Refines"]),
        # proposer / canceller / executor role and authorization of schedule_op, cancel_op, execute_op
        dict(name="roles", module="MC_TimelockController",
             constants=dict(_c, Execs0={"x", "n"}, SchedOps={"E"}, SchedWhos={"p", "s", "x", "n"},
                            ExecWhos={"none", "p", "x", "n", "s"}, Auths={True, False}, Calls=set(), Delays={0, 1}, Min0=0, Depth=3),
             thorough=dict(Depth=4),
             invariants=["NoViolation", "Refines"]),
        dict(name="roles_open", module="MC_TimelockController",
             constants=dict(_c, SchedOps={"E", "GP", "RP"}, SchedWhos={"p", "s"}, ExecWhos={"none", "s"}, Auths={True, False},
                            Calls={"rvPp", "grPs"}, MetaLens={1}, Delays={0}, Min0=0, DTs={0}, Depth=4),
             thorough=dict(Depth=5),
             invariants=["NoViolation", "Refines"]),
        # predecessor chains: U0p needs the external operation E executed first
        dict(name="pred", module="MC_TimelockController",
             constants=dict(_c, SchedOps={"E", "U0p"}, DPreds={"none", "E"}, Delays={0}, Min0=0, DTs={0}, ChkCtxs={"ext"}, Depth=4),
             thorough=dict(Depth=5, DTs={0, 1}),
             invariants=["NoViolation", "Refines"]),
        # two ready operations consumed by one payload, executors configured: the executor's authorization is needed for
        # each (context, descriptor) pair - complete, absent, or left out for the second pair only
        dict(name="batch", module="MC_TimelockController",
             constants=dict(_c, Execs0={"x"}, SchedOps={"U0", "U3"}, Calls=set(), ChkCtxs={"ud0", "ud0_ud3"}, MetaLens={1, 2},
                            DExecs={"x"}, XAuths={"none", "x"}, DTs={1}, Depth=3),
             thorough=dict(Depth=4, DTs={0, 1}), replay_all=True,
             invariants=["NoViolation", "Refines"]),
        # vacuity guard: the pinned code (contexts zipped with descriptors, no length check)
        dict(name="nonvacuous", module="MC_TimelockController",
             constants=dict(_payload, Depth=2, BUG_C09_ZIP=True, Emit=False),
             invariants=["NoViolation"], expect="violation"),
    ],
    quick=dict(sample=3000, drive_runs=320, drive_len=40),
    thorough=dict(sample=40000, drive_runs=6000, drive_len=60),
    need=[("schedule", "ok"), ("schedule", "fail"), ("cancel", "ok"), ("cancel", "fail"), ("execute", "ok"),
          ("execute", "fail"), ("admin", "ok"), ("admin", "fail"), ("chk", "ok"), ("chk", "fail")],
    selftest=[_min, _empty_through, _not_consumed, _sched_without_role, _role, _exec_unauthorized],
)
SERVES = {
    "C09": dict(assumptions=[
        "accounts are custom-account contracts that accept (p, x, s) or refuse (n) every request for which an "
        "authorization entry is attached; signature verification of ordinary accounts is the host's",
        "operation ids are injective in (target, function, args, predecessor, salt) (C08_id)",
    ]),
}
