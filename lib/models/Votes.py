"""Votes (C13; votes flavour of C01): fungible-votes example, thin burnable votes token, thin NFT-votes contract."""
from common import ABC, set_field

NAME = "Votes"
_c = dict(Acct=ABC, Amts={1, 2}, DTs={0, 1, 2}, Now0=2, BUG="none")


def _bump(ev, path):
    """ev with the number at `path` increased by one."""
    cur = ev
    for k in path[:-1]:
        cur = cur[k]
    cur[path[-1]] = cur[path[-1]] + 1
    return ev


def _past(ev):
    # one answer about a past ledger altered
    if not ev["obs"]["past"]:
        return None
    return _bump(ev, ["obs", "past", len(ev["obs"]["past"]) // 2, "v", "a"])


def _past_total(ev):
    if not ev["obs"]["past"]:
        return None
    return _bump(ev, ["obs", "past", 0, "t"])


def _transfer_succeeds(ev):
    # a refused transfer reported as successful although no balance moved
    o = ev["op"]
    if o["op"] == "transfer" and ev["res"] == "fail" and o["amt"] > 0 and o["from"] != o["to"] and ev["obs"]["supply"] >= 0:
        return set_field(ev, ["res"], "ok")
    return None


def _mint_fails(ev):
    # a successful mint reported as refused although balances, supply and votes moved
    o = ev["op"]
    if o["op"] == "mint" and ev["res"] == "ok" and o["amt"] > 0 and ev["obs"]["supply"] >= 0:
        return set_field(ev, ["res"], "fail")
    return None


def _delegate_unauthorised(ev):
    o = ev["op"]
    if o["op"] == "delegate" and ev["res"] == "ok" and o["from"] in o["auth"]:
        o["auth"] = [x for x in o["auth"] if x != o["from"]]
        return ev
    return None


MODEL = dict(
    bin="votes",
    trace="Trace_Votes",
    mc=[
        # every subset of the parties of a call authorising; emits 2-call behaviours
        dict(name="auth", module="MC_Votes",
             constants=dict(_c, Auths="parties", Depth=1, Emit=True),
             constraints=[], action_constraints=["EmitBound"],
             invariants=["NoViolation", "Refines"]),
        # the code as it is, exactly the required party authorising; emits 3-call behaviours
        dict(name="code", module="MC_Votes",
             constants=dict(_c, Auths="exact", Depth=2, Emit=True),
             constraints=[], action_constraints=["EmitBound"],
             invariants=["NoViolation", "Refines"]),
        # one level deeper (4-call histories), nothing emitted; quick: unit amounts, gaps of 0 or 2 ledgers
        dict(name="deep", module="MC_Votes",
             constants=dict(_c, Amts={1}, DTs={0, 2}, Auths="exact", Depth=3, Emit=False),
             thorough=dict(Amts={1, 2}, DTs={0, 1, 2}),
             invariants=["NoViolation", "Refines"]),
        # two accounts, longer histories (5 calls; 6 in the thorough tier)
        dict(name="narrow", module="MC_Votes",
             constants=dict(_c, Acct={"a", "b"}, Amts={1}, DTs={0, 1}, Auths="exact", Depth=4, Emit=False),
             thorough=dict(Depth=5),
             invariants=["NoViolation", "Refines"]),
        # vacuity guards: an off-by-one in the binary search (< for <=) makes C13_past fail; a push within
        # the same ledger that appends a second checkpoint breaks the strictly-increasing part of Refines
        dict(name="nonvacuous", module="MC_Votes",
             constants=dict(_c, BUG="search", Auths="exact", Depth=3, Emit=False),
             invariants=["NoViolation"], expect="violation"),
        dict(name="nonvacuous_append", module="MC_Votes",
             constants=dict(_c, BUG="append", Auths="exact", Depth=2, Emit=False),
             invariants=["Refines"], expect="violation"),
        dict(name="nonvacuous_stale", module="MC_Votes",
             constants=dict(_c, BUG="stale", Auths="exact", Depth=2, Emit=False),
             invariants=["NoViolation"], expect="violation"),
    ],
    quick=dict(sample=2500, drive_runs=288, drive_len=40),
    # thorough: a fifth of the 2- and 3-call behaviours TLC emits (each on every applicable flavour)
    thorough=dict(sample=40000, drive_runs=1600, drive_len=60),
    need=[("mint", "ok"), ("mint", "fail"), ("burn", "ok"), ("burn", "fail"), ("transfer", "ok"),
          ("transfer", "fail"), ("delegate", "ok"), ("delegate", "fail"), ("approve", "ok"),
          ("xfer_from", "ok"), ("xfer_from", "fail"), ("burn_from", "ok"), ("burn_from", "fail")],
    selftest=[
        lambda ev: _bump(ev, ["obs", "votes", "a"]),
        lambda ev: _bump(ev, ["obs", "total"]),
        lambda ev: _bump(ev, ["obs", "units", "b"]),
        lambda ev: set_field(ev, ["obs", "deleg", "a"], "c" if ev["obs"]["deleg"]["a"] != "c" else "b"),
        _past,
        _past_total,
        lambda ev: set_field(ev, ["obs", "fut", 0, "v"], "ok"),
        lambda ev: set_field(ev, ["obs", "futmax", "t"], "ok"),
        lambda ev: _bump(ev, ["obs", "supply"]) if ev["obs"]["supply"] >= 0 else None,
        lambda ev: _bump(ev, ["obs", "bal", "c"]) if ev["obs"]["supply"] >= 0 else None,
        _transfer_succeeds,
        _mint_fails,
        _delegate_unauthorised,
    ],
)
SERVES = {
    "C13": dict(assumptions=[
        "voting units are read with the library's public read-only get_voting_units inside the contract's frame "
        "(the Votes trait exposes no entry point for them)",
        "past ledgers are queried exhaustively back to ledger 0 while now <= 48, afterwards in a sliding window of "
        "40 ledgers plus every 7th older ledger",
        "amounts stay far below u128/i128 limits (no overflow regime in this model)"]),
    "C01": dict(),
}
