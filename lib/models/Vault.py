"""Vault (C05; vault-share flavour of C01 and C02): fungible-vault example over a thin Base asset token."""
from common import set_field

NAME = "Vault"


def _mc(off, bug="", depth=3, tdepth=3, every=60, tevery=10, amts=(0, 1, 2, 3)):
    c = dict(Off=off, Amts=set(amts), Fund=6, Depth=depth, EmitEvery=every, BUG=bug)
    d = dict(name="off%d%s" % (off, "_" + bug if bug else ""), module="MC_Vault", constants=c,
             invariants=["NoViolation", "Refines"], thorough=dict(Depth=tdepth, EmitEvery=tevery),
             cfg=dict(off=off, fund=6))
    if bug:
        d.update(expect="violation", invariants=["NoViolation"], thorough={})
        d["constants"]["EmitEvery"] = 0
    return d


MODEL = dict(
    # unbounded amounts and offsets: Apalache shows that no operation lowers the rate (A+1)/(S+P) (thorough tier)
    proofs=[dict(name="ApaVault", cmd=["lib/apalache.sh", "ApaVault"], tiers=("thorough",))],
    bin="vault",
    trace="Trace_Vault",
    mc=[
        _mc(0, depth=4, tdepth=4, every=20, tevery=2, amts=(0, 1, 3)),
        _mc(1, depth=3, tdepth=4, every=1, tevery=10),
        _mc(1, bug="withdraw_floor"),
        _mc(0, bug="mint_floor"),
        _mc(0, bug="no_plus_one"),
        _mc(1, bug="preview_other_rounding"),
    ],
    quick=dict(sample=5000, drive_runs=480, drive_len=40),
    thorough=dict(sample=None, drive_runs=12000, drive_len=60, tlc_timeout=3000),
    need=[(o, r) for o in ("deposit", "mint", "withdraw", "redeem", "donate", "stransfer", "stransfer_from")
          for r in ("ok", "fail")],
    selftest=[
        lambda ev: set_field(ev, ["ret"], ev["ret"] + 1) if ev["res"] == "ok" and ev["op"]["op"] in ("deposit", "redeem") and ev["ret"] > 0 else None,
        lambda ev: set_field(ev, ["pv"], ev["pv"] + 1) if ev["res"] == "ok" and ev["op"]["op"] in ("mint", "withdraw") else None,
        lambda ev: set_field(ev, ["obs", "asset", "v"], ev["obs"]["asset"]["v"] - 1) if ev["res"] == "ok" and ev["op"]["op"] == "deposit" and ev["op"]["x"] > 0 else None,
        lambda ev: set_field(ev, ["obs", "supply"], ev["obs"]["supply"] + 1),
        lambda ev: set_field(ev, ["evs"], []) if any(x.get("k") in ("deposit", "withdraw", "transfer", "mint", "burn") for x in ev["evs"]) else None,
    ],
)
SERVES = {
    "C05": dict(assumptions=["this model uses magnitudes whose products fit TLC's 32-bit integers (offset 0..2, amounts up to a "
                             "few hundred); larger magnitudes are covered by the limb-arithmetic model (VaultBig) where present"]),
    "C01": dict(),
    "C02": dict(),
}
