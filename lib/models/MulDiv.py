"""MulDiv (C12): mul_div_i128 / checked_mul_div_i128 / mul_div_i256 / checked_mul_div_i256 and the Wad API."""
from common import set_field

NAME = "MulDiv"

# branch classes reachable at small width (exactly ReachableClasses of MC_MulDiv; enumerated for W = 5)
_CLASSES = (["zero_den"]
            + ["%s_%s_%s%s_fits" % (a, m, sp, sd) for a in ("narrow", "wide") for m in ("floor", "ceil", "trunc")
               for sp in "pn" for sd in "pn"]
            + ["narrow_%s_z%s_fits" % (m, sd) for m in ("floor", "ceil", "trunc") for sd in "pn"]
            + ["wide_%s_%s%s_over" % (m, sp, sd) for m in ("floor", "ceil", "trunc") for sp in "pn" for sd in "pn"]
            + ["narrow_%s_nn_over" % m for m in ("floor", "ceil", "trunc")])


def _mc(w, bug="", tw=None):
    d = dict(name="w%d%s" % (w, "_" + bug if bug else ""), module="MC_MulDiv", constants=dict(W=w, BUG=bug),
             invariants=["Correct", "ClassKnown"], view=None, constraints=[], action_constraints=[])
    if tw:
        d["thorough"] = dict(W=tw)
    if bug:
        d.update(expect="violation", invariants=["Correct"])
    return d


def _bump(ev, key):
    # corrupt a logged quotient: add one to its lowest limb
    m = list(ev[key]["m"]) or [0]
    m[0] = (m[0] + 1) % 32768
    ev[key] = dict(ev[key], m=m)
    return ev


MODEL = dict(
    bin="muldiv",
    trace="Trace_MulDiv",
    mc=[_mc(4), _mc(5, tw=6), _mc(4, bug="no_widen"), _mc(4, bug="min_neg_one")],
    # "runs" x "len" cases per worker; every case is judged by definition with BigInt arithmetic (slow: ~30 cases/s/worker)
    quick=dict(sample=None, drive_runs=1600, drive_len=5),
    thorough=dict(sample=None, drive_runs=40000, drive_len=5, tlc_timeout=3000, trace_timeout=14000),
    need=[("i128", "ok"), ("i128", "fail"), ("i256", "ok"), ("i256", "fail"), ("wad_mul", "ok"), ("wad_mul", "fail"),
          ("wad_div", "ok"), ("wad_div", "fail"), ("wad_ratio", "ok"), ("wad_ratio", "fail"), ("wad_pow", "ok"), ("wad_pow", "fail")],
    need_cnt=["C12_class_" + c for c in _CLASSES],
    selftest_drive=(8, 10),
    selftest=[
        lambda ev: _bump(ev, "Q") if ev["res"] == "ok" and ev["fn"] in ("i128", "wad_mul") else None,
        lambda ev: set_field(ev, ["res"], "fail") if ev["res"] == "ok" and ev["fn"] == "i128" and not ev["has2"] is False and ev["cres"] == "ok" else None,
        lambda ev: _bump(ev, "CQ") if ev["res"] == "ok" and ev["fn"] == "i256" else None,
        lambda ev: set_field(ev, ["mode"], "ceil") if ev["res"] == "ok" and ev["fn"] == "i128" and ev["mode"] == "floor" and ev["qs"] not in ("-",) and _inexact(ev) else None,
    ],
)


def _inexact(ev):
    x, y, d = (int(ev["op"][k], 16) for k in ("x", "y", "d"))
    return d != 0 and (x * y) % d != 0


SERVES = {
    "C12": dict(assumptions=["exhaustive only at small width (W = 4, 5; 6 in the thorough tier): all inputs of the transcribed "
                             "algorithm; at full width: boundary lattice, directed rare-branch cases and random values of every bit "
                             "length, each judged by definition (q*d <= x*y < (q+1)*d and sign variants) with BigInt.tla"]),
}
