"""Access (C06): nft-access-control example = AccessControl trait defaults over
packages/access/src/access_control/storage.rs + the macro-guarded entry points
(#[only_admin], #[only_role], #[has_role], #[has_any_role], #[only_any_role])."""
import copy

from common import set_field

NAME = "Access"
ABCD = {"a", "b", "c", "d"}
ROLES = {"minter", "burner", "r3"}
ALL_OPS = {"grant", "revoke", "renounce_role", "set_role_admin", "transfer", "accept", "renounce_admin",
           "admin_fn", "mint", "multi_role_action", "multi_role_auth_action", "burn"}
ENUM_OPS = {"grant", "revoke", "renounce_role"}

# the two-level authority rule: every caller x {}, {caller}, everybody else, everybody; admin chain presets
_hier = dict(Acct=ABCD, Role=ROLES, Callers=ABCD, AuthMode="few", Presets={"fresh", "chain"}, OpKinds=ALL_OPS,
             BUG="none")
# swap-and-pop enumeration: longer grant / revoke / renounce histories by entitled callers over two roles
_enum = dict(Acct=ABCD, Role={"minter", "burner"}, Callers={"a"}, AuthMode="good", Presets={"fresh", "crowd"},
             OpKinds=ENUM_OPS, BUG="none")

MODEL = dict(
    bin="access",
    trace="Trace_Access",
    mc=[
        dict(name="hier", module="MC_Access", constants=dict(_hier, Depth=2, Emit=True),
             thorough=dict(Depth=3), invariants=["NoViolation", "Refines"]),
        dict(name="enum", module="MC_Access", constants=dict(_enum, Depth=4, Emit=True),
             thorough=dict(Depth=6), invariants=["NoViolation", "Refines"]),
        # every subset of accounts authorizing (quick: three accounts, thorough: four)
        dict(name="allauth", module="MC_Access",
             constants=dict(_hier, Acct={"a", "b", "c"}, Callers={"a", "b", "c"}, AuthMode="all", Presets={"chain"},
                            Depth=2, Emit=False),
             thorough=dict(Acct=ABCD, Callers=ABCD, Presets={"fresh", "chain"}),
             invariants=["NoViolation", "Refines"]),
        # vacuity guards: TLC sees the monitors fail on plausible defects
        dict(name="nonvacuous", module="MC_Access", constants=dict(_enum, Depth=3, BUG="stale_index", Emit=False),
             invariants=["NoViolation"], expect="violation"),
        dict(name="nonvacuous2", module="MC_Access",
             constants=dict(_hier, Presets={"chain"}, Depth=1, BUG="auth_skipped", Emit=False),
             invariants=["NoViolation"], expect="violation"),
        dict(name="nonvacuous3", module="MC_Access",
             constants=dict(_hier, Presets={"chain"}, Depth=1, BUG="wrong_role", Emit=False),
             invariants=["NoViolation"], expect="violation"),
    ],
    quick=dict(sample=3000, drive_runs=240, drive_len=40),
    thorough=dict(sample=40000, drive_runs=4000, drive_len=60),
    # (no ("admin_fn", "fail") / ("set_role_admin", "fail"): a defect that lets everybody through these
    # single-check gates must surface as a VIOLATION of C06_gate, not as a vacuity tool error)
    need=[("grant", "ok"), ("grant", "fail"), ("revoke", "ok"), ("revoke", "fail"),
          ("renounce_role", "ok"), ("renounce_role", "fail"), ("set_role_admin", "ok"),
          ("transfer", "ok"), ("accept", "ok"), ("renounce_admin", "ok"), ("renounce_admin", "fail"),
          ("admin_fn", "ok"), ("mint", "ok"), ("mint", "fail"),
          ("multi_role_action", "ok"), ("multi_role_action", "fail"),
          ("multi_role_auth_action", "ok"), ("multi_role_auth_action", "fail"), ("burn", "ok"), ("burn", "fail")],
)


# ---- self-test: corruptions of one recorded event that the trace specification must reject --------
def _flip_ok(kind):
    return lambda ev: set_field(ev, ["res"], "ok") if ev["op"]["op"] == kind and ev["res"] == "fail" else None


def _burn_without_role(ev):
    # (a failed burn may also be due to an empty token stock, which the property does not care about)
    o = ev["op"]
    if o["op"] == "burn" and ev["res"] == "fail" and ev["obs"]["has"]["burner"].get(o["caller"], -1) < 0:
        ev["res"] = "ok"
        return ev
    return None


def _count_off(ev):
    ev["obs"]["count"]["minter"] += 1
    return ev


def _index_off(ev):
    for r, l in ev["obs"]["members"].items():
        if len(l) >= 2:
            a = l[0]
            ev["obs"]["has"][r][a] = 1
            return ev
    return None


def _member_swapped(ev):
    # the enumeration shows an account that does not hold the role in place of one that does
    for r, l in ev["obs"]["members"].items():
        out = [a for a in ev["obs"]["has"][r] if a not in l]
        if l and out:
            l[-1] = out[0]
            return ev
    return None


def _role_dropped(ev):
    if ev["obs"]["roles"]:
        ev["obs"]["roles"].pop()
        return ev
    return None


def _role_dup(ev):
    if ev["obs"]["roles"]:
        ev["obs"]["roles"].append(ev["obs"]["roles"][0])
        return ev
    return None


def _oob_accepted(ev):
    ev["obs"]["oob"]["burner"] = False
    return ev


def _has_lost(ev):
    for r, h in ev["obs"]["has"].items():
        for a, i in h.items():
            if i >= 0:
                h[a] = -1
                return ev
    return None


def _revoke_unauthorized(ev):
    # an authorized successful revoke re-labelled as carrying nobody's authorization
    if ev["op"]["op"] == "revoke" and ev["res"] == "ok":
        ev["op"]["auth"] = []
        return ev
    return None


def _renounce_foreign(ev):
    if ev["op"]["op"] == "renounce_role" and ev["res"] == "ok":
        ev["op"]["auth"] = [x for x in ["a", "b", "c"] if x != ev["op"]["caller"]][:2]
        return ev
    return None


MODEL["selftest"] = [
    _count_off, _index_off, _member_swapped, _role_dropped, _role_dup, _oob_accepted, _has_lost,
    _flip_ok("grant"), _flip_ok("set_role_admin"), _flip_ok("admin_fn"), _flip_ok("mint"), _burn_without_role,
    _flip_ok("multi_role_action"), _flip_ok("multi_role_auth_action"), _revoke_unauthorized, _renounce_foreign,
]

SERVES = {
    "C06": dict(assumptions=[
        "admin hand-over timing (expiry of pending transfers) is judged by RoleTransfer/C07; no ledger passes in Access histories",
        "role universe of the histories: minter, burner, r3; ownable's only_owner gate is bound by RoleTransfer's C06_gate",
    ]),
}
