"""VaultBig (C05 at real magnitudes): fungible-vault example with offsets 0..10 and amounts up to ~10^30,
judged with BigInt arithmetic.  No exhaustive configuration of its own: the design is checked by MC_Vault."""
NAME = "VaultBig"


def _bump(ev, key):
    m = list(ev[key]["m"]) or [0]
    m[0] = (m[0] + 1) % 32768
    ev[key] = dict(ev[key], m=m)
    return ev


def _bump_obs(ev, key):
    """the vault's asset balance (and the total_assets it reports) one off after a deposit"""
    for holder in (ev["obs"], ev["obs"]["asset"]):
        k = key if holder is ev["obs"] else "v"
        m = list(holder[k]["m"]) or [0]
        m[0] = (m[0] + 1) % 32768
        holder[k] = dict(holder[k], m=m)
    return ev


MODEL = dict(
    bin="vaultbig",
    trace="Trace_VaultBig",
    mc=[],
    quick=dict(sample=None, drive_runs=176, drive_len=30),
    thorough=dict(sample=None, drive_runs=7040, drive_len=40),
    need=[(o, r) for o in ("deposit", "mint", "withdraw", "redeem", "donate") for r in ("ok", "fail")],
    selftest_drive=(11, 20),
    selftest=[
        lambda ev: _bump(ev, "ret") if ev["res"] == "ok" and ev["op"]["op"] in ("deposit", "redeem") else None,
        lambda ev: _bump(ev, "pv") if ev["res"] == "ok" and ev["op"]["op"] in ("mint", "withdraw") else None,
        lambda ev: _bump_obs(ev, "A") if ev["res"] == "ok" and ev["op"]["op"] == "deposit" else None,
    ],
)
SERVES = {"C05": dict(assumptions=["at real magnitudes the vault is driven by seeded random histories only (11 offsets x 6 funding scales); "
                                   "exhaustive exploration is done at small magnitudes by MC_Vault"])}
