"""Gates (C16: pausable module through examples/pausable; upgrade / migrate flags through examples/upgradeable)."""
from common import set_field

NAME = "Gates"


def _mc(flavour, bug="", depth=5):
    d = dict(name=flavour + ("_" + bug if bug else ""), module="MC_Gates",
             constants=dict(Flavour=flavour, Depth=depth, Emit=not bug, BUG=bug),
             invariants=["NoViolation", "Refines"], cfg=dict(flavour=flavour), thorough=dict(Depth=depth + 1))
    if bug:
        d.update(expect="violation", invariants=["NoViolation"], thorough={})
    return d


MODEL = dict(
    bin="gates",
    trace="Trace_Gates",
    mc=[_mc("counter", depth=5), _mc("upgrade", depth=5), _mc("upgrade2", depth=5), _mc("upgrade2", bug="migrate_when_unset"), _mc("upgrade", bug="migrate_keeps_flag"), _mc("counter", bug="pause_twice")],
    quick=dict(sample=3000, drive_runs=160, drive_len=30),
    thorough=dict(sample=None, drive_runs=3200, drive_len=60),
    need=[("increment", "ok"), ("increment", "fail"), ("pause", "ok"), ("pause", "fail"), ("unpause", "ok"), ("unpause", "fail"),
          ("upgrade", "ok"), ("upgrade", "fail"), ("migrate", "ok"), ("migrate", "fail")],
    selftest=[
        lambda ev: set_field(ev, ["res"], "ok") if ev["op"]["op"] == "migrate" and ev["res"] == "fail" else None,
        lambda ev: set_field(ev, ["obs", "paused"], not ev["obs"]["paused"]) if ev["op"]["op"] in ("pause", "unpause") else None,
        lambda ev: set_field(ev, ["ret"], ev["ret"] + 1) if ev["op"]["op"] == "increment" and ev["res"] == "ok" else None,
    ],
)
SERVES = {
    "C16": dict(assumptions=["after a real upgrade (prebuilt v2 WASM from the repository's testdata is swapped in) the harness re-registers "
                             "the v2 example compiled from the tree at the same address, keeping instance storage, so that migrate and "
                             "the Migrating flag are exercised on tree code"]),
}
