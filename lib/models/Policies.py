"""Policies (C14): the threshold-policy and spending-limit-policy examples as they are, and a thin contract
forwarding 1:1 to the library's weighted_threshold functions."""
from common import set_field

NAME = "Policies"

S3 = {"s1", "s2", "s3"}
U32 = 2147483647  # stands for "no u32 overflow reachable" in the unit-scale weight regime


def _mc(name, flavour, depth, tdepth=None, every=0, tevery=None, bug="", cfg=None, invariants=None, **over):
    c = dict(Flavour=flavour, Sgn=S3, Ths={0, 1, 2, 3, 4}, Wts={0, 1, 2}, InstWts={1, 2}, MaxW=U32, Amts={0, 1, 2, 3},
             Limits={2, 3}, Pers={1, 2, 3}, NewLimits={0, 1, 4}, DTs={0}, Ctxs={"fn", "short", "u32", "create"},
             MaxHist=99, Depth=depth, Now0=1, EmitEvery=every, BUG=bug)
    c.update(over)
    d = dict(name=name, module="MC_Policies", constants=c, invariants=invariants or ["NoViolation", "Refines"],
             thorough=dict(Depth=tdepth or depth, EmitEvery=every if tevery is None else tevery))
    if cfg:
        d["cfg"] = cfg
    if bug:
        d.update(expect="violation", thorough={})
    return d


_T = {0, 1, 2}
MODEL = dict(
    bin="policies",
    trace="Trace_Policies",
    mc=[
        _mc("simple", "simple", 4, 5, every=3, tevery=6, cfg=dict(flavour="simple", wshift=0, ashift=0)),
        _mc("weighted", "weighted", 3, 4, every=40, tevery=600, Ths={0, 1, 2, 3, 4, 5},
            cfg=dict(flavour="weighted", wshift=0, ashift=0)),
        # weights in units of 2^24: model 255 is the largest multiple below u32::MAX, 256 overflows
        _mc("weighted_O", "weighted", 3, 4, every=30, tevery=400, Ths={0, 1, 128, 255}, Wts={1, 127, 128}, InstWts={127, 128}, MaxW=255,
            cfg=dict(flavour="weighted", wshift=24, ashift=0)),
        # history capacity out of reach: what TLC generates is what the real contract (capacity 1000) does
        _mc("spending", "spending", 4, 5, every=25, tevery=300, DTs=_T, Limits={3}, cfg=dict(flavour="spending", wshift=0, ashift=0)),
        # capacity scaled to 3, fewer configurations, deeper: eviction at the capacity edge, can_enforce's count
        _mc("spending_cap", "spending", 6, 7, MaxHist=3, DTs={0, 1, 2}, Limits={3}, Pers={2}, NewLimits={4}, Amts={0, 1},
            Ctxs={"fn"}),
        # vacuity guards: seeded model bugs must be seen by the monitors / the refinement invariant
        _mc("nv_gt_threshold", "simple", 3, bug="gt_threshold", invariants=["NoViolation"]),
        _mc("nv_absent_counts", "weighted", 3, bug="absent_counts", invariants=["NoViolation"], Ths={1, 2}),
        _mc("nv_evict_early", "spending", 4, bug="evict_early", invariants=["NoViolation"], DTs=_T),
        _mc("nv_can_no_evict", "spending", 4, bug="can_no_evict", invariants=["NoViolation"], DTs=_T),
        _mc("nv_no_auth", "spending", 3, bug="no_auth", invariants=["NoViolation"], DTs={0}),
        _mc("nv_cache_drift", "spending", 4, bug="cache_drift", invariants=["Refines"], DTs=_T),
    ],
    quick=dict(sample=4000, drive_runs=240, drive_len=40),
    thorough=dict(sample=None, drive_runs=8000, drive_len=60, tlc_timeout=3000),
    need=[(o, r) for o in ("install", "set_threshold", "set_weight", "set_limit", "enforce") for r in ("ok", "fail")]
    + [("uninstall", "ok"), ("uninstall", "fail"), ("can", "ok")],
    need_cnt=["C14_threshold", "C14_weight", "C14_config", "C14_window", "C14_agree", "C14_auth", "C14_no_trace",
              "C14_malformed"],
    selftest_drive=(30, 30),
    selftest=[
        # a refused enforce reported as accepted (threshold / weight / window, depending on the flavour)
        lambda ev: set_field(ev, ["res"], "ok") if ev["op"]["op"] == "enforce" and ev["res"] == "fail"
        and "acct" in ev["op"]["auth"] and ev["can"] == "false" else None,
        # an accepted enforce reported as refused by a threshold policy
        lambda ev: set_field(ev, ["res"], "fail") if ev["op"]["op"] == "enforce" and ev["res"] == "ok"
        and ev["obs"]["per"] == 0 else None,
        # can_enforce disagreeing with enforce
        lambda ev: set_field(ev, ["can"], "true") if ev["op"]["op"] == "enforce" and ev["can"] == "false"
        and "acct" in ev["op"]["auth"] else None,
        # a rejected attempt leaving a trace in the cached total / threshold
        lambda ev: set_field(ev, ["obs", "cached"], ev["obs"]["cached"] + 1) if ev["res"] == "fail" else None,
        lambda ev: set_field(ev, ["obs", "th"], ev["obs"]["th"] + 1) if ev["res"] == "fail" else None,
        # a zero threshold accepted
        lambda ev: set_field(ev, ["res"], "ok") if ev["op"]["op"] in ("install", "set_threshold") and ev["res"] == "fail"
        and ev["op"]["th"] == 0 and "acct" in ev["op"]["auth"] and ev["obs"]["per"] == 0 and ev["op"]["per"] == 0 else None,
        # a spend recorded with a smaller amount than the one authorized (window)
        lambda ev: set_field(ev, ["op", "amt"], ev["op"]["amt"] + 1000000) if ev["op"]["op"] == "enforce" and ev["res"] == "ok"
        and ev["obs"]["per"] > 0 else None,
        # a malformed context accepted
        lambda ev: set_field(ev, ["can"], "true") if ev["op"]["op"] == "can" and ev["op"]["ctx"] != "transfer" else None,
        # an unauthorized configuration change accepted
        lambda ev: set_field(ev, ["res"], "ok") if ev["op"]["op"] in ("install", "uninstall", "set_limit", "set_threshold")
        and ev["res"] == "fail" and "acct" not in ev["op"]["auth"] else None,
    ],
)
SERVES = {
    "C14": dict(assumptions=[
        "transfer amounts are non-negative and ledgers are >= 1 (the property's quantifier)",
        "the authenticated signers handed to a policy are distinct signers of the rule, as the smart account computes them",
        "a re-installed policy starts a new spending history (uninstalling is the account's own decision)",
        "weight regime O maps the model unit to 2^24 so that u32 overflow of weight sums is reachable; "
        "amount regime O maps the unit to 2^124",
    ]),
}
