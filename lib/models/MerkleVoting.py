"""MerkleVoting (beyond the listed properties, X04): the merkle-voting example (Merkle-proof eligibility, one vote
per leaf index, two cached tallies)."""
from common import set_field

NAME = "MerkleVoting"
EXTRA = True


def _mc(name, regime, authreq=False, bug="", depth=5, emit=False, invariants=("NoViolation", "Refines"), tdepth=None):
    d = dict(name=name, module="MC_MerkleVoting",
             constants=dict(Depth=depth, Emit=emit, Regime=regime, AUTHREQ=authreq, BUG=bug),
             invariants=list(invariants), cfg=dict(regime=regime), thorough=dict(Depth=tdepth or depth + 2))
    if bug:
        d.update(expect="violation", invariants=["NoViolation"], thorough={})
    return d


def _first_unvoted(ev):
    ids = [i for i in ev["obs"]["ids"] if i not in ev["obs"]["voted"]]
    return ids[0] if ids else None


def _ok(ev):
    return ev["op"]["op"] == "vote" and ev["res"] == "ok"


MODEL = dict(
    bin="voting",
    trace="Trace_MerkleVoting",
    mc=[
        # the tree as it is: a vote never needs the voter's authorization (the recorded known finding); nothing else fails
        _mc("code_s", "s", emit=True, invariants=("KnownOnly", "Refines")),
        _mc("code_o", "o", emit=True, invariants=("KnownOnly", "Refines")),
        # the intended design (vote_data.account.require_auth()): no monitor fails
        _mc("intended_s", "s", authreq=True), _mc("intended_o", "o", authreq=True),
        # vacuity guards: the code as it is does fail the authorization monitor; seeded model bugs fail the others
        dict(_mc("nonvacuous", "s", depth=2), invariants=["NoViolation"], expect="violation", thorough={}),
        _mc("both_sides", "s", authreq=True, bug="both_sides", depth=3),
        _mc("no_claim", "s", authreq=True, bug="no_claim", depth=3),
        _mc("skip_proof", "s", authreq=True, bug="skip_proof", depth=3),
    ],
    quick=dict(sample=3000, drive_runs=240, drive_len=30),
    thorough=dict(sample=40000, drive_runs=4800, drive_len=40),
    need=[("vote", "ok"), ("vote", "fail")],
    need_cnt=["X04_member", "X04_once", "X04_tally", "X04_voted", "X04_fail_noop", "X04_voter_authorized",
              "X04_eligible_accepted"],
    selftest=[
        lambda ev: set_field(ev, ["obs", "pro"], ev["obs"]["pro"] + 1),
        lambda ev: set_field(ev, ["obs", "con"], ev["obs"]["con"] - 1) if ev["res"] == "fail" else None,
        lambda ev: set_field(ev, ["obs", "voted"], ev["obs"]["voted"] + [_first_unvoted(ev)]) if _first_unvoted(ev) is not None else None,
        lambda ev: set_field(ev, ["obs", "voted"], ev["obs"]["voted"][1:]) if ev["obs"]["voted"] else None,
        lambda ev: set_field(ev, ["op", "pow"], ev["op"]["pow"] + 1) if _ok(ev) else None,
        lambda ev: set_field(ev, ["op", "acct"], "x") if _ok(ev) else None,
        lambda ev: set_field(ev, ["op", "approve"], not ev["op"]["approve"]) if _ok(ev) and ev["op"]["pow"] != 0 else None,
        lambda ev: set_field(ev, ["res"], "ok") if ev["res"] == "fail" and ev["op"]["mut"] != "none" else None,
        lambda ev: set_field(ev, ["res"], "fail") if _ok(ev) and ev["op"]["pow"] > 0 and ev["op"]["acct"] in ev["op"]["auth"] else None,
        lambda ev: set_field(ev, ["obs", "exact"], False),
    ],
)
SERVES = {"X04": dict(assumptions=[
    "SHA-256 is collision free (the model treats a proof as valid iff it is the tree's proof of exactly the submitted leaf; "
    "the trace specification takes 'this leaf is in the tree' from the leaf list the harness built the tree from)",
    "voting powers are multiples of the run's amount scale (1, or 2^124 so that the tallies reach i128::MAX)"])}
