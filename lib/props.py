"""Which models serve which property, with their exhaustive (E1) configurations and tiers."""

ABC = {"a", "b", "c"}


def _set(ev, path, val):
    cur = ev
    for k in path[:-1]:
        cur = cur[k]
    if cur[path[-1]] == val:
        return None
    cur[path[-1]] = val
    return ev


MODELS = {}
PROPS = {}

# ---------------------------------------------------------------------------------------------
# RoleTransfer  (C07; gate monitor of C06)
# ---------------------------------------------------------------------------------------------
_rt = dict(Acct=ABC, MinTempTtl=1, MaxTtl=20, DUs={0, 1, 4}, DTs={0, 1, 2}, Now0=10)
MODELS["RoleTransfer"] = dict(
    bin="roletransfer",
    trace="Trace_RoleTransfer",
    mc=[
        dict(name="code", module="MC_RoleTransfer",
             constants=dict(_rt, Depth=3, FIXED_C07=False, Emit=True),
             thorough=dict(Depth=4),
             invariants=["KnownOnly", "Refines"]),
        dict(name="repaired", module="MC_RoleTransfer",
             constants=dict(_rt, Depth=4, FIXED_C07=True, Emit=False),
             thorough=dict(Depth=5),
             invariants=["NoViolation"]),
        dict(name="nonvacuous", module="MC_RoleTransfer",
             constants=dict(_rt, Depth=3, FIXED_C07=False, Emit=False),
             invariants=["NoViolation"], expect="violation"),
    ],
    quick=dict(sample=4000, drive_runs=320, drive_len=40),
    thorough=dict(sample=None, drive_runs=16000, drive_len=60),
    need=[("offer", "ok"), ("offer", "fail"), ("cancel", "ok"), ("accept", "ok"), ("accept", "fail"),
          ("renounce", "ok"), ("renounce", "fail"), ("gated", "ok"), ("gated", "fail")],
    selftest=[
        lambda ev: _set(ev, ["obs", "holder"], "c" if ev["obs"]["holder"] != "c" else "b"),
        lambda ev: _set(ev, ["res"], "ok") if ev["op"]["op"] == "accept" and ev["res"] == "fail" else None,
        lambda ev: _set(ev, ["res"], "ok") if ev["op"]["op"] == "gated" and ev["res"] == "fail" else None,
    ],
)
PROPS["C07"] = dict(models=["RoleTransfer"],
                    assumptions=["ledger min_temp_entry_ttl = 1 as the property prescribes"])
