"""Collects the model descriptions in lib/models/*.py and maps properties to the models serving them."""
import importlib
import os
import sys

_here = os.path.join(os.path.dirname(os.path.abspath(__file__)), "models")
sys.path.insert(0, _here)

# properties whose checks are registered in MANIFEST.json (a model may already serve a property
# that is not yet claimed because another model it needs is still missing)
CLAIMED = ["C01", "C02", "C03", "C04", "C05", "C06", "C07", "C08", "C09", "C10", "C11", "C12", "C13", "C14", "C15", "C16", "C17", "C18", "C19", "C20"]

# models integrated and reviewed; a claimed property is decided by its READY models only (models still
# under construction serve only properties that are not yet claimed)
READY = {"RoleTransfer", "Fungible", "Vault", "MulDiv", "Gates", "Access", "VaultBig", "Timelock", "TimelockController", "Rwa", "Nft", "Policies", "Merkle", "Verifiers", "FeeForwarder", "SmartAccount", "Royalties", "Identity", "Votes", "Registries", "WadOps", "SacAdmin", "MerkleVoting", "Compliance"}

MODELS, PROPS = {}, {}
EXTRA_MODELS = set()   # models of behaviour beyond the listed properties (ids X01, X02, ...; `./check extra`)
for fn in sorted(os.listdir(_here)):
    if not fn.endswith(".py") or fn in ("common.py",):
        continue
    mod = importlib.import_module(fn[:-3])
    if getattr(mod, "DISABLED", False):
        continue
    MODELS[mod.NAME] = mod.MODEL
    if getattr(mod, "EXTRA", False):
        EXTRA_MODELS.add(mod.NAME)
    for pid, extra in mod.SERVES.items():
        P = PROPS.setdefault(pid, dict(models=[], assumptions=[]))
        P["models"].append(mod.NAME)
        P["assumptions"] += extra.get("assumptions", [])
        # monitors of this model that belong to another property but count for `pid` as well
        P.setdefault("also", set()).update(extra.get("also", []))
        for k, v in extra.items():
            if k not in ("assumptions", "also"):
                P[k] = v
_only = os.environ.get("VERIF_ONLY_MODEL")
for pid, P in PROPS.items():
    P["claimed"] = pid in CLAIMED
    if _only:
        # development aid: judge a property with one named model only
        P["models"] = [m for m in P["models"] if m == _only]
    elif P["claimed"]:
        P["models"] = [m for m in P["models"] if m in READY]
