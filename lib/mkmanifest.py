#!/usr/bin/env python3
"""Regenerates MANIFEST.json from lib/props.py (claimed properties) and properties.jsonl."""
import json, os, sys
ROOT = os.path.dirname(os.path.dirname(os.path.abspath(__file__)))
sys.path.insert(0, os.path.join(ROOT, "lib"))
import props

ids = [json.loads(l)["id"] for l in open(os.path.join(ROOT, "properties.jsonl"))]
checks, na = [], []
for pid in ids:
    P = props.PROPS.get(pid)
    if not P or not P.get("claimed", True):
        na.append(dict(property_id=pid, reason=(P or {}).get("na_reason", "check not built yet (planned, see DESIGN.md section 6)")))
        continue
    models = ", ".join(P["models"])
    checks.append(dict(
        property_id=pid,
        quick_cmd="./check %s --tier quick" % pid,
        thorough_cmd="./check %s --tier thorough" % pid,
        evidence_file="evidence/%s.json" % pid,
        replay_cmd_template="./check %s --replay {path}" % pid,
        engine="tla-model-conformance",
        level_claimed=dict(
            category="model_checking",
            text=P.get("level_text", "") or (
                "TLC checks the implementation-shaped TLA+ model(s) %s exhaustively within small constants against the "
                "property monitors; every transition of that state graph (quick: a seeded sample) is replayed on the real "
                "contracts built from /repo's working tree together with seeded random histories, and TLC validates every "
                "recorded step against the property-level trace specification." % models),
            design_ref=P.get("design_ref", "DESIGN.md section 6, " + pid)),
        level_note=P.get("level_note", "Trusted: soroban-env-host test host (rollback, authorization matching, storage TTL), TLC, "
                         "the harness glue; bounded constants for the exhaustive part, sampling beyond them."),
        technique="explicit TLA+ specification: TLC exhaustive model checking + behaviour replay on the code + TLC trace validation",
    ))
m = dict(
    version=1,
    setup_cmd="./check build && ./check selftest",
    hooks=dict(guard="oz_stellar_verif",
               enable="no source hooks are needed: checks build /verif/harness (path dependencies on /repo/packages/*, example "
                      "contracts included from /repo/examples/*/src/contract.rs) with RUSTFLAGS --cfg oz_stellar_verif",
               baseline_off_cmd="cd /repo && RUSTUP_TOOLCHAIN=stable cargo test --workspace --no-fail-fast --offline",
               source_commits=[], add_only=True),
    engines=[dict(name="tla-model-conformance", path="check",
                  serves_properties=[c["property_id"] for c in checks],
                  kind_free_text="TLA+ specifications in spec/ (property-level <M>.tla, implementation-shaped MC_<M>.tla, "
                                 "Trace_<M>.tla), TLC, Rust conformance harness in harness/, python driver lib/vcheck.py")],
    checks=checks,
    notes="Behaviour beyond the listed properties is specified and checked the same way under ids X01, X02, ... "
          "(`./check extra`; evidence/X*.json); these are not claims about listed properties. Exit 0 = held, 1 = VIOLATION line + replay file, 2 = tool error. Known findings: known_findings.json. "
          "VERIF_SEED selects samples and random histories. Results are reused only for a bit-identical harness binary, "
          "specification, tier and seed (VERIF_NOCACHE=1 disables).",
    not_applicable=na)
json.dump(m, open(os.path.join(ROOT, "MANIFEST.json"), "w"), indent=1)
print("claimed:", [c["property_id"] for c in checks])
