#!/bin/sh
# Runs, against every stored seeded change, the check of the property its author FILED it under (strict reading:
# a change counts as detected only if that very check exits 1).   usage: lib/seedstrict.sh <scratchdir> [seed] [k/n]
# (k/n: only every n-th stored change, starting with the k-th - for running n sweeps side by side)
D=$1; S=${2:-1}; PART=${3:-0/1}; PK=${PART%/*}; PN=${PART#*/}; IDX=0
[ -d $D/repo ] || /verif/lib/scratch.sh $D >/dev/null
rsync -a --exclude work --exclude replays --exclude .git --exclude evidence --exclude target /verif/ $D/verif/
find $D/verif/harness \( -name '*.rs' -o -name Cargo.toml \) -not -path '*/target/*' | xargs sed -i "s#\"/repo/#\"$D/repo/#g"
mkdir -p $D/verif/work; rsync -a /verif/work/cache/ $D/verif/work/cache/ --include 'e1_*' --exclude '*' 2>/dev/null
for d in /verif/seeded/C*; do
  name=$(basename $d)
  IDX=$((IDX + 1)); [ $((IDX % PN)) -eq $PK ] || continue
  p=$(python3 -c "import json,sys;print(json.load(open('$d/meta.json')).get('property') or '$name'[:3])" | cut -c1-3)
  cd $D/repo && git checkout -q -- . && git apply $d/patch.diff || { echo "$name patch does not apply"; continue; }
  cd $D/verif
  VERIF_SEED=$S VERIF_NCPU=${VERIF_NCPU:-6} ./check $p > $D/strict_$name.log 2>&1; rc=$?
  echo "$name filed=$p seed=$S exit $rc $(grep -A1 '^VIOLATION' $D/strict_$name.log | grep monitor | sed 's/ failed at.*//;s/^ *monitor //' | sort -u | tr '\n' ';')"
done
cd $D/repo && git checkout -q -- .
