#!/bin/sh
# Discharges an inductive invariant with Apalache: Init => IndInv, IndInit => IndInv (length 0),
# IndInv /\ Next => IndInv' (length 1), and checks that the seeded-bug constants break induction.
# usage: lib/apalache.sh <Module>     exit 0 = all four as expected, 2 = tool error / unexpected
M=$1; DIR="$(cd "$(dirname "$0")/.." && pwd)"; OUT=$DIR/work/apalache_$M; mkdir -p $OUT
run() { timeout 1500 apalache-mc check --cinit=$1 --init=$2 --inv=IndInv --length=$3 --out-dir=$OUT/run $DIR/spec/apalache/$M.tla > $OUT/$4.log 2>&1; grep -q "EXITCODE: OK" $OUT/$4.log && echo ok || { grep -q "EXITCODE: ERROR (12)" $OUT/$4.log && echo violated || echo toolerror; }; }
a=$(run ConstInit Init 0 init); b=$(run ConstInit IndInit 0 base); c=$(run ConstInit IndInit 1 step); d=$(run ConstInitBug IndInit 1 bug)
echo "APALACHE $M: Init=>IndInv $a; IndInit=>IndInv $b; IndInv/\\Next=>IndInv' $c; seeded bug breaks induction: $d"
rm -rf $OUT/run
[ "$a" = ok ] && [ "$b" = ok ] && [ "$c" = ok ] && [ "$d" = violated ] && exit 0
exit 2
