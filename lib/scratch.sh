#!/bin/sh
# Creates an isolated pair <dir>/repo (copy of /repo's working tree as a git worktree-free clone)
# and <dir>/verif (copy of /verif whose harness points at <dir>/repo), for trying a candidate
# change to the library against the checks without touching /repo.
#   lib/scratch.sh /tmp/x        then:  (cd /tmp/x/repo && git apply p.diff); (cd /tmp/x/verif && ./check C07)
#   rm -rf /tmp/x                when done
set -e
D="$1"; [ -n "$D" ] || { echo "usage: $0 <dir>"; exit 2; }
VERIF="$(cd "$(dirname "$0")/.." && pwd)"
mkdir -p "$D"
rsync -a --exclude target --exclude .git /repo/ "$D/repo/" || [ $? = 24 ]
( cd "$D/repo" && git init -q 2>/dev/null; git add -A >/dev/null; git -c user.email=x@x -c user.name=x commit -qm base >/dev/null 2>&1 || true )
# (exit 24 = a file vanished while copying, e.g. cargo rewriting its target directory: harmless)
rsync -a --exclude work --exclude replays --exclude .git --exclude evidence --exclude incremental "$VERIF/" "$D/verif/" || [ $? = 24 ]
mkdir -p "$D/verif/evidence"
find "$D/verif/harness" \( -name '*.rs' -o -name Cargo.toml \) -not -path '*/target/*' | xargs sed -i "s#\"/repo/#\"$D/repo/#g"
echo "scratch ready: $D/repo  $D/verif"
