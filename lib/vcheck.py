"""Driver of the model-based checks (see DESIGN.md sections 2, 4, 5).

For a property id the driver runs, for every model serving the property,

  E1  TLC exhaustively on the implementation-shaped model MC_<M> (small constants) against the
      monitors of <M>.tla; the same run prints one REPLAY line per generated transition;
  E2  the harness binary replays those behaviours (all, or a seeded sample) on the real contracts
      built from /repo's working tree, and a seeded random driver adds histories at real scale;
  E3  TLC validates every recorded trace against Trace_<M> (the property-level specification).

Only E3 can produce a VIOLATION: a step recorded from the real code that leaves the property
envelope.  Exit codes: 0 held, 1 violation (with VIOLATION line and replay file), 2 tool error.
"""
import concurrent.futures as cf
import hashlib
import json
import os
import random
import re
import shutil
import subprocess
import sys
import time

ROOT = os.path.dirname(os.path.dirname(os.path.abspath(__file__)))
SPEC = os.path.join(ROOT, "spec")
HARNESS = os.path.join(ROOT, "harness")
WORK = os.path.join(ROOT, "work")
EVID = os.path.join(ROOT, "evidence")
REPLAYS = os.path.join(ROOT, "replays")
KNOWN = os.path.join(ROOT, "known_findings.json")
NCPU = int(os.environ.get("VERIF_NCPU", min(16, os.cpu_count() or 4)))


class ToolError(Exception):
    pass


def log(*a):
    print(*a, flush=True)


def sh(cmd, **kw):
    return subprocess.run(cmd, stdout=subprocess.PIPE, stderr=subprocess.STDOUT, text=True, **kw)


# ------------------------------------------------------------------------------------------------
# harness build
# ------------------------------------------------------------------------------------------------
_built = {}


def build_bin(name):
    if name in _built:
        return _built[name]
    env = dict(os.environ, CARGO_NET_OFFLINE="true", RUSTUP_TOOLCHAIN=os.environ.get("RUSTUP_TOOLCHAIN", "stable"),
               CARGO_TARGET_DIR=os.environ.get("VERIF_TARGET_DIR") or os.path.join(HARNESS, "target"))
    t0 = time.time()
    r = sh(["cargo", "build", "--offline", "--quiet", "--bin", name], cwd=HARNESS, env=env)
    if r.returncode != 0:
        # a build failure is either a tool problem or a change to /repo that no longer compiles
        # against the harness; both are tool errors (exit 2), never violations
        raise ToolError("harness build failed for %s:\n%s" % (name, r.stdout[-4000:]))
    path = os.path.join(env["CARGO_TARGET_DIR"], "debug", name)
    h = hashlib.sha256(open(path, "rb").read()).hexdigest()
    _built[name] = (path, h, time.time() - t0)
    return _built[name]


# ------------------------------------------------------------------------------------------------
# TLC
# ------------------------------------------------------------------------------------------------
def tla_value(v):
    if isinstance(v, bool):
        return "TRUE" if v else "FALSE"
    if isinstance(v, int):
        return str(v)
    if isinstance(v, str):
        return '"%s"' % v
    if isinstance(v, (set, frozenset, list, tuple)):
        xs = sorted(v, key=lambda x: (str(type(x)), x)) if isinstance(v, (set, frozenset)) else list(v)
        body = ", ".join(tla_value(x) for x in xs)
        return ("{%s}" if isinstance(v, (set, frozenset)) else "<<%s>>") % body
    raise ValueError(v)


def write_cfg(path, mc, constants):
    lines = ["CONSTANTS"]
    for k, v in constants.items():
        lines.append("  %s = %s" % (k, tla_value(v)))
    lines.append("INIT %s" % mc.get("init", "Init"))
    lines.append("NEXT %s" % mc.get("next", "Next"))
    if mc.get("view", "View"):
        lines.append("VIEW %s" % mc.get("view", "View"))
    for c in mc.get("constraints", ["Bound"]):
        lines.append("CONSTRAINT %s" % c)
    for c in mc.get("action_constraints", ["EmitReplay"]):
        lines.append("ACTION_CONSTRAINT %s" % c)
    if mc.get("invariants"):
        lines.append("INVARIANTS " + " ".join(mc["invariants"]))
    for p in mc.get("properties", []):
        lines.append("PROPERTY %s" % p)
    lines.append("CHECK_DEADLOCK FALSE")
    open(path, "w").write("\n".join(lines) + "\n")


def run_tlc_mc(wdir, mc, constants, workers, timeout):
    """Runs one exhaustive configuration.  Returns dict(states, distinct, depth, violated, replay_file, wall)."""
    os.makedirs(wdir, exist_ok=True)
    cfg = os.path.join(wdir, mc["name"] + ".cfg")
    write_cfg(cfg, mc, constants)
    out = os.path.join(wdir, mc["name"] + ".out")
    md = os.path.join(wdir, "md_" + mc["name"])
    shutil.rmtree(md, ignore_errors=True)
    cmd = ["tlc", "-workers", str(workers), "-metadir", md, "-cleanup", "-noGenerateSpecTE",
           "-config", cfg, os.path.join(SPEC, mc["module"] + ".tla")]
    t0 = time.time()
    env = dict(os.environ, JAVA_TOOL_OPTIONS="-Xss64m")
    with open(out, "w") as f:
        try:
            r = subprocess.run(cmd, stdout=f, stderr=subprocess.STDOUT, cwd=SPEC, timeout=timeout, env=env)
        except subprocess.TimeoutExpired:
            raise ToolError("TLC timeout on %s" % mc["name"])
    shutil.rmtree(md, ignore_errors=True)
    res = dict(name=mc["name"], wall=time.time() - t0, states=0, distinct=0, depth=0, violated=None, errors=[])
    replay = os.path.join(wdir, mc["name"] + ".beh.ndjson")
    nrep = 0
    with open(out) as f, open(replay, "w") as g:
        for line in f:
            if line.startswith('<<"REPLAY", "'):
                body = line.rstrip("\n")[len('<<"REPLAY", "'):-len('">>')]
                body = body.replace('\\"', '"')
                if mc.get("cfg"):
                    body = '{"cfg":%s,"ops":%s}' % (json.dumps(mc["cfg"]), body)
                g.write(body + "\n")
                nrep += 1
                continue
            m = re.match(r"(\d+) states generated, (\d+) distinct states found", line)
            if m:
                res["states"], res["distinct"] = int(m.group(1)), int(m.group(2))
            m = re.match(r"The depth of the complete state graph search is (\d+)", line)
            if m:
                res["depth"] = int(m.group(1))
            m = re.match(r"Error: Invariant (\S+) is violated", line)
            if m:
                res["violated"] = m.group(1)
            elif line.startswith("Error:") and "violated" in line:
                res["violated"] = line.strip()
            elif line.startswith("Error:") or "Exception" in line:
                res["errors"].append(line.strip())
    res["replay_file"], res["replay_lines"] = replay, nrep
    if res["violated"] is None and (r.returncode != 0 or res["errors"]):
        raise ToolError("TLC failed on %s (rc %s): %s ; see %s" % (mc["name"], r.returncode, res["errors"][:3], out))
    if res["violated"] is None and res["distinct"] == 0:
        raise ToolError("TLC produced no states on %s ; see %s" % (mc["name"], out))
    return res


def run_tlc_trace(trace_module, trace_file, wdir, tag, timeout=1800):
    """Validates one ndjson trace.  Returns dict(viol=[...], done=int, cnt={...})."""
    md = os.path.join(wdir, "mdt_" + tag)
    shutil.rmtree(md, ignore_errors=True)
    cfg = os.path.join(SPEC, trace_module + ".cfg")
    out = os.path.join(wdir, "trace_%s.out" % tag)
    env = dict(os.environ, TRACE=trace_file,
               JAVA_TOOL_OPTIONS="-Xss1g -Xmx3g -Dtlc2.tool.queue.IStateQueue=StateDeque")
    cmd = ["tlc", "-workers", "1", "-metadir", md, "-cleanup", "-noGenerateSpecTE", "-config", cfg,
           os.path.join(SPEC, trace_module + ".tla")]
    with open(out, "w") as f:
        try:
            r = subprocess.run(cmd, stdout=f, stderr=subprocess.STDOUT, cwd=SPEC, timeout=timeout, env=env)
        except subprocess.TimeoutExpired:
            raise ToolError("TLC trace validation timeout on %s" % trace_file)
    shutil.rmtree(md, ignore_errors=True)
    viol, done, cnt, errs = [], None, {}, []
    for line in open(out):
        if line.startswith('<<"VIOL", "'):
            body = line.rstrip("\n")[len('<<"VIOL", "'):-len('">>')]
            viol.append(json.loads(body.replace('\\"', '"')))
        elif line.startswith('<<"DONE", '):
            m = re.match(r'<<"DONE", (\d+), "(.*)">>', line.rstrip("\n"))
            done = int(m.group(1))
            cnt = json.loads(m.group(2).replace('\\"', '"'))
        elif line.startswith("Error:") or "Exception" in line:
            errs.append(line.strip())
    nlines = sum(1 for _ in open(trace_file))
    if (r.returncode != 0 or errs or done != nlines) and viol:
        # The monitors of the other properties keep judging a run after a violation; if the diverged run then makes
        # the specification itself fail to evaluate, the violation printed before stands (it is a monitor failure
        # established by TLC); the rest of this trace file stays unexamined.
        return dict(viol=viol, done=done or 0, cnt=cnt, stopped=errs[:1] or ["incomplete"])
    if r.returncode != 0 or errs or done != nlines:
        raise ToolError("trace validation failed on %s (rc %s, consumed %s of %s): %s ; see %s"
                        % (trace_file, r.returncode, done, nlines, errs[:3], out))
    return dict(viol=viol, done=done, cnt=cnt)


# ------------------------------------------------------------------------------------------------
# known findings
# ------------------------------------------------------------------------------------------------
def load_known():
    if not os.path.exists(KNOWN):
        return []
    return json.load(open(KNOWN)).get("findings", [])


def match_known(v, known):
    for k in known:
        if k["property"] == v["prop"] and k["monitor"] == v["mon"] and k["key"] == v["key"]:
            return k
    return None


# ------------------------------------------------------------------------------------------------
# one model pipeline
# ------------------------------------------------------------------------------------------------
_OP_RE = re.compile(r'"op":"([^"]+)"')
_EXP_RE = re.compile(r'"exp":"([^"]+)"')


def sample_lines(src, dst, k, rng):
    """Seeded sample (without replacement) of k behaviours, stratified by the last call of the behaviour
    (operation name and the model's expected result) so that rare operations are not crowded out."""
    lines = open(src).read().splitlines()
    if k is not None and len(lines) > k:
        strata = {}
        for i, ln in enumerate(lines):
            ops = _OP_RE.findall(ln)
            exps = _EXP_RE.findall(ln)
            key = (ops[-1] if ops else "", exps[-1] if exps else "", len(ops))
            strata.setdefault(key, []).append(i)
        for v in strata.values():
            rng.shuffle(v)
        keys = sorted(strata)
        idx = []
        while len(idx) < k:
            progressed = False
            for key in keys:
                if strata[key] and len(idx) < k:
                    idx.append(strata[key].pop())
                    progressed = True
            if not progressed:
                break
        lines = [lines[i] for i in sorted(idx)]
    open(dst, "w").write("\n".join(lines) + ("\n" if lines else ""))
    return len(lines)


def split_file(src, n, prefix):
    lines = open(src).read().splitlines()
    n = max(1, min(n, len(lines)))
    files = []
    for j in range(n):
        p = "%s.%02d.ndjson" % (prefix, j)
        chunk = lines[j::n]
        open(p, "w").write("\n".join(chunk) + "\n")
        files.append(p)
    return files


def run_model(model, M, tier, seed, wdir, extra_behaviours=None):
    """Runs E1/E2/E3 for one model; returns a result dict (cached by content)."""
    os.makedirs(wdir, exist_ok=True)
    T = M[tier]
    binpath, binhash, build_s = build_bin(M["bin"])
    spec_hash = hashlib.sha256()
    mods = {mc["module"] for mc in M.get("mc", [])} | {M["trace"], model, "BigInt", "MC_" + model}
    for fn in sorted(os.listdir(SPEC)):
        if fn.rsplit(".", 1)[0] not in mods:
            continue
        spec_hash.update(fn.encode())
        spec_hash.update(open(os.path.join(SPEC, fn), "rb").read())
    spec_hash.update(open(os.path.abspath(__file__), "rb").read())
    if os.path.exists(KNOWN):
        spec_hash.update(open(KNOWN, "rb").read())
    key = hashlib.sha256(json.dumps([model, tier, seed, binhash, spec_hash.hexdigest(),
                                     json.dumps({k: v for k, v in M.items() if k != "selftest"}, sort_keys=True, default=str)]).encode()).hexdigest()[:24]
    cache = os.path.join(WORK, "cache", key + ".json")
    if extra_behaviours is None and os.path.exists(cache) and not os.environ.get("VERIF_NOCACHE"):
        res = json.load(open(cache))
        res["cached"] = True
        log("[%s] identical binary, specification, tier and seed already validated: reusing result %s" % (model, key))
        return res
    rng = random.Random(seed)
    res = dict(model=model, cached=False, build_s=build_s, mc=[], e1_wall=0.0)
    trace_files = []
    # ---- E1 + behaviours ---------------------------------------------------------------------
    beh_all = os.path.join(wdir, "behaviours.ndjson")
    open(beh_all, "w").close()
    if extra_behaviours is None:
        mcs = M.get("mc", [])
        par = max(1, min(len(mcs), 4))
        wk = max(2, NCPU // par)

        def one(mc):
            constants = dict(mc["constants"])
            constants.update(mc.get(tier, {}))
            # E1 does not depend on /repo: reuse the result for an identical specification + constants
            k1 = hashlib.sha256(json.dumps([spec_hash.hexdigest(), mc["name"], mc["module"], sorted(
                (a, sorted(b) if isinstance(b, (set, frozenset)) else b) for a, b in constants.items()),
                mc.get("invariants"), mc.get("cfg")], default=str).encode()).hexdigest()[:24]
            c1 = os.path.join(WORK, "cache", "e1_" + k1)
            if os.path.exists(c1 + ".json") and not os.environ.get("VERIF_NOCACHE"):
                r = json.load(open(c1 + ".json"))
                r["replay_file"] = c1 + ".beh"
                r["reused"] = True
                return mc, r
            r = run_tlc_mc(wdir, mc, constants, wk, T.get("tlc_timeout", 1500))
            r["reused"] = False
            os.makedirs(os.path.dirname(c1), exist_ok=True)
            shutil.move(r["replay_file"], c1 + ".beh")
            r["replay_file"] = c1 + ".beh"
            json.dump(r, open(c1 + ".json", "w"))
            return mc, r

        with cf.ThreadPoolExecutor(par) as ex:
            e1 = list(ex.map(one, mcs))
        for mc, r in e1:
            expect = mc.get("expect", "ok")
            log("[%s] E1 %-28s %9d states %8d distinct depth %d  %.1fs%s  %s" % (
                model, mc["name"], r["states"], r["distinct"], r["depth"], r["wall"],
                " (reused: identical specification and constants)" if r["reused"] else "",
                ("violates " + str(r["violated"])) if r["violated"] else "no monitor fails"))
            if expect == "ok" and r["violated"]:
                raise ToolError("E1: model %s configuration %s violates %s (model or specification error; see %s)"
                                % (model, mc["name"], r["violated"], wdir))
            if expect == "violation" and not r["violated"]:
                raise ToolError("E1: configuration %s was expected to exhibit a violation (vacuity guard)" % mc["name"])
            res["mc"].append({k: r[k] for k in ("name", "states", "distinct", "depth", "violated", "wall", "replay_lines", "reused")})
            res["e1_wall"] += 0 if r["reused"] else r["wall"]
            if r["replay_lines"]:
                # a configuration marked replay_all is a directed one (few behaviours, all of them wanted): it is
                # replayed in full whatever the sample size
                with open(beh_all if not mc.get("replay_all") else beh_all + ".always", "a") as g:
                    g.write(open(r["replay_file"]).read())
        beh = os.path.join(wdir, "beh_sample.ndjson")
        res["behaviours_emitted"] = sum(1 for _ in open(beh_all))
        res["behaviours_replayed"] = sample_lines(beh_all, beh, T.get("sample"), rng)
        if os.path.exists(beh_all + ".always"):
            extra = open(beh_all + ".always").read()
            open(beh, "a").write(extra)
            res["behaviours_emitted"] += extra.count("\n")
            res["behaviours_replayed"] += extra.count("\n")
    else:
        beh = extra_behaviours
        res["behaviours_emitted"] = res["behaviours_replayed"] = sum(1 for _ in open(beh))
    # ---- unbounded inductive-invariant checks of the design (Apalache), where a model has them ---
    res["proofs"] = []
    for pr in M.get("proofs", []):
        if extra_behaviours is not None or tier not in pr.get("tiers", ("thorough",)):
            continue
        t1 = time.time()
        r = sh([os.path.join(ROOT, c) if c.startswith("lib/") else c for c in pr["cmd"]], timeout=pr.get("timeout", 3600))
        line = [l for l in r.stdout.splitlines() if l.startswith("APALACHE")]
        log("[%s] %s  (%.0fs)" % (model, line[-1] if line else "APALACHE: no result", time.time() - t1))
        if r.returncode != 0:
            raise ToolError("inductive-invariant check %s of model %s failed: %s" % (pr["name"], model, r.stdout[-1500:]))
        res["proofs"].append(dict(name=pr["name"], result=line[-1] if line else "", wall=time.time() - t1))
    # ---- E2: replay + drive, in parallel -----------------------------------------------------
    t0 = time.time()
    jobs = []
    if res["behaviours_replayed"]:
        for j, f in enumerate(split_file(beh, NCPU, os.path.join(wdir, "beh"))):
            out = os.path.join(wdir, "trace_exec.%02d.ndjson" % j)
            jobs.append(([binpath, "exec", f, out], out))
    if extra_behaviours is None and T.get("drive_runs"):
        per = max(1, T["drive_runs"] // NCPU)
        for j in range(NCPU):
            out = os.path.join(wdir, "trace_drive.%02d.ndjson" % j)
            jobs.append(([binpath, "drive", str(seed * 1000 + j), str(per), str(T["drive_len"]), out], out))

    def runjob(job):
        cmd, out = job
        try:
            r = sh(cmd, timeout=T.get("harness_timeout", 1200 if tier == "quick" else 6000))
        except subprocess.TimeoutExpired:
            raise ToolError("harness timeout: %s" % " ".join(cmd))
        if r.returncode != 0:
            # The harness stopped (a getter or a set-up call of the code under test trapped where the harness did not
            # expect it).  What it recorded until then is still judged: a violation found in it stands; without one
            # the crash is a tool error.
            crashed.append("harness failed: %s\n%s" % (" ".join(cmd), r.stdout[-3000:]))
            if not os.path.exists(out):
                return None
            data = open(out, "rb").read()
            if data and not data.endswith(b"\n"):
                open(out, "wb").write(data[:data.rfind(b"\n") + 1])
            if not open(out, "rb").read().strip():
                return None
        return out

    crashed = []
    with cf.ThreadPoolExecutor(NCPU) as ex:
        trace_files = [f for f in ex.map(runjob, jobs) if f]
    res["e2_wall"] = time.time() - t0
    # ---- statistics on the recorded traces (python side: counts only, no judgement) ----------
    events = runs = drift = 0
    distinct = set()
    opres = {}
    samples = []
    for tf in trace_files:
        cur = []
        for line in open(tf):
            ev = json.loads(line)
            events += 1
            o = ev["op"]
            if o.get("op") == "reset":
                runs += 1
                if len(samples) < 3 and cur:
                    samples.append(cur)
                cur = [dict(reset=o)]
                continue
            if "exp" in o and o["exp"] != ev["res"]:
                drift += 1
            k = (o.get("op"), ev["res"])
            opres[k] = opres.get(k, 0) + 1
            oo = {a: b for a, b in o.items() if a not in ("exp",)}
            distinct.add(hashlib.md5(json.dumps([oo, ev["res"], ev.get("obs")], sort_keys=True).encode()).digest())
            if len(cur) < 12:
                cur.append(dict(op=oo, res=ev["res"], obs=ev.get("obs")))
    res.update(events=events, runs=runs, drift=drift, distinct=len(distinct),
               opres={"%s/%s" % k: v for k, v in sorted(opres.items())}, samples=samples[:3])
    res["vacuity"] = []
    for need in M.get("need", []):
        if extra_behaviours is None and opres.get(tuple(need), 0) == 0:
            res["vacuity"].append("no recorded step with op/result %s in model %s" % (list(need), model))
    # ---- E3 ----------------------------------------------------------------------------------
    t0 = time.time()
    with cf.ThreadPoolExecutor(NCPU) as ex:
        outs = list(ex.map(lambda a: run_tlc_trace(M["trace"], a[1], wdir, "%02d" % a[0], T.get("trace_timeout", 1800 if tier == "quick" else 7200)),
                           enumerate(trace_files)))
    res["e3_wall"] = time.time() - t0
    cnt = {}
    viol = []
    for tf, o in zip(trace_files, outs):
        for k, v in o["cnt"].items():
            cnt[k] = cnt.get(k, 0) + v
        for v in o["viol"]:
            v["trace_file"] = tf
            viol.append(v)
    res["monitor_evaluations"] = cnt
    if crashed and not viol:
        raise ToolError(crashed[0])
    # A run is judged on after a violation, by the monitors of the other properties only (Trace_*.tla: `dead` is the
    # set of properties already violated in the run).  What follows a *listed known finding* in the same run is a
    # consequence of that finding (the ghost and the code have parted ways there) and is not reported.
    known = load_known()
    first = {}
    for v in viol:
        k = (v["trace_file"], v["run"])
        first[k] = min(first.get(k, v["i"]), v["i"])
    known_runs = {(v["trace_file"], v["run"]) for v in viol
                  if v["i"] == first[(v["trace_file"], v["run"])] and match_known(v, known)}
    viol = [v for v in viol if v["i"] == first[(v["trace_file"], v["run"])] or (v["trace_file"], v["run"]) not in known_runs]
    for k in M.get("need_cnt", []):
        if extra_behaviours is None and cnt.get(k, 0) == 0:
            res["vacuity"].append("counter %s stayed 0 on the recorded traces of model %s" % (k, model))
    # attach the offending run (ops only) to each violation so that it can be replayed
    byfile = {}
    for v in viol:
        byfile.setdefault(v["trace_file"], []).append(v)
    for tf, vs in byfile.items():
        wanted = {v["run"] for v in vs}
        runsops = {}
        cfgs = {}
        for line in open(tf):
            ev = json.loads(line)
            if ev["run"] in wanted:
                if ev["op"].get("op") == "reset":
                    cfgs[ev["run"]] = {k: v for k, v in ev["op"].items() if k not in ("op",)}
                else:
                    runsops.setdefault(ev["run"], []).append((ev["i"], ev["op"], ev["res"], ev.get("obs")))
        for v in vs:
            steps = [s for s in runsops.get(v["run"], []) if s[0] <= v["i"]]
            v["ops"] = [s[1] for s in steps]
            v["cfg"] = cfgs.get(v["run"], {})
            v["last"] = dict(res=steps[-1][2], obs=steps[-1][3]) if steps else None
            del v["trace_file"]
    res["violations"] = viol
    if extra_behaviours is None:
        os.makedirs(os.path.dirname(cache), exist_ok=True)
        json.dump(res, open(cache, "w"))
        for f in os.listdir(wdir):
            if f.endswith(".ndjson") or f.startswith("trace_") and f.endswith(".out"):
                os.remove(os.path.join(wdir, f))
    return res


# ------------------------------------------------------------------------------------------------
# property level
# ------------------------------------------------------------------------------------------------
def write_replay(pid, model, M, v):
    os.makedirs(REPLAYS, exist_ok=True)
    h = hashlib.sha256(json.dumps([model, v["mon"], v["key"], v["ops"], v["cfg"]], sort_keys=True).encode()).hexdigest()[:12]
    p = os.path.join(REPLAYS, "%s_%s_%s.json" % (pid, v["mon"], h))
    json.dump(dict(property=pid, model=model, monitor=v["mon"], key=v["key"], cfg=v["cfg"], ops=v["ops"],
                   observed=v.get("last")), open(p, "w"), indent=1)
    return p


def check_property(pid, P, MODELS, tier, seed):
    t0 = time.time()
    known = load_known()
    results = []
    for model in P["models"]:
        M = MODELS[model]
        # a private work directory per invocation: concurrent checks of the same property must not collide
        wdir = os.path.join(WORK, pid, "%s.%s.%d" % (model, tier, os.getpid()))
        try:
            results.append(run_model(model, M, tier, seed, wdir))
            shutil.rmtree(wdir, ignore_errors=True)
        except ToolError:
            raise  # keep the directory: the error message points into it
    new, matched = [], {}
    for r in results:
        for v in r["violations"]:
            if v["prop"] != pid and v["mon"] not in P.get("also", ()):
                continue
            k = match_known(v, known)
            if k:
                matched.setdefault((k["monitor"], k["key"]), [k, 0, v])
                matched[(k["monitor"], k["key"])][1] += 1
            else:
                new.append((r["model"], v))
    for (mon, key), (k, nhit, v) in matched.items():
        log("KNOWN-FINDING: property=%s %s [monitor %s, %d recorded steps]" % (pid, k["what"], mon, nhit))
    seen = set()
    nviol = 0
    new.sort(key=lambda mv: (len(mv[1]["ops"]), mv[1]["mon"]))
    for model, v in new:
        sig = (model, v["mon"], v["key"])
        if sig in seen:
            continue
        seen.add(sig)
        nviol += 1
        if nviol <= 8:
            path = write_replay(pid, model, MODELS[model], v)
            log("VIOLATION property=%s replay=%s" % (pid, path))
            log("  monitor %s (%s) failed at step %d of a %d-call history on model %s; last call %s -> %s"
                % (v["mon"], v["key"], v["i"], len(v["ops"]), model, json.dumps(v["ops"][-1]) if v["ops"] else "-",
                   json.dumps(v.get("last"))))
    if not os.environ.get("VERIF_ONLY_MODEL"):   # (a development run with one model only is no evidence for the property)
        write_evidence(pid, P, MODELS, tier, seed, results, len(new), matched, time.time() - t0)
    vac = [v for r in results for v in r.get("vacuity", [])]
    if vac and not new:
        # a coverage hole is a tool error, but never hides a violation that was found
        raise ToolError("vacuity: " + "; ".join(vac[:5]))
    return 1 if new else 0


def write_evidence(pid, P, MODELS, tier, seed, results, nviol, matched, wall):
    os.makedirs(EVID, exist_ok=True)
    states = sum(m["distinct"] for r in results for m in r["mc"])
    transitions = sum(m["states"] for r in results for m in r["mc"])
    moncnt = {}
    for r in results:
        for k, v in r["monitor_evaluations"].items():
            if k.startswith(pid) or k in P.get("also", ()):
                moncnt[k] = moncnt.get(k, 0) + v
    samples = []
    for r in results:
        for s in r["samples"][:2]:
            samples.append(dict(model=r["model"], run=s))
    ev = dict(
        property_id=pid, tier=tier, seed=seed, level="model_checking",
        coverage=dict(
            states=states, transitions=transitions,
            traces_validated_against_impl=sum(r["runs"] for r in results),
            samples=samples or [dict(note="no trace recorded")],
            evaluations=sum(r["events"] for r in results),
            distinct_nontrivial=sum(r["distinct"] for r in results),
            rule="evaluations = calls recorded from the real contracts and judged by TLC against the trace "
                 "specification; distinct_nontrivial = distinct (call with arguments and authorizers, result, "
                 "observation through public getters) triples among them; states/transitions = distinct/generated "
                 "states of the exhaustive TLC runs of the implementation-shaped model(s)",
            exhaustive=False,
            models=[dict(model=r["model"], e1=r["mc"], behaviours_emitted_by_tlc=r["behaviours_emitted"],
                         behaviours_replayed_on_code=r["behaviours_replayed"], runs=r["runs"], events=r["events"],
                         conformance_drift=r["drift"], op_result_counts=r["opres"],
                         result_reused_for_identical_inputs=r["cached"]) for r in results],
            monitor_nontrivial_evaluations=moncnt,
            unbounded_inductive_invariants=[p for r in results for p in r.get("proofs", [])],
            known_findings_matched=[dict(monitor=k[0], key=k[1], steps=v[1]) for k, v in matched.items()],
            checker_cmd="tlc (exhaustive MC_<model>.tla; trace validation Trace_<model>.tla) + harness/target/debug/<bin>",
            trusted_base=["soroban-env-host test host (atomic rollback, authorization, storage TTL)",
                          "TLC 1.8.0", "harness glue in /verif/harness"],
        ),
        assumptions=P.get("assumptions", []) + [
            "instance/persistent entries stay live (archival is outside the model)",
            "the host rolls back every failed top-level invocation",
        ],
        wall_s=round(wall, 1), violations=nviol)
    json.dump(ev, open(os.path.join(EVID, pid + ".json"), "w"), indent=1)


def replay(pid, P, MODELS, path):
    rp = json.load(open(path))
    model = rp["model"]
    M = MODELS[model]
    wdir = os.path.join(WORK, pid, "replay")
    shutil.rmtree(wdir, ignore_errors=True)
    os.makedirs(wdir)
    beh = os.path.join(wdir, "replay.beh.ndjson")
    open(beh, "w").write(json.dumps(dict(cfg=rp.get("cfg", {}), ops=rp["ops"])) + "\n")
    r = run_model(model, M, "quick", 0, wdir, extra_behaviours=beh)
    known = load_known()
    bad = [v for v in r["violations"] if (v["prop"] == pid or v["mon"] in P.get("also", ())) and not match_known(v, known)]
    for v in r["violations"]:
        log("  replayed: monitor %s key %s at step %d%s" % (v["mon"], v["key"], v["i"],
                                                          " (known finding)" if match_known(v, known) else ""))
    if bad:
        log("VIOLATION property=%s replay=%s" % (pid, path))
        return 1
    log("replay of %s: no violation of %s on the current tree" % (path, pid))
    return 0


def selftest(model, M, seed=7):
    """Binding demonstration: a recorded trace with one observation corrupted must be rejected."""
    wdir = os.path.join(WORK, "selftest", model)
    shutil.rmtree(wdir, ignore_errors=True)
    os.makedirs(wdir)
    binpath, _, _ = build_bin(M["bin"])
    tr = os.path.join(wdir, "t.ndjson")
    runs, length = M.get("selftest_drive", (20, 30))
    r = sh([binpath, "drive", str(seed), str(runs), str(length), tr])
    if r.returncode != 0:
        raise ToolError("selftest drive failed: " + r.stdout[-2000:])
    known = load_known()
    base = run_tlc_trace(M["trace"], tr, wdir, "base")
    base_new = [v for v in base["viol"] if not match_known(v, known)]
    if base_new:
        raise ToolError("selftest: uncorrupted trace of %s already violates: %s" % (model, base_new[:2]))
    lines = open(tr).read().splitlines()
    ok = 0
    todo = []
    for ci, corrupt in enumerate(M.get("selftest", [])):
        out = []
        done = False
        for ln in lines:
            ev = json.loads(ln)
            if not done and ev["op"].get("op") != "reset" and ev["run"] >= 3:
                ev2 = corrupt(ev)
                if ev2 is not None:
                    ev, done = ev2, True
            out.append(json.dumps(ev))
        if not done:
            raise ToolError("selftest: corruption %d of %s not applicable" % (ci, model))
        p = os.path.join(wdir, "c%d.ndjson" % ci)
        open(p, "w").write("\n".join(out) + "\n")
        todo.append((ci, p))
    with cf.ThreadPoolExecutor(max(1, min(NCPU, len(todo) or 1))) as ex:
        rrs = list(ex.map(lambda a: run_tlc_trace(M["trace"], a[1], wdir, "c%d" % a[0]), todo))
    for (ci, p), rr in zip(todo, rrs):
        if len(rr["viol"]) <= len(base["viol"]):
            raise ToolError("selftest: corrupted trace %d of %s was accepted" % (ci, model))
        ok += 1
    log("[%s] selftest: %d corrupted traces rejected, clean trace accepted" % (model, ok))
    shutil.rmtree(wdir, ignore_errors=True)
    return ok


def main(argv, PROPS, MODELS):
    import argparse
    ap = argparse.ArgumentParser()
    ap.add_argument("pid")
    ap.add_argument("model", nargs="?", help="selftest: restrict to one model")
    ap.add_argument("--tier", default=os.environ.get("VERIF_TIER", "quick"), choices=["quick", "thorough"])
    ap.add_argument("--replay")
    ap.add_argument("--selftest", action="store_true")
    a = ap.parse_args(argv)
    seed = int(os.environ.get("VERIF_SEED", "1"))
    try:
        if a.pid == "selftest":
            todo = sorted((m, M) for m, M in MODELS.items() if not a.model or m == a.model)
            with cf.ThreadPoolExecutor(4) as ex:
                list(ex.map(lambda mm: selftest(mm[0], mm[1]), todo))
            return 0
        if a.pid == "build":
            for b in sorted({M["bin"] for M in MODELS.values()}):
                p, h, s = build_bin(b)
                log("built %s in %.1fs" % (b, s))
            return 0
        if a.pid == "extra":
            rc = 0
            for xp in sorted(p for p in PROPS if p.startswith("X")):
                rc = max(rc, check_property(xp, PROPS[xp], MODELS, a.tier, seed))
            return rc
        P = PROPS[a.pid]
        if a.replay:
            return replay(a.pid, P, MODELS, a.replay)
        return check_property(a.pid, P, MODELS, a.tier, seed)
    except ToolError as e:
        log("TOOL-ERROR: %s" % e)
        return 2
