#!/bin/sh
# Confirms a seeded change produced by an independent sub-agent in its worktree <wt> (which has the
# patch and the demonstration applied and a private target dir <wt>/target_own), then stores it
# under /verif/seeded/<name>/.   usage: lib/seedconfirm.sh <wt> <name> <package> <demo test filter>
set -e
WT=$1; NAME=$2; PKG=$3; FILTER=$4
OUT=/verif/seeded/$NAME; mkdir -p $OUT
export RUSTUP_TOOLCHAIN=stable CARGO_TARGET_DIR=$WT/target_own
cd $WT
cp _seed/patch.diff _seed/meta.json $OUT/; cp _seed/demo.diff $OUT/ 2>/dev/null || true; cp _seed/demo.rs $OUT/ 2>/dev/null || true
{
echo "== with patch + demo: package tests (expect only the demo to fail)"
cargo test --offline -p $PKG $EXTRA_PKGS 2>&1 | grep -E "^test result|FAILED|failed" | head -30
echo "== with patch reverted: demo (expect pass)"
git apply -R _seed/patch.diff
cargo test --offline -p $PKG $FILTER 2>&1 | grep -E "^test result|FAILED|failed" | head -5
git apply _seed/patch.diff
} > $OUT/confirm.log 2>&1
cat $OUT/confirm.log
