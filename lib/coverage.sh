#!/bin/sh
# Line coverage of /repo's library and example sources by everything the quick checks execute on the real code
# (development aid, not a registered check): builds the harness with -C instrument-coverage into a scratch target
# directory, runs every check with the instrumented binaries, merges the profiles.
# usage: lib/coverage.sh <scratchdir> [props...]      report: <scratchdir>/report.txt, <scratchdir>/uncovered/
D=${1:-/tmp/cov}; shift
mkdir -p $D/raw
LT=$(ls -d /root/.rustup/toolchains/nightly-x86_64-unknown-linux-gnu/lib/rustlib/*/bin | head -1)
export VERIF_TARGET_DIR=$D/target LLVM_PROFILE_FILE="$D/raw/%m-%p.profraw"
export RUSTFLAGS="-C instrument-coverage --cfg oz_stellar_verif --check-cfg cfg(oz_stellar_verif)"
cd /verif
for p in ${@:-C01 C02 C03 C04 C05 C06 C07 C08 C09 C10 C11 C12 C13 C14 C15 C16 C17 C18 C19 C20}; do
  VERIF_NCPU=${VERIF_NCPU:-6} ./check $p > $D/check_$p.log 2>&1; echo "$p exit $?"
done
$LT/llvm-profdata merge -o $D/all.profdata $D/raw/*.profraw
OBJS=""; for b in $D/target/debug/*; do [ -f $b ] && [ -x $b ] && OBJS="$OBJS -object $b"; done
$LT/llvm-cov report $OBJS -instr-profile=$D/all.profdata 2>/dev/null | grep -E "^repo/(packages|examples)|^/repo/(packages|examples)" > $D/report.txt
$LT/llvm-cov show $OBJS -instr-profile=$D/all.profdata -show-line-counts-or-regions 2>/dev/null > $D/show.txt
echo "report: $D/report.txt"
