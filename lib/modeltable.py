#!/usr/bin/env python3
"""Prints the table of models (DESIGN.md 11.4) from lib/models/*.py and spec/*.tla."""
import os, re, sys
ROOT = os.path.dirname(os.path.dirname(os.path.abspath(__file__)))
sys.path.insert(0, os.path.join(ROOT, "lib"))
import props
out = []
out.append("| model | decides | harness binary (what it binds) | E1 configurations (+ vacuity guards) | monitors |\n|---|---|---|---|---|")
for name in sorted(props.MODELS):
    M = props.MODELS[name]
    serves = sorted(p for p, P in props.PROPS.items() if name in P["models"] or (not P["claimed"] and False))
    spec = open(os.path.join(ROOT, "spec", name + ".tla")).read()
    mons = sorted(set(re.findall(r'"([CX]\d\d_[A-Za-z0-9_]+)"', spec)))
    mons = [m for m in mons if not m.startswith("C12_class")]
    ok = [c["name"] for c in M.get("mc", []) if c.get("expect", "ok") == "ok"]
    bad = [c["name"] for c in M.get("mc", []) if c.get("expect", "ok") != "ok"]
    src = open(os.path.join(ROOT, "harness", "src", "bin", M["bin"] + ".rs")).read()
    ex = sorted(set(re.findall(r'#\[path = "/repo/examples/([^"]+)/src/contract.rs"\]', src)))
    binds = ("examples: " + ", ".join(ex)) if ex else "thin contracts over the library"
    out.append("| %s | %s | `%s` (%s) | %s%s | %d: %s |" % (name, ", ".join(serves), M["bin"], binds, ", ".join(ok) or "(driver only)",
          (" (+ " + ", ".join(bad) + ")") if bad else "", len(mons), ", ".join(mons[:40])))
txt = "\n".join(out) + "\n"
dp = os.path.join(ROOT, "DESIGN.md")
ds = open(dp).read()
a, b = "<!-- MODELTABLE -->\n", "<!-- /MODELTABLE -->"
if a in ds and b in ds:
    ds = ds[:ds.index(a) + len(a)] + txt + ds[ds.index(b):]
    open(dp, "w").write(ds)
print(txt)
