---------------------------- MODULE Compliance ----------------------------
(***************************************************************************)
(* Beyond the listed properties (X05): HOOK DISPATCH of the modular RWA     *)
(* compliance contract (packages/tokens/src/rwa/compliance) over the token  *)
(* binder (rwa/utils/token_binder).  The plain registry behaviour of the    *)
(* module lists is C20 (Registries, flavour "modules"); here: what the      *)
(* five hooks DO with the registered modules.                               *)
(*                                                                         *)
(*  verdict   can_transfer / can_create answer TRUE iff every module        *)
(*            registered for exactly that hook answers TRUE for exactly     *)
(*            these arguments (none registered => TRUE).                    *)
(*  notify    transferred / created / destroyed succeed only with the       *)
(*            authorization of the calling token, which must be bound;      *)
(*            on success every module of that hook got exactly one          *)
(*            notification with exactly the call's arguments, others none.  *)
(*  atomic    a failed hook call leaves no note and no registry change.     *)
(*  readonly  can_* notify nobody and change no list.                       *)
(*  order     (documented: "stops execution and returns false on the first  *)
(*            module that rejects") nothing is consulted after a FALSE.     *)
(*                                                                         *)
(* Scripted modules (harness): module m answers can_transfer / can_create   *)
(* by its rule g.rule[m][fn] evaluated on the arguments it RECEIVES, traps  *)
(* in the functions listed in g.trap[m], and reports every call it gets    *)
(* (kind, arguments) to one recorder; obs.notes = what the recorder holds   *)
(* after the judged call (drained after every step; a rolled back call      *)
(* leaves nothing).                                                         *)
(*                                                                         *)
(* Event: op = [op, hook, m, tok, from, to, amt, auth, ax, fn, k, a, n, fns]*)
(*   auth = who signed, ax = the signature covers exactly these arguments;  *)
(*   ret = the boolean answer of can_* (FALSE otherwise);                   *)
(*   obs = [mods: hook -> sequence (get_modules_for_hook),                  *)
(*          reg: hook -> subset of g.core with is_module_registered,        *)
(*          bound: subset of g.toks with is_token_bound, notes: sequence of *)
(*          [m, kind, from, to, amt, tok]].                                 *)
(* Converse directions (liveness of a hook, "FALSE only if somebody said    *)
(* FALSE") are claimed for amounts >= 0 only: refusing negative amounts     *)
(* would be a legitimate tightening.                                        *)
(***************************************************************************)
EXTENDS Integers, Sequences, FiniteSets

Hooks == {"Transferred", "Created", "Destroyed", "CanTransfer", "CanCreate"}
NotifyOps == {"transferred", "created", "destroyed"}
CanOps == {"can_transfer", "can_create"}
HookOps == NotifyOps \cup CanOps \cup {"require"}
OnFns == {"on_transfer", "on_created", "on_destroyed"}
AllFns == OnFns \cup CanOps

HookOf(op) == CASE op = "transferred" -> "Transferred" [] op = "created" -> "Created"
                [] op = "destroyed" -> "Destroyed" [] op = "can_transfer" -> "CanTransfer"
                [] op = "can_create" -> "CanCreate" [] OTHER -> "none"
FnOf(op) == CASE op = "transferred" -> "on_transfer" [] op = "created" -> "on_created"
              [] op = "destroyed" -> "on_destroyed" [] OTHER -> op

ToSetS(s) == {s[i] : i \in DOMAIN s}
AllowAll == [k |-> "all", a |-> "", n |-> 0]

GInit(mset, core, toks, inert) ==
  [mset |-> mset, core |-> core, toks |-> toks,
   mods |-> [h \in Hooks |-> {}], bound |-> {},
   rule |-> [m \in mset |-> [ct |-> AllowAll, cc |-> AllowAll]],
   trap |-> [m \in mset |-> IF m \in inert THEN AllFns ELSE {}]]

\* the scripted module's answer: a rule denies what it matches
Ans(r, o) ==
  CASE r.k = "all"  -> TRUE
    [] r.k = "none" -> FALSE
    [] r.k = "from" -> o.from # r.a
    [] r.k = "to"   -> o.to # r.a
    [] r.k = "tok"  -> o.tok # r.a
    [] r.k = "amt"  -> o.amt # r.n
    [] r.k = "lt"   -> o.amt >= r.n
    [] OTHER        -> TRUE
RuleFor(g, m, o) == IF o.op = "can_transfer" THEN g.rule[m].ct ELSE g.rule[m].cc
Traps(g, m, o) == FnOf(o.op) \in g.trap[m]
Answers(g, m, o) == ~Traps(g, m, o) /\ Ans(RuleFor(g, m, o), o)
Reg(g, o) == IF o.op = "require" THEN {} ELSE g.mods[HookOf(o.op)]
Authorized(o) == o.tok \in o.auth /\ o.ax
ExpNote(o, m) == [m |-> m, kind |-> FnOf(o.op), from |-> o.from, to |-> o.to, amt |-> o.amt, tok |-> o.tok]

GNext(g, ev) ==
  LET o == ev.op IN
  IF ev.res # "ok" THEN g
  ELSE CASE o.op = "add"    -> [g EXCEPT !.mods[o.hook] = @ \cup {o.m}]
         [] o.op = "remove" -> [g EXCEPT !.mods[o.hook] = @ \ {o.m}]
         [] o.op = "bind"   -> [g EXCEPT !.bound = @ \cup {o.tok}]
         [] o.op = "unbind" -> [g EXCEPT !.bound = @ \ {o.tok}]
         [] o.op = "rule"   -> IF o.fn = "ct" THEN [g EXCEPT !.rule[o.m].ct = [k |-> o.k, a |-> o.a, n |-> o.n]]
                                              ELSE [g EXCEPT !.rule[o.m].cc = [k |-> o.k, a |-> o.a, n |-> o.n]]
         [] o.op = "trap"   -> [g EXCEPT !.trap[o.m] = o.fns]
         [] OTHER           -> g

Monitors == {"X05_verdict_true", "X05_verdict_false", "X05_verdict_live", "X05_notify_gate", "X05_notify_exact",
             "X05_notify_live", "X05_atomic", "X05_readonly", "X05_order", "X05_lists"}
PropOf(m) == "X05"

OnNotes(b) == SelectSeq(b.notes, LAMBDA x : x.kind \in OnFns)
CanNotes(b) == SelectSeq(b.notes, LAMBDA x : x.kind \in CanOps)
\* the getters show exactly the registry `gg`
ListsSame(gg, b) == /\ \A h \in Hooks : ToSetS(b.mods[h]) = gg.mods[h]
                    /\ b.bound = gg.bound \cap gg.toks
ListsOk(gg, b) == /\ ListsSame(gg, b)
                  /\ \A h \in Hooks : Len(b.mods[h]) = Cardinality(gg.mods[h]) /\ b.reg[h] = gg.mods[h] \cap gg.core
NoTrap(g, o) == \A m \in Reg(g, o) : ~Traps(g, m, o)

Ante(m, g, ev) ==
  LET o == ev.op  ok == ev.res = "ok" IN
  CASE m = "X05_verdict_true"  -> o.op \in CanOps /\ ok /\ ev.ret
    [] m = "X05_verdict_false" -> o.op \in CanOps /\ ok /\ ~ev.ret /\ o.amt >= 0
    [] m = "X05_verdict_live"  -> o.op \in CanOps /\ o.amt >= 0 /\ NoTrap(g, o)
    [] m = "X05_notify_gate"   -> o.op \in NotifyOps \cup {"require"} /\ ok
    [] m = "X05_notify_exact"  -> o.op \in NotifyOps /\ ok
    [] m = "X05_notify_live"   -> /\ o.op \in NotifyOps \cup {"require"} /\ Authorized(o) /\ o.tok \in g.bound
                                  /\ o.amt >= 0 /\ NoTrap(g, o)
    [] m = "X05_atomic"        -> o.op \in HookOps /\ ~ok
    [] m = "X05_readonly"      -> o.op \in CanOps /\ ok
    [] m = "X05_order"         -> o.op \in CanOps /\ ok
    [] m = "X05_lists"         -> o.op \notin HookOps

OrderOk(g, ev) ==
  LET o == ev.op  R == Reg(g, o)  C == CanNotes(ev.obs)  n == Len(C) IN
  /\ \A i \in 1..n : C[i].m \in R /\ C[i] = ExpNote(o, C[i].m)               \* only this hook's modules, these arguments
  /\ \A i, j \in 1..n : i # j => C[i].m # C[j].m                             \* nobody is asked twice
  /\ \A i \in 1..(n - 1) : Answers(g, C[i].m, o)                             \* nothing is consulted after a FALSE
  /\ (ev.ret => {C[i].m : i \in 1..n} = R)                                   \* TRUE only after asking everybody
  /\ ((~ev.ret /\ o.amt >= 0) => (n > 0 /\ ~Answers(g, C[n].m, o)))          \* FALSE right at the first rejection

Cons(m, g, ev) ==
  LET o == ev.op  b == ev.obs  R == Reg(g, o) IN
  CASE m = "X05_verdict_true"  -> \A x \in R : Answers(g, x, o)
    [] m = "X05_verdict_false" -> \E x \in R : ~Answers(g, x, o)
    [] m = "X05_verdict_live"  -> ev.res = "ok"
    [] m = "X05_notify_gate"   -> Authorized(o) /\ o.tok \in g.bound
    [] m = "X05_notify_exact"  -> LET N == OnNotes(b) IN
                                  Len(N) = Cardinality(R) /\ ToSetS(N) = {ExpNote(o, x) : x \in R}
    [] m = "X05_notify_live"   -> ev.res = "ok"
    [] m = "X05_atomic"        -> b.notes = <<>> /\ ListsSame(g, b)
    [] m = "X05_readonly"      -> OnNotes(b) = <<>> /\ ListsSame(g, b)
    [] m = "X05_order"         -> OrderOk(g, ev)
    [] m = "X05_lists"         -> ListsOk(GNext(g, ev), b)

Holds(m, g, ev) == Ante(m, g, ev) => Cons(m, g, ev)
Key(m, g, ev) == ev.op.op
Failing(g, ev) == {m \in Monitors : ~Holds(m, g, ev)}

(* Trace validation never skips the rest of a run: after a failure the registry part of the ghost is re-based   *)
(* on what the getters answered, so that one defect is reported where it happens and not at every later step.  *)
GStep(g, ev) ==
  IF Failing(g, ev) = {} THEN GNext(g, ev)
  ELSE LET g2 == GNext(g, ev) IN
       [g2 EXCEPT !.mods = [h \in Hooks |-> ToSetS(ev.obs.mods[h]) \cap g.mset],
                  !.bound = (g2.bound \ g.toks) \cup ev.obs.bound]
=============================================================================
