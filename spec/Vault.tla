------------------------------- MODULE Vault -------------------------------
(***************************************************************************)
(* Property-level specification of the ERC-4626 style vault                *)
(* (packages/tokens/src/vault, examples/fungible-vault) over an asset      *)
(* token.  Source of truth for C05 (rounding in the vault's favour,        *)
(* previews, exact movements) and for the vault-share flavour of C01 / C02.*)
(*                                                                         *)
(* Event: ev.op = [op, x, recv, own, oper, auth, nosub]                    *)
(*   deposit / mint   : x assets / shares, own = source of the assets,     *)
(*                      oper = operator, recv = receiver of the shares     *)
(*   withdraw / redeem: x assets / shares, own = owner of the shares,      *)
(*                      recv = receiver of the assets                      *)
(*   donate           : own sends x assets straight to the vault           *)
(*   sapprove/aapprove: own approves oper for x shares / assets            *)
(*   stransfer / stransfer_from : share transfer own -> recv (by oper)     *)
(*   auth = set of accounts authorizing the call (with the nested asset    *)
(*   transfer unless nosub)                                                *)
(* ev.pv  = the matching preview called in the pre-state (Bad if it failed) *)
(* ev.ret = value returned by the operation (Bad if it failed)             *)
(* ev.obs = [asset, sh : Acct+{"v"} -> Int, supply, sal, aal]              *)
(* ev.evs = share-token events [k, o, f, t, a, s]                          *)
(***************************************************************************)
EXTENDS Integers, Sequences, FiniteSets

None == "none"
V == "v"             \* the vault's own address in every map
Bad == -999999

RECURSIVE SumOver(_, _)
SumOver(f, S) == IF S = {} THEN 0 ELSE LET x == CHOOSE y \in S : TRUE IN f[x] + SumOver(f, S \ {x})

RECURSIVE Pow10(_)
Pow10(n) == IF n = 0 THEN 1 ELSE 10 * Pow10(n - 1)

GInit(obs, off) ==
  [accts |-> DOMAIN obs.asset, asset |-> obs.asset, sh |-> obs.sh, supply |-> obs.supply,
   sal |-> obs.sal, aal |-> obs.aal, P |-> Pow10(off)]

Enter == {"deposit", "mint"}
Leave == {"withdraw", "redeem"}
VaultOps == Enter \cup Leave

\* assets and shares an operation moves, given its argument and its returned value
AssetsOf(o, ret) == IF o.op \in {"deposit", "withdraw"} THEN o.x ELSE ret
SharesOf(o, ret) == IF o.op \in {"mint", "redeem"} THEN o.x ELSE ret

Add(f, k, d) == [f EXCEPT ![k] = @ + d]

ExpAsset(g, o, ret) ==
  CASE o.op \in Enter  -> Add(Add(g.asset, o.own, -AssetsOf(o, ret)), V, AssetsOf(o, ret))
    [] o.op \in Leave  -> Add(Add(g.asset, V, -AssetsOf(o, ret)), o.recv, AssetsOf(o, ret))
    [] o.op = "donate" -> Add(Add(g.asset, o.own, -o.x), V, o.x)
    [] OTHER           -> g.asset
ExpSh(g, o, ret) ==
  CASE o.op \in Enter  -> Add(g.sh, o.recv, SharesOf(o, ret))
    [] o.op \in Leave  -> Add(g.sh, o.own, -SharesOf(o, ret))
    [] o.op \in {"stransfer", "stransfer_from"} -> Add(Add(g.sh, o.own, -o.x), o.recv, o.x)
    [] OTHER           -> g.sh
ExpSupply(g, o, ret) ==
  CASE o.op \in Enter -> g.supply + SharesOf(o, ret)
    [] o.op \in Leave -> g.supply - SharesOf(o, ret)
    [] OTHER          -> g.supply

ExpEvents(o, ret) ==
  CASE o.op \in Enter -> << [k |-> "deposit", o |-> o.oper, f |-> o.own, t |-> o.recv,
                             a |-> AssetsOf(o, ret), s |-> SharesOf(o, ret)] >>
    [] o.op \in Leave -> << [k |-> "withdraw", o |-> o.oper, f |-> o.own, t |-> o.recv,
                             a |-> AssetsOf(o, ret), s |-> SharesOf(o, ret)] >>
    [] o.op \in {"stransfer", "stransfer_from"} ->
                         << [k |-> "transfer", o |-> None, f |-> o.own, t |-> o.recv, a |-> 0, s |-> o.x] >>
    [] OTHER -> << >>
ShareEvents(evs) == SelectSeq(evs, LAMBDA e : e.k \in {"deposit", "withdraw", "transfer", "mint", "burn"})

GNext(g, ev) ==
  LET o == ev.op IN
  IF ev.res # "ok" THEN g ELSE
  [g EXCEPT !.asset = ev.obs.asset, !.sh = ev.obs.sh, !.supply = ev.obs.supply,
            !.sal = ev.obs.sal, !.aal = ev.obs.aal]

(* exact rational formulas, as cross-multiplied integer inequalities ------------------*)
IsFloor(q, num, den) == q * den <= num /\ num < (q + 1) * den
IsCeil(q, num, den)  == (q - 1) * den < num /\ num <= q * den

Monitors == {"C05_rate", "C05_round", "C05_preview", "C05_movement", "C05_nonneg", "C05_entitled", "C05_getters",
             "C01_vault_sum", "C01_vault_fail", "C01_vault_events", "C01_vault_delta",
             "C02_vault_debit", "C02_vault_allow"}
PropOf(m) == CASE m \in {"C05_rate", "C05_round", "C05_preview", "C05_movement", "C05_nonneg", "C05_entitled", "C05_getters"} -> "C05"
               [] m \in {"C02_vault_debit", "C02_vault_allow"} -> "C02"
               [] OTHER -> "C01"

ShDecreased(g, ev) == {a \in g.accts : ev.obs.sh[a] < g.sh[a]}

Ante(m, g, ev) ==
  LET o == ev.op  ok == ev.res = "ok" IN
  CASE m = "C05_rate"     -> ok
    [] m = "C05_round"    -> ok /\ o.op \in VaultOps
    [] m = "C05_preview"  -> ok /\ o.op \in VaultOps
    [] m = "C05_movement" -> ok /\ o.op \in VaultOps \cup {"donate"}
    [] m = "C05_nonneg"   -> TRUE
    [] m = "C05_entitled" -> ok /\ o.op \in Leave /\ o.oper # o.own
    [] m = "C05_getters"  -> TRUE
    [] m = "C01_vault_sum"    -> TRUE
    [] m = "C01_vault_fail"   -> ~ok
    [] m = "C01_vault_events" -> TRUE
    [] m = "C01_vault_delta"  -> ok /\ o.op \in {"stransfer", "stransfer_from", "sapprove", "aapprove"}
    [] m = "C02_vault_debit"  -> ShDecreased(g, ev) # {}
    [] m = "C02_vault_allow"  -> TRUE

Cons(m, g, ev) ==
  LET o == ev.op  ok == ev.res = "ok"  obs == ev.obs
      A == g.asset[V]  S == g.supply  P == g.P
      A2 == obs.asset[V]  S2 == obs.supply
  IN
  \* the assets-per-share rate (A+1)/(S+P) never decreases
  CASE m = "C05_rate"  -> (A2 + 1) * (S + P) >= (A + 1) * (S2 + P)
    \* exact formula, rounded against the user
    [] m = "C05_round" ->
         (CASE o.op = "deposit"  -> IsFloor(ev.ret, o.x * (S + P), A + 1)
            [] o.op = "mint"     -> IsCeil(ev.ret, o.x * (A + 1), S + P)
            [] o.op = "withdraw" -> IsCeil(ev.ret, o.x * (S + P), A + 1)
            [] o.op = "redeem"   -> IsFloor(ev.ret, o.x * (A + 1), S + P))
    [] m = "C05_preview"  -> ev.pv = ev.ret
    \* exactly the returned amounts move between exactly the named parties
    [] m = "C05_movement" -> /\ obs.asset = ExpAsset(g, o, ev.ret)
                             /\ obs.sh = ExpSh(g, o, ev.ret)
                             /\ obs.supply = ExpSupply(g, o, ev.ret)
    [] m = "C05_nonneg"   -> \A a \in g.accts : obs.asset[a] >= 0 /\ obs.sh[a] >= 0
    \* nobody takes out value he is not entitled to: an operator other than the owner leaves the vault with
    \* the owner's shares only within the share allowance the owner gave him (in shares, not in assets)
    [] m = "C05_entitled" -> g.sal[o.own][o.oper] >= g.sh[o.own] - obs.sh[o.own]
    \* the read-only conversions are the exact formula rounded down, total_assets is what the vault holds, and the
    \* max_* getters never promise an owner more than his shares are worth (ev.q: probes asked after the call)
    [] m = "C05_getters"  ->
         LET q == ev.q IN
         /\ q.ta = A2
         /\ IsFloor(q.cs1, 1 * (S2 + P), A2 + 1) /\ IsFloor(q.csx, q.px * (S2 + P), A2 + 1)
         /\ IsFloor(q.ca1, 1 * (A2 + 1), S2 + P) /\ IsFloor(q.cax, q.px * (A2 + 1), S2 + P)
         /\ \A a \in g.accts : /\ q.maxr[a] >= 0 /\ q.maxr[a] <= obs.sh[a]
                               /\ q.maxw[a] >= 0 /\ q.maxw[a] * (S2 + P) <= obs.sh[a] * (A2 + 1)
    [] m = "C01_vault_sum"  -> obs.supply = SumOver(obs.sh, g.accts)
    [] m = "C01_vault_fail" -> /\ obs.asset = g.asset /\ obs.sh = g.sh /\ obs.supply = g.supply
                               /\ \A a \in g.accts : \A b \in g.accts :
                                     /\ (obs.sal[a][b] = g.sal[a][b] \/ obs.sal[a][b] = 0)
                                     /\ (obs.aal[a][b] = g.aal[a][b] \/ obs.aal[a][b] = 0)
    [] m = "C01_vault_events" -> ShareEvents(ev.evs) = (IF ok THEN ExpEvents(o, ev.ret) ELSE << >>)
    [] m = "C01_vault_delta"  -> /\ obs.sh = ExpSh(g, o, 0) /\ obs.supply = g.supply
                                 /\ obs.asset = g.asset
    \* shares leave an account only with its authorization or through a sufficient share
    \* allowance of an authorizing operator, which then drops by exactly the shares taken
    [] m = "C02_vault_debit" ->
         \A a \in ShDecreased(g, ev) :
            LET taken == g.sh[a] - obs.sh[a] IN
            \/ o.op = "stransfer" /\ a = o.own /\ a \in o.auth
            \* a holder spending through transfer_from as his own spender authorizes the debit himself
            \/ o.op = "stransfer_from" /\ a = o.own /\ o.oper = o.own /\ a \in o.auth
            \/ o.op \in Leave /\ a = o.own /\ o.oper = o.own /\ a \in o.auth
            \/ /\ o.op \in Leave \cup {"stransfer_from"} /\ a = o.own /\ o.oper # o.own
               /\ o.oper \in o.auth
               /\ g.sal[a][o.oper] >= taken
               /\ obs.sal[a][o.oper] = g.sal[a][o.oper] - taken
    [] m = "C02_vault_allow" ->
         \A ow \in g.accts : \A s \in g.accts :
            (obs.sal[ow][s] # g.sal[ow][s] /\ obs.sal[ow][s] # 0) =>
              \/ ok /\ o.op = "sapprove" /\ o.own = ow /\ o.oper = s /\ ow \in o.auth
              \/ ok /\ o.op \in Leave \cup {"stransfer_from"} /\ o.own = ow /\ o.oper = s
                    /\ obs.sal[ow][s] < g.sal[ow][s]

Holds(m, g, ev) == Ante(m, g, ev) => Cons(m, g, ev)
Key(m, g, ev) == "other"
Failing(g, ev) == {m \in Monitors : ~Holds(m, g, ev)}
=============================================================================
