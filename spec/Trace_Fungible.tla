--------------------------- MODULE Trace_Fungible ---------------------------
(***************************************************************************)
(* Trace validation for Fungible.tla (see Trace_RoleTransfer for the       *)
(* conventions): one state per recorded line, violations collected.        *)
(***************************************************************************)
EXTENDS Fungible, TLC, Json, IOUtils

Rec == ndJsonDeserialize(IOEnv.TRACE)

VARIABLES l, g, dead, cnt
vars == <<l, g, dead, cnt>>

ToSet(s) == {s[i] : i \in DOMAIN s}
Norm(ev) == [ev EXCEPT !.op = [op |-> ev.op.op, from |-> ev.op.from, to |-> ev.op.to, sp |-> ev.op.sp,
                                amt |-> ev.op.amt, until |-> ev.op.until, auth |-> ToSet(ev.op.auth),
                                k |-> ev.op.k]]

G0 == [flavour |-> "none"]
Init == l = 1 /\ g = G0 /\ dead = {} /\ cnt = [m \in Monitors |-> 0]

Report(ev, m) == PrintT(<<"VIOL", ToJson([run |-> ev.run, i |-> ev.i, line |-> l, mon |-> m,
                                          prop |-> PropOf(m), key |-> Key(m, g, ev), after |-> dead])>>)

Next ==
  /\ l <= Len(Rec)
  /\ l' = l + 1
  /\ LET raw == Rec[l] IN
     IF raw.op.op = "reset"
     THEN /\ g' = GInit(raw.op.flavour, raw.obs, raw.op.cap, raw.op.owner)
          /\ dead' = {} /\ UNCHANGED cnt
     ELSE LET ev == Norm(raw)  f == {m \in Failing(g, ev) : PropOf(m) \notin dead} IN
          /\ \A m \in f : Report(ev, m)
          /\ dead' = dead \cup {PropOf(m) : m \in f}
          /\ g' = GSync(GNext(g, ev), ev)
          /\ cnt' = [m \in Monitors |-> cnt[m] + IF Ante(m, g, ev) THEN 1 ELSE 0]
  /\ (l = Len(Rec) => PrintT(<<"DONE", l, ToJson(cnt')>>))

Spec == Init /\ [][Next]_vars
=============================================================================
