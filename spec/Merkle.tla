------------------------------- MODULE Merkle -------------------------------
(***************************************************************************)
(* Property-level specification of Merkle proof verification               *)
(* (contract-utils crypto::merkle Verifier::verify / verify_with_index)    *)
(* and of the Merkle distributor (merkle_distributor, the airdrop example).*)
(* Source of truth for C17.                                                *)
(*                                                                         *)
(* Hashes are terms of a FREE ALGEBRA (the collision-free idealisation):   *)
(*   <<"L", salt, k>>   hash of the k-th leaf of the leaf family `salt`    *)
(*   <<"X", t, 0>>      a fresh value occurring nowhere else               *)
(*   <<"Z", 0, 0>>      the fixed filler of the "pad" construction         *)
(*   <<"C", {a, b}>>    sorted-pair node (the pair order is normalised,    *)
(*                      so it is a set; {a} when both children are equal)  *)
(*   <<"N", <<a, b>>>>  positional node                                    *)
(* A run has ONE mode: "s" (sorted-pair hashing, `verify`) or "p"          *)
(* (positional hashing, `verify_with_index`); the two are never mixed,     *)
(* because on real bytes a positional node of an ordered pair coincides    *)
(* with the sorted-pair node.                                              *)
(*                                                                         *)
(* Event:  ev.op  = [op, n, style, salt, pos, corr, i, j]                  *)
(*     op \in {"verify", "claim", "set_root", "advance" (j ledgers pass)}  *)
(*     (n, style, salt): the tree the proof was produced for / the tree    *)
(*       whose root is installed;  pos: 0-based leaf position              *)
(*     corr \in {"none","leaf","alter","swap","drop","extend","index",     *)
(*               "root","other","interior"}  with parameters i, j          *)
(*   ev.res \in {"ok","fail"},  ev.ret \in {"true","false","na"}           *)
(*   ev.obs = [claimed : set of indices with is_claimed = true,            *)
(*             bal : sequence, bal[k+1] = token balance of receiver k,     *)
(*             pool : token balance of the distributing contract]          *)
(***************************************************************************)
EXTENDS Naturals, Sequences, FiniteSets

NoTree == [n |-> 0, style |-> "none", salt |-> 0]
TreeOf(o) == [n |-> o.n, style |-> o.style, salt |-> o.salt]

L(sa, k) == <<"L", sa, k>>
X(t) == <<"X", t, 0>>
Z == <<"Z", 0, 0>>
H(m, a, b) == IF m = "s" THEN <<"C", {a, b}>> ELSE <<"N", <<a, b>>>>

RECURSIVE Pow2(_)
Pow2(k) == IF k = 0 THEN 1 ELSE 2 * Pow2(k - 1)

\* amount allotted to leaf k of family sa (the receiver of leaf k is receiver k)
Amt(sa, k) == 10 * (k + 1) + 5 * sa

(* tree constructions ------------------------------------------------------*)
\* level by level: "promote" (odd node moves up unchanged), "dup" (odd node paired with
\* itself), "pad" (odd node paired with the filler)
Up(m, st, lv) ==
  LET n == Len(lv)  half == (n + 1) \div 2 IN
  [i \in 1..half |-> IF 2 * i <= n THEN H(m, lv[2 * i - 1], lv[2 * i])
                     ELSE CASE st = "promote" -> lv[n]
                            [] st = "dup"     -> H(m, lv[n], lv[n])
                            [] OTHER          -> H(m, lv[n], Z)]

RECURSIVE LRoot(_, _, _)
LRoot(m, st, lv) == IF Len(lv) = 1 THEN lv[1] ELSE LRoot(m, st, Up(m, st, lv))

RECURSIVE LProof(_, _, _, _)
LProof(m, st, lv, p) ==
  IF Len(lv) = 1 THEN <<>> ELSE
  LET n == Len(lv)
      sib == IF p % 2 = 0 THEN p + 1 ELSE p - 1
      here == IF sib < n THEN <<lv[sib + 1]>>
              ELSE CASE st = "promote" -> <<>>
                     [] st = "dup"     -> <<lv[p + 1]>>
                     [] OTHER          -> <<Z>>
  IN here \o LProof(m, st, Up(m, st, lv), p \div 2)

\* "heap": the complete binary tree in array layout of OpenZeppelin's merkle-tree library:
\* node i has children 2i+1, 2i+2; leaf k sits at array index 2n-2-k
RECURSIVE HNode(_, _, _)
HNode(m, t, i) == IF i + 1 >= t.n THEN L(t.salt, 2 * t.n - 2 - i)
                  ELSE H(m, HNode(m, t, 2 * i + 1), HNode(m, t, 2 * i + 2))
RECURSIVE HProof(_, _, _)
HProof(m, t, i) == IF i = 0 THEN <<>>
                   ELSE <<HNode(m, t, IF i % 2 = 1 THEN i + 1 ELSE i - 1)>> \o HProof(m, t, (i - 1) \div 2)

\* "chain": maximally unbalanced, node_j = H(node_{j-1}, leaf_j)
RECURSIVE CNode(_, _, _)
CNode(m, t, j) == IF j = 0 THEN L(t.salt, 0) ELSE H(m, CNode(m, t, j - 1), L(t.salt, j))
CProof(m, t, k) ==
  IF t.n = 1 THEN <<>> ELSE
  LET first == IF k = 0 THEN L(t.salt, 1) ELSE CNode(m, t, k - 1)
      from  == IF k = 0 THEN 2 ELSE k + 1
  IN IF from >= t.n THEN <<first>>
     ELSE <<first>> \o [i \in 1..(t.n - from) |-> L(t.salt, from + i - 1)]

LeavesOf(t) == [k \in 1..t.n |-> L(t.salt, k - 1)]

Root(m, t) == CASE t.style = "heap"  -> HNode(m, t, 0)
                [] t.style = "chain" -> CNode(m, t, t.n - 1)
                [] OTHER             -> LRoot(m, t.style, LeavesOf(t))

\* the proof the tooling produces for leaf k (0-based) of tree t
Proof(m, t, k) == CASE t.style = "heap"  -> HProof(m, t, 2 * t.n - 2 - k)
                    [] t.style = "chain" -> CProof(m, t, k)
                    [] OTHER             -> LProof(m, t.style, LeavesOf(t), k)

(* the folds of Verifier::verify and Verifier::verify_with_index --------------*)
RECURSIVE FoldS(_, _)
FoldS(x, pr) == IF Len(pr) = 0 THEN x ELSE FoldS(H("s", x, Head(pr)), Tail(pr))

RECURSIVE FoldP(_, _, _)
FoldP(x, pr, idx) ==
  IF Len(pr) = 0 THEN x
  ELSE FoldP(IF idx % 2 = 0 THEN H("p", x, Head(pr)) ELSE H("p", Head(pr), x), Tail(pr), idx \div 2)

Fold(m, x, pr, idx) == IF m = "s" THEN FoldS(x, pr) ELSE FoldP(x, pr, idx)

\* what the verifier must answer for (proof, root, leaf, index): membership is witnessed exactly
\* when folding the proof from the leaf by the verifier's pairing rule yields the root; the
\* positional form has no position for an index beyond 2^Len(proof)
Accepts(m, pr, root, leaf, idx) ==
  /\ (m = "p" => Len(pr) < 32 /\ idx < Pow2(Len(pr)))
  /\ Fold(m, leaf, pr, idx) = root

(* corruptions ------------------------------------------------------------------*)
Corrupt(pr, o) ==
  LET n == Len(pr) IN
  CASE o.corr = "alter" /\ o.i \in 1..n -> [pr EXCEPT ![o.i] = X(2)]
    [] o.corr = "swap" /\ o.i \in 1..n /\ o.j \in 1..n -> [pr EXCEPT ![o.i] = pr[o.j], ![o.j] = pr[o.i]]
    [] o.corr = "drop" /\ o.i \in 1..n -> SubSeq(pr, 1, o.i - 1) \o SubSeq(pr, o.i + 1, n)
    [] o.corr = "extend" /\ o.i \in 1..(n + 1) ->
         SubSeq(pr, 1, o.i - 1) \o <<IF o.j \in 1..n THEN pr[o.j] ELSE X(2)>> \o SubSeq(pr, o.i, n)
    \* an element that is no 32-byte hash at all (the element type of a host vector is not checked at the contract's
    \* boundary): for the property it is a foreign element like any other
    [] o.corr = "illtyped" /\ o.i \in 1..(n + 1) -> SubSeq(pr, 1, o.i - 1) \o <<X(2)>> \o SubSeq(pr, o.i, n)
    [] o.corr = "interior" /\ o.i \in 1..n -> SubSeq(pr, o.i + 1, n)
    [] OTHER -> pr

\* the honest proof the input was derived from ("other": the proof of leaf j)
BaseProof(m, o) == Proof(m, TreeOf(o), IF o.corr = "other" THEN o.j ELSE o.pos)
ProofOf(m, o) == Corrupt(BaseProof(m, o), o)

\* the index presented ("interior": the position of the presented node on its level)
IdxOf(o) == CASE o.corr = "index" -> o.j
              [] o.corr = "interior" -> o.pos \div Pow2(o.i)
              [] OTHER -> o.pos

\* the leaf hash presented.  A claim hashes (index, receiver, amount): changing the amount or
\* the index yields a value that is no leaf of any tree.
LeafOf(m, o) ==
  CASE o.corr = "leaf" -> X(1)
    [] o.corr = "index" /\ o.op = "claim" -> X(1)
    [] o.corr = "interior" /\ o.i \in 1..Len(BaseProof(m, o)) ->
         Fold(m, L(o.salt, o.pos), SubSeq(BaseProof(m, o), 1, o.i), o.pos)
    [] OTHER -> L(o.salt, o.pos)

\* the root a `verify` call is made against
OtherTree(t, j) == IF j = 1 THEN [t EXCEPT !.salt = 1 - t.salt]
                   ELSE [t EXCEPT !.n = IF t.n > 1 THEN t.n - 1 ELSE 2]
RootOfV(m, o) == IF o.corr = "root"
                 THEN (IF o.j = 0 THEN X(3) ELSE Root(m, OtherTree(TreeOf(o), o.j)))
                 ELSE Root(m, TreeOf(o))

ValidVerify(m, o) == Accepts(m, ProofOf(m, o), RootOfV(m, o), LeafOf(m, o), IdxOf(o))
ValidClaim(g, o)  == /\ g.root # NoTree
                     /\ Accepts(g.mode, ProofOf(g.mode, o), Root(g.mode, g.root), LeafOf(g.mode, o), IdxOf(o))

ClaimAmt(o) == Amt(o.salt, o.pos) + (IF o.corr = "leaf" THEN 1 ELSE 0)

(* ghost state ---------------------------------------------------------------------*)
\* flavour "sha" | "kec" (thin contracts over the library) | "airdrop" (the example, SHA-256)
GInit(flavour, mode, obs) ==
  [flavour |-> flavour, mode |-> mode, root |-> NoTree, claimed |-> {}, bal |-> obs.bal, pool |-> obs.pool]

ExpBal(g, o) == IF g.flavour = "airdrop" /\ o.op = "claim"
                THEN [g.bal EXCEPT ![o.pos + 1] = @ + ClaimAmt(o)] ELSE g.bal

GNext(g, ev) ==
  LET o == ev.op IN
  IF ev.res # "ok" THEN g ELSE
  CASE o.op = "set_root" -> [g EXCEPT !.root = TreeOf(o), !.pool = ev.obs.pool]   \* funding is the deployer's choice
    [] o.op = "claim"    -> [g EXCEPT !.claimed = @ \cup {IdxOf(o)}, !.bal = ExpBal(g, o),
                                      !.pool = IF g.flavour = "airdrop" THEN ev.obs.pool ELSE @]
    [] OTHER             -> g

(* monitors ------------------------------------------------------------------------*)
Monitors == {"C17_accept", "C17_reject", "C17_once", "C17_marked", "C17_failed_marks_nothing", "C17_airdrop"}
PropOf(m) == "C17"

Accepted(ev) == IF ev.op.op = "verify" THEN ev.res = "ok" /\ ev.ret = "true" ELSE ev.res = "ok"

Ante(m, g, ev) ==
  LET o == ev.op IN
  CASE m = "C17_accept" ->
         \* an honest proof for a leaf of the tree with that root (claims: the current root,
         \* index not yet claimed)
         \/ o.op = "verify" /\ o.corr = "none" /\ ValidVerify(g.mode, o)
         \/ o.op = "claim" /\ o.corr = "none" /\ ValidClaim(g, o) /\ IdxOf(o) \notin g.claimed
    [] m = "C17_reject" ->
         \/ o.op = "verify" /\ ~ValidVerify(g.mode, o)
         \/ o.op = "claim" /\ ~ValidClaim(g, o)
    [] m = "C17_once" -> o.op = "claim" /\ IdxOf(o) \in g.claimed
    [] m = "C17_marked" -> TRUE
    [] m = "C17_failed_marks_nothing" -> o.op = "claim" /\ ev.res # "ok"
    [] m = "C17_airdrop" -> g.flavour = "airdrop" /\ ev.res = "ok" /\ o.op # "set_root"

Cons(m, g, ev) ==
  LET o == ev.op IN
  CASE m = "C17_accept" -> Accepted(ev)
    [] m = "C17_reject" -> ~Accepted(ev)
    [] m = "C17_once"   -> ev.res # "ok"
    \* is_claimed answers exactly for the indices of the successful claims so far: marked only by
    \* a successful claim (which C17_reject / C17_once force to be valid and first), never unmarked
    [] m = "C17_marked" -> ev.obs.claimed = GNext(g, ev).claimed
    [] m = "C17_failed_marks_nothing" ->
         ev.obs.claimed = g.claimed /\ ev.obs.bal = g.bal /\ ev.obs.pool = g.pool
    \* a successful claim pays exactly the leaf's amount to exactly the leaf's receiver, out of the pool
    [] m = "C17_airdrop" -> /\ ev.obs.bal = ExpBal(g, o)
                            /\ ev.obs.pool + (IF o.op = "claim" THEN ClaimAmt(o) ELSE 0) = g.pool

Holds(m, g, ev) == Ante(m, g, ev) => Cons(m, g, ev)

Key(m, g, ev) ==
  IF m = "C17_reject" /\ ev.op.op = "claim" /\ IdxOf(ev.op) \in g.claimed THEN "already_claimed"
  ELSE IF m \in {"C17_accept", "C17_reject"} THEN ev.op.op \o "_" \o ev.op.corr
  ELSE "other"

Failing(g, ev) == {m \in Monitors : ~Holds(m, g, ev)}
=============================================================================
