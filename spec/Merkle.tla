------------------------------- MODULE Merkle -------------------------------
(***************************************************************************)
(* Property-level specification of Merkle proof verification               *)
(* (contract-utils crypto::merkle Verifier::verify / verify_with_index)    *)
(* and of the Merkle distributor (merkle_distributor, the airdrop example).*)
(* Source of truth for C17.                                                *)
(*                                                                         *)
(* Hashes are terms of a FREE ALGEBRA (the collision-free idealisation):   *)
(*   <<"L", salt, k>>   hash of the k-th leaf of the leaf family `salt`    *)
(*   <<"X", t, 0>>      a fresh value occurring nowhere else               *)
(*   <<"Z", 0, 0>>      the fixed filler of the "pad" construction         *)
(*   <<"C", {a, b}>>    sorted-pair node (the pair order is normalised,    *)
(*                      so it is a set; {a} when both children are equal)  *)
(*   <<"N", <<a, b>>>>  positional node                                    *)
(* A run has ONE mode: "s" (sorted-pair hashing, `verify`) or "p"          *)
(* (positional hashing, `verify_with_index`); the two are never mixed,     *)
(* because on real bytes a positional node of an ordered pair coincides    *)
(* with the sorted-pair node.                                              *)
(*                                                                         *)
(* Event:  ev.op  = [op, n, style, salt, pos, corr, i, j]                  *)
(*     op \in {"verify", "claim", "set_root"}                              *)
(*     (n, style, salt): the tree the proof was produced for / the tree    *)
(*       whose root is installed;  pos: 0-based leaf position              *)
(*     corr \in {"none","leaf","alter","swap","drop","extend","index",     *)
(*               "root","other","interior"}  with parameters i, j          *)
(*   ev.res \in {"ok","fail"},  ev.ret \in {"true","false","na"}           *)
(*   ev.obs = [claimed : set of indices with is_claimed = true,            *)
(*             bal : sequence, bal[k+1] = token balance of receiver k,     *)
(*             pool : token balance of the distributing contract]          *)
(***************************************************************************)
EXTENDS Naturals, Sequences, FiniteSets

NoTree == [n |-> 0, style |-> "none", salt |-> 0]
TreeOf(o) == [n |-> o.n, style |-> o.style, salt |-> o.salt]

L(sa, k) == <<"L", sa, k>>
X(t) == <<"X", t, 0>>
Z == <<"Z", 0, 0>>
H(m, a, b) == IF m = "s" THEN <<"C", {a, b}>> ELSE <<"N", <<a, b>>>>

RECURSIVE Pow2(_)
Pow2(k) == IF k = 0 THEN 1 ELSE 2 * Pow2(k - 1)

\* amount allotted to leaf k of family sa (the receiver of leaf k is receiver k)
Amt(sa, k) == 10 * (k + 1) + 5 * sa

(* tree constructions ------------------------------------------------------*)
\* level by level: "promote" (odd node moves up unchanged), "dup" (odd node paired with
\* itself), "pad" (odd node paired with the filler)
Up(m, st, lv) ==
  LET n == Len(lv)  half == (n + 1) \div 2 IN
  [i \in 1..half |-> IF 2 * i <= n THEN H(m, lv[2 * i - 1], lv[2 * i])
                     ELSE CASE st = "promote" -> lv[n]
                            [] st = "dup"     -> H(m, lv[n], lv[n])
                            [] OTHER          -> H(m, lv[n], Z)]

RECURSIVE LRoot(_, _, _)
LRoot(m, st, lv) == IF Len(lv) = 1 THEN lv[1] ELSE LRoot(m, st, Up(m, st, lv))

RECURSIVE LProof(_, _, _, _)
LProof(m, st, lv, p) ==
  IF Len(lv) = 1 THEN <<>> ELSE
  LET n == Len(lv)
      sib == IF p % 2 = 0 THEN p + 1 ELSE p - 1
      here == IF sib < n THEN <<lv[sib + 1]>>
              ELSE CASE st = "promote" -> <<>>
                     [] st = "dup"     -> <<lv[p + 1]>>
                     [] OTHER          -> <<Z>>
  IN here \o LProof(m, st, Up(m, st, lv), p \div 2)

\* "heap": the complete binary tree in array layout of OpenZeppelin's merkle-tree library:
\* node i has children 2i+1, 2i+2; leaf k sits at array index 2n-2-k
RECURSIVE HNode(_, _, _)
HNode(m, t, i) == IF i + 1 >= t.n THEN L(t.salt, 2 * t.n - 2 - i)
                  ELSE H(m, HNode(m, t, 2 * i + 1), HNode(m, t, 2 * i + 2))
RECURSIVE HProof(_, _, _)
HProof(m, t, i) == IF i = 0 THEN <<>>
                   ELSE <<HNode(m, t, IF i % 2 = 1 THEN i + 1 ELSE i - 1)>> \o HProof(m, t, (i - 1) \div 2)

\* "chain": maximally unbalanced, node_j = H(node_{j-1}, leaf_j)
RECURSIVE CNode(_, _, _)
CNode(m, t, j) == IF j = 0 THEN L(t.salt, 0) ELSE H(m, CNode(m, t, j - 1), L(t.salt, j))
CProof(m, t, k) ==
  IF t.n = 1 THEN <<>> ELSE
  LET first == IF k = 0 THEN L(t.salt, 1) ELSE CNode(m, t, k - 1)
      from  == IF k = 0 THEN 2 ELSE k + 1
  IN IF from >= t.n THEN <<first>>
     ELSE <<first>> \o [i \in 1..(t.n - from) |-> L(t.salt, from + i - 1)]

LeavesOf(t) == [k \in 1..t.n |-> L(t.salt, k - 1)]

Root(m, t) == CASE t.style = "heap"  -> HNode(m, t, 0)
                [] t.style = "chain" -> CNode(m, t, t.n - 1)
                [] OTHER             -> LRoot(m, t.style, LeavesOf(t))

\* the proof the tooling produces for leaf k (0-based) of tree t
Proof(m, t, k) == CASE t.style = "heap"  -> HProof(m, t, 2 * t.n - 2 - k)
                    [] t.style = "chain" -> CProof(m, t, k)
                    [] OTHER             -> LProof(m, t.style, LeavesOf(t), k)
