----------------------------- MODULE MC_BigInt -----------------------------
(* Exhaustive check of BigInt.tla against TLC's native integers at Base = 4:  *)
(* every pair of a range that needs up to four limbs.                         *)
EXTENDS Integers, Sequences, TLC
CONSTANT R                       \* bound of the checked range -R..R
B == INSTANCE BigInt WITH Base <- 4

VARIABLE a
Init == a \in -R..R
Next == UNCHANGED a

Sgn(n) == IF n < 0 THEN -1 ELSE IF n > 0 THEN 1 ELSE 0
Correct ==
  \A b \in -R..R :
    LET x == B!FromInt(a)  y == B!FromInt(b) IN
    /\ B!ToInt(x) = a
    /\ B!ToInt(B!BAdd(x, y)) = a + b
    /\ B!ToInt(B!BSub(x, y)) = a - b
    /\ B!ToInt(B!BMul(x, y)) = a * b
    /\ B!BCmp(x, y) = Sgn(a - b)
    /\ B!BAdd(x, y) = B!FromInt(a + b)       \* canonical form (no leading zeros, no -0)
    /\ B!BMul(x, y) = B!FromInt(a * b)
    /\ B!BSign(x) = Sgn(a)
=============================================================================
