------------------------------- MODULE MC_Rwa -------------------------------
(***************************************************************************)
(* Implementation-shaped model of packages/tokens/src/rwa/storage.rs (RWA   *)
(* token over fungible::Base, contract-utils pausable) together with the    *)
(* two collaborators the harness supplies (identity verifier with per-      *)
(* account verdicts and a recovery map, compliance contract with            *)
(* configurable can_transfer / can_create verdicts that logs every call).   *)
(* Checked exhaustively by TLC against the monitors of Rwa.tla and used as  *)
(* the generator of the behaviours replayed on the real contracts.          *)
(*                                                                         *)
(* `st` mirrors the storage: Balance(a), TotalSupply (a cached total, not   *)
(* derived), Allowance(o,s) = {amount, live_until_ledger}, FrozenTokens(a), *)
(* AddressFrozen(a), Paused, and the mocks' configuration.  Every entry     *)
(* point is transcribed with the code's own order of checks; a failing      *)
(* invocation is rolled back by the host (state and compliance log).        *)
(*                                                                         *)
(* A failed call does not change the state, so a history with a failed call *)
(* in the middle adds nothing over the same history without it: after a     *)
(* failed call the behaviour is not extended (`stuck`).                     *)
(***************************************************************************)
EXTENDS Rwa, TLC, Json

CONSTANTS Acct,        \* holders
          Amts,        \* amounts tried
          NegAmt,      \* ... and -1
          Depth,       \* histories of up to Depth calls
          Now0,        \* ledger (time does not pass in this model; expiry is Fungible's subject)
          DU,          \* approve(..., live_until_ledger = Now0 + DU)
          BUG_C04,     \* TRUE: the pinned code, whose transfer_from skipped validate_transfer
          AllAuth,     \* TRUE: every subset of the parties authorizes; FALSE: principal alone / everybody else
          Kinds,       \* entry points exercised
          Emit,        \* print REPLAY lines
          EmitMod,     \* ... for one transition in EmitMod (pseudo-hash of the history), 1 = all
          EmitLast     \* {} or: emit only histories whose last call is one of these entry points and succeeds

VARIABLES st, g, viol, hist, stuck

vars == <<st, g, viol, hist, stuck>>
View == <<st, g, viol, Len(hist), stuck>>

Operator == "op"

(* the code ------------------------------------------------------------------*)
Free(s, a) == s.bal[a] - s.ftok[a]

\* RWA::validate_transfer: pause, address freeze, free tokens, identities, compliance
Validate(s, from, to, amt) ==
  /\ ~s.psd
  /\ ~s.faddr[from] /\ ~s.faddr[to]
  /\ Free(s, from) >= amt
  /\ s.idok[from] /\ s.idok[to]
  /\ s.ct

\* Base::update(Some(from), Some(to), amt) succeeds iff ...
UpdOk(s, from, amt) == amt >= 0 /\ s.bal[from] >= amt

\* Base::spend_allowance(owner, spender, amt)
AlwNow(s, o, sp) == IF s.alw[o][sp].until >= Now0 THEN s.alw[o][sp].amt ELSE 0
SpendOk(s, o, sp, amt) == amt >= 0 /\ AlwNow(s, o, sp) >= amt
Spend(s, o, sp, amt) == IF amt > 0 THEN [s EXCEPT !.alw[o][sp].amt = AlwNow(s, o, sp) - amt] ELSE s

\* the unfreeze-as-needed preamble of forced_transfer and burn
UnfreezeFor(s, a, amt) ==
  IF Free(s, a) < amt THEN [s EXCEPT !.ftok[a] = @ - (amt - Free(s, a))] ELSE s

Res(ok, s1, calls, ret) == [ok |-> ok, st |-> s1, calls |-> calls, ret |-> ret]
Fail(s) == Res(FALSE, s, <<>>, FALSE)

\* the thin token checks `operator.require_auth()` and that it is the configured operator
OpAuth(o) == o.sp = Operator /\ Operator \in o.auth

ForcedTransfer(s, from, to, amt) ==  \* RWA::forced_transfer; result [ok, st]
  IF s.bal[from] < amt \/ ~UpdOk(s, from, amt) THEN [ok |-> FALSE, st |-> s]
  ELSE [ok |-> TRUE, st |-> LET s1 == UnfreezeFor(s, from, amt) IN [s1 EXCEPT !.bal = Move(@, from, to, amt)]]

Exec(s, o) ==
  LET k == o.op  from == o.from  to == o.to  sp == o.sp  amt == o.amt IN
  CASE k = "mint" ->
         IF OpAuth(o) /\ s.idok[to] /\ s.cc /\ amt >= 0
         THEN Res(TRUE, [s EXCEPT !.bal[to] = @ + amt, !.total = @ + amt],
                  <<Call("can_create", NoOne, to, amt), Call("created", NoOne, to, amt)>>, FALSE)
         ELSE Fail(s)
    [] k = "transfer" ->
         IF from \in o.auth /\ Validate(s, from, to, amt) /\ UpdOk(s, from, amt)
         THEN Res(TRUE, [s EXCEPT !.bal = Move(@, from, to, amt)],
                  <<Call("can_transfer", from, to, amt), Call("transferred", from, to, amt)>>, FALSE)
         ELSE Fail(s)
    [] k = "transfer_from" ->
         IF /\ sp \in o.auth
            /\ (BUG_C04 \/ Validate(s, from, to, amt))
            /\ SpendOk(s, from, sp, amt)
            /\ UpdOk(s, from, amt)
         THEN Res(TRUE, [Spend(s, from, sp, amt) EXCEPT !.bal = Move(@, from, to, amt)],
                  (IF BUG_C04 THEN <<>> ELSE <<Call("can_transfer", from, to, amt)>>)
                     \o <<Call("transferred", from, to, amt)>>, FALSE)
         ELSE Fail(s)
    [] k = "approve" ->   \* Base::approve / set_allowance (Now0 + DU is always within the TTL bound)
         IF from \in o.auth /\ amt >= 0 /\ ~(amt > 0 /\ o.until < Now0)
         THEN Res(TRUE, [s EXCEPT !.alw[from][sp] = [amt |-> amt, until |-> o.until]], <<>>, FALSE)
         ELSE Fail(s)
    [] k = "forced_transfer" ->
         LET r == ForcedTransfer(s, from, to, amt) IN
         IF OpAuth(o) /\ r.ok
         THEN Res(TRUE, r.st, <<Call("transferred", from, to, amt)>>, FALSE)
         ELSE Fail(s)
    [] k = "burn" ->
         IF OpAuth(o) /\ amt <= s.bal[from] /\ amt >= 0
         THEN Res(TRUE, LET s1 == UnfreezeFor(s, from, amt) IN
                        [s1 EXCEPT !.bal[from] = @ - amt, !.total = @ - amt],
                  <<Call("destroyed", from, NoOne, amt)>>, FALSE)
         ELSE Fail(s)
    [] k = "recover" ->
         IF ~(OpAuth(o) /\ s.idok[to] /\ s.rec[from] = to) THEN Fail(s)
         ELSE IF s.bal[from] = 0 THEN Res(TRUE, s, <<>>, FALSE)
         ELSE LET lost == s.bal[from]  fz == s.ftok[from]  af == s.faddr[from]
                  s1 == ForcedTransfer(s, from, to, lost).st
                  \* freeze_partial_tokens(new, fz) cannot fail here: fz' + fz <= bal'
                  s2 == IF fz > 0 THEN [s1 EXCEPT !.ftok[to] = @ + fz] ELSE s1
                  s3 == IF af THEN [s2 EXCEPT !.faddr[to] = TRUE] ELSE s2
              IN Res(TRUE, s3, <<Call("transferred", from, to, lost)>>, TRUE)
    [] k = "freeze" ->
         IF OpAuth(o) /\ amt >= 0 /\ s.ftok[from] + amt <= s.bal[from]
         THEN Res(TRUE, [s EXCEPT !.ftok[from] = @ + amt], <<>>, FALSE) ELSE Fail(s)
    [] k = "unfreeze" ->
         IF OpAuth(o) /\ amt >= 0 /\ s.ftok[from] >= amt
         THEN Res(TRUE, [s EXCEPT !.ftok[from] = @ - amt], <<>>, FALSE) ELSE Fail(s)
    [] k = "set_frozen" ->
         IF OpAuth(o) THEN Res(TRUE, [s EXCEPT !.faddr[from] = o.flag], <<>>, FALSE) ELSE Fail(s)
    [] k = "pause" ->
         IF OpAuth(o) /\ ~s.psd THEN Res(TRUE, [s EXCEPT !.psd = TRUE], <<>>, FALSE) ELSE Fail(s)
    [] k = "unpause" ->
         IF OpAuth(o) /\ s.psd THEN Res(TRUE, [s EXCEPT !.psd = FALSE], <<>>, FALSE) ELSE Fail(s)
    [] k = "set_id"  -> Res(TRUE, [s EXCEPT !.idok[from] = o.flag], <<>>, FALSE)
    [] k = "set_ct"  -> Res(TRUE, [s EXCEPT !.ct = o.flag], <<>>, FALSE)
    [] k = "set_cc"  -> Res(TRUE, [s EXCEPT !.cc = o.flag], <<>>, FALSE)
    [] k = "set_rec" -> Res(TRUE, [s EXCEPT !.rec[from] = to], <<>>, FALSE)

\* what the public getters report
Obs(s) == [supply |-> s.total, bal |-> s.bal, frozen |-> s.ftok, afrozen |-> s.faddr, paused |-> s.psd,
           allow |-> [o \in Acct |-> [sp \in Acct |-> AlwNow(s, o, sp)]]]

(* the calls tried -------------------------------------------------------------*)
Op(k, from, to, sp, amt, flag, until, auth) ==
  [op |-> k, from |-> from, to |-> to, sp |-> sp, amt |-> amt, flag |-> flag, until |-> until,
   auth |-> auth, dt |-> 0]

\* authorizer sets for a call whose principal is p and whose other parties are ps
AuthSets(p, ps) == IF AllAuth THEN SUBSET (ps \cup {p}) ELSE {{p}, (ps \cup {Operator}) \ {p}}
\* supervisory calls: the operator alone; with AllAuth also a holder posing as operator / no authorization
SupCallers == IF AllAuth THEN {<<Operator, {Operator}>>, <<Operator, {}>>, <<"a", {"a"}>>}
              ELSE {<<Operator, {Operator}>>}

\* (a TLC configuration file cannot spell a negative number)
AmtSet == Amts \cup (IF NegAmt THEN {0 - 1} ELSE {})

Ops ==
  LET K(k) == k \in Kinds IN
       {Op("mint", NoOne, to, c[1], amt, FALSE, 0, c[2]) : to \in Acct, amt \in AmtSet, c \in IF K("mint") THEN SupCallers ELSE {}}
  \cup UNION {{Op("transfer", from, to, NoOne, amt, FALSE, 0, au) : au \in AuthSets(from, {to})}
              : from \in Acct, to \in Acct, amt \in IF K("transfer") THEN AmtSet ELSE {}}
  \cup UNION {{Op("transfer_from", from, to, sp, amt, FALSE, 0, au) : au \in AuthSets(sp, {from, to})}
              : from \in Acct, to \in Acct, sp \in Acct, amt \in IF K("transfer_from") THEN AmtSet ELSE {}}
  \cup UNION {{Op("approve", from, NoOne, sp, amt, FALSE, Now0 + DU, au) : au \in AuthSets(from, {sp})}
              : from \in Acct, sp \in Acct, amt \in IF K("approve") THEN AmtSet ELSE {}}
  \cup {Op("forced_transfer", from, to, c[1], amt, FALSE, 0, c[2])
              : from \in Acct, to \in Acct, amt \in AmtSet, c \in IF K("forced_transfer") THEN SupCallers ELSE {}}
  \cup {Op(k, from, NoOne, c[1], amt, FALSE, 0, c[2])
              : k \in {"burn", "freeze", "unfreeze"} \cap Kinds, from \in Acct, amt \in AmtSet, c \in SupCallers}
  \cup {Op("recover", from, to, c[1], 0, FALSE, 0, c[2])
              : from \in Acct, to \in Acct, c \in IF K("recover") THEN SupCallers ELSE {}}
  \cup {Op("set_frozen", from, NoOne, c[1], 0, fl, 0, c[2])
              : from \in Acct, fl \in BOOLEAN, c \in IF K("set_frozen") THEN SupCallers ELSE {}}
  \cup {Op(k, NoOne, NoOne, c[1], 0, FALSE, 0, c[2]) : k \in {"pause", "unpause"} \cap Kinds, c \in SupCallers}
  \cup {Op("set_id", a, NoOne, NoOne, 0, fl, 0, {}) : a \in IF K("set_id") THEN Acct ELSE {}, fl \in BOOLEAN}
  \cup {Op(k, NoOne, NoOne, NoOne, 0, fl, 0, {}) : k \in {"set_ct", "set_cc"} \cap Kinds, fl \in BOOLEAN}
  \cup {Op("set_rec", a, t, NoOne, 0, FALSE, 0, {}) : a \in IF K("set_rec") THEN Acct ELSE {}, t \in Acct \cup {NoOne}}

St0 == [bal |-> [a \in Acct |-> 0], total |-> 0,
        alw |-> [o \in Acct |-> [s \in Acct |-> [amt |-> 0, until |-> 0]]],
        ftok |-> [a \in Acct |-> 0], faddr |-> [a \in Acct |-> FALSE], psd |-> FALSE,
        idok |-> [a \in Acct |-> TRUE], ct |-> TRUE, cc |-> TRUE, rec |-> [a \in Acct |-> NoOne]]

Init == st = St0 /\ g = GInit(Acct) /\ viol = {} /\ hist = <<>> /\ stuck = FALSE

\* token events of a successful call
TEv(k, f, t, x) == [k |-> k, f |-> f, t |-> t, x |-> x]
ExpEvs(o, ok) ==
  IF ~ok THEN << >> ELSE
  CASE o.op = "mint" -> << TEv("mint", NoOne, o.to, o.amt) >>
    [] o.op \in {"transfer", "transfer_from", "forced_transfer"} -> << TEv("transfer", o.from, o.to, o.amt) >>
    [] o.op = "burn" -> << TEv("burn", o.from, NoOne, o.amt) >>
    [] o.op = "recover" -> IF st.bal[o.from] > 0 /\ o.from # o.to
                           THEN << TEv("transfer", o.from, o.to, st.bal[o.from]) >> ELSE << >>
    [] OTHER -> << >>

Step(o) ==
  LET r  == Exec(st, o)
      ev == [op |-> o, now |-> Now0, res |-> IF r.ok THEN "ok" ELSE "fail",
             obs |-> Obs(r.st), calls |-> r.calls, evs |-> ExpEvs(o, r.ok)]
  IN /\ st' = r.st
     /\ g' = GNext(g, ev)
     /\ viol' = viol \cup {<<m, Key(m, g, ev)>> : m \in Failing(g, ev)}
     /\ hist' = Append(hist, [op |-> o.op, from |-> o.from, to |-> o.to, sp |-> o.sp, amt |-> o.amt,
                              flag |-> o.flag, until |-> o.until, auth |-> o.auth, dt |-> o.dt,
                              exp |-> ev.res])
     /\ stuck' = ~r.ok

\* a behaviour is a sequence of successful calls followed by at most one failed call
Next == ~stuck /\ Len(hist) < Depth /\ \E o \in Ops : Step(o)

Spec == Init /\ [][Next]_vars

Bound == Len(hist) <= Depth

(* emission of behaviours (a deterministic thinning keeps the output manageable) -----------------*)
NameIdx(x) == CASE x = "a" -> 1 [] x = "b" -> 2 [] x = "c" -> 3 [] x = Operator -> 4 [] OTHER -> 0
KindSeq == <<"mint", "transfer", "transfer_from", "approve", "forced_transfer", "burn", "recover", "freeze",
             "unfreeze", "set_frozen", "pause", "unpause", "set_id", "set_ct", "set_cc", "set_rec">>
KindIdx(k) == CHOOSE i \in DOMAIN KindSeq : KindSeq[i] = k
OpCode(o) == KindIdx(o.op) + 17 * NameIdx(o.from) + 89 * NameIdx(o.to) + 449 * NameIdx(o.sp)
             + 2251 * (o.amt + 1) + (IF o.flag THEN 7919 ELSE 0) + 104729 * Cardinality(o.auth)
RECURSIVE HashFrom(_, _, _)
HashFrom(h, i, acc) == IF i > Len(h) THEN acc ELSE HashFrom(h, i + 1, (acc * 31 + OpCode(h[i])) % 1000003)
Selected(h) == /\ EmitMod = 1 \/ HashFrom(h, 1, 7) % EmitMod = 0
               /\ EmitLast = {} \/ (h[Len(h)].op \in EmitLast /\ h[Len(h)].exp = "ok")

EmitReplay == (Emit /\ Selected(hist')) => PrintT(<<"REPLAY", ToJson(hist')>>)

(* what TLC checks ----------------------------------------------------------*)
NoViolation == viol = {}

\* vacuity guard for the invariant itself: with BUG_C04 frozen > balance is reachable
NoFrozenViolation == \A v \in viol : v[1] # "C04_frozen_inv"

\* the implementation-shaped state agrees with the ghost state, and its own invariants hold
Refines ==
  /\ \A a \in Acct : /\ st.bal[a] = g.bal[a] /\ st.ftok[a] = g.frozen[a] /\ st.faddr[a] = g.afrozen[a]
                     /\ st.idok[a] = g.idok[a] /\ st.rec[a] = g.rec[a]
  /\ \A a, b \in Acct : AlwNow(st, a, b) = AllowAt(g, a, b, Now0)
  /\ st.total = g.supply /\ st.psd = g.paused /\ st.ct = g.ct /\ st.cc = g.cc

ImplInv ==
  /\ st.total = SumOver(st.bal, Acct)
  /\ \A a \in Acct : st.bal[a] >= 0 /\ 0 <= st.ftok[a] /\ st.ftok[a] <= st.bal[a]
=============================================================================
