--------------------------- MODULE Trace_SacAdmin ---------------------------
(* Trace validation for SacAdmin.tla (conventions: see Trace_RoleTransfer; `dead` stays FALSE: the ghost
   state is re-based on the observation after every step, see GStep, so no part of a run is skipped). *)
EXTENDS SacAdmin, TLC, Json, IOUtils
Rec == ndJsonDeserialize(IOEnv.TRACE)
VARIABLES l, g, dead, cnt
vars == <<l, g, dead, cnt>>
ToSet(s) == {s[i] : i \in DOMAIN s}
Norm(ev) == [ev EXCEPT !.op = [op |-> ev.op.op, via |-> ev.op.via, acct |-> ev.op.acct, amt |-> ev.op.amt,
                                flag |-> ev.op.flag, key |-> ev.op.key, sig |-> ev.op.sig, okey |-> ev.op.okey,
                                who |-> ev.op.who, auth |-> ToSet(ev.op.auth)],
                       !.obs = [admin |-> ev.obs.admin, bal |-> ev.obs.bal, authz |-> ev.obs.authz,
                                mgr |-> ToSet(ev.obs.mgr)]]
Init == l = 1 /\ g = [flavour |-> "none"] /\ dead = FALSE /\ cnt = [m \in Monitors |-> 0]
Report(ev, m) == PrintT(<<"VIOL", ToJson([run |-> ev.run, i |-> ev.i, line |-> l, mon |-> m,
                                          prop |-> PropOf(m), key |-> Key(m, g, ev)])>>)
Next ==
  /\ l <= Len(Rec)
  /\ l' = l + 1
  /\ LET raw == Rec[l] IN
     IF raw.op.op = "reset"
     THEN g' = GInit(raw.op.flavour, raw.op.max, raw.op.curr) /\ dead' = FALSE /\ UNCHANGED cnt
     ELSE IF dead THEN UNCHANGED <<g, dead, cnt>>
     ELSE LET ev == Norm(raw)  f == Failing(g, ev) IN
          /\ \A m \in f : Report(ev, m)
          /\ dead' = FALSE
          /\ g' = GStep(g, ev)
          /\ cnt' = [m \in Monitors |-> cnt[m] + IF Ante(m, g, ev) THEN 1 ELSE 0]
  /\ (l = Len(Rec) => PrintT(<<"DONE", l, ToJson(cnt')>>))
Spec == Init /\ [][Next]_vars
=============================================================================
