----------------------------- MODULE MC_Access -----------------------------
(***************************************************************************)
(* Implementation-shaped model of packages/access/src/access_control/      *)
(* storage.rs (+ the checks injected by the attribute macros into the      *)
(* nft-access-control example), checked exhaustively by TLC against the    *)
(* monitors of Access.tla and used as generator of the behaviours replayed *)
(* on the real contract.                                                   *)
(*                                                                         *)
(* Storage as the code keeps it:                                           *)
(*   admin            instance   Admin                                     *)
(*   pend             temporary  PendingAdmin (no ledger passes in this    *)
(*                               model: hand-over timing is RoleTransfer's)*)
(*   radm[r]          persistent RoleAdmin(r)                              *)
(*   cnt[r]           persistent RoleAccountsCount(r)  (absent = 0)        *)
(*   acc[r][i]        persistent RoleAccounts(r, i)    (NoOne = absent)    *)
(*   idx[r][a]        persistent HasRole(a, r) -> index (-1 = absent)      *)
(*   existing         persistent ExistingRoles : Vec<Symbol>               *)
(***************************************************************************)
EXTENDS Access, TLC, Json

CONSTANTS Acct,          \* model accounts ("a" is the initial admin)
          Role,          \* roles used as arguments of calls
          Callers,       \* accounts used as `caller` of grant / revoke / gated calls
          AuthMode,      \* "all": every subset authorizes; "few": {}, {caller}, Acct\{caller}, Acct;
                         \* "good": exactly the principal the code asks for
          Presets,       \* initial configurations (see Access!PresetGrants / PresetRadm)
          OpKinds,       \* entry points exercised
          Depth,         \* bound on the number of calls
          BUG,           \* "none", or a plausible defect re-introduced (vacuity guard):
                         \*   "stale_index"   swap-and-pop forgets to update the moved account's index
                         \*   "auth_skipped"  grant/revoke check the caller's position without require_auth
                         \*   "wrong_role"    grant/revoke look for the role itself instead of its admin role
          Emit           \* TRUE: print one REPLAY line per generated transition

VARIABLES admin, pend, radm, cnt, acc, idx, existing, preset, g, viol, hist

AllRoles == Role \cup {"minter", "burner"}
MaxI == Cardinality(Acct) + 1

impl == <<admin, pend, radm, cnt, acc, idx, existing>>
vars == <<admin, pend, radm, cnt, acc, idx, existing, preset, g, viol, hist>>
View == <<admin, pend, radm, cnt, acc, idx, existing, preset, g, viol, Len(hist)>>

(* the library's building blocks --------------------------------------------*)
Has(a, r) == idx[r][a] >= 0                                   \* has_role(..).is_some()

\* add_to_role_enumeration (MAX_ROLES = 256 is out of reach of the model)
AddEnum(a, r) ==
  LET c == cnt[r] IN
  /\ existing' = IF c = 0 THEN Append(existing, r) ELSE existing
  /\ acc' = [acc EXCEPT ![r][c] = a]
  /\ idx' = [idx EXCEPT ![r][a] = c]
  /\ cnt' = [cnt EXCEPT ![r] = c + 1]

\* remove_from_role_enumeration can run: count > 0, HasRole present, the last slot readable
CanRemove(a, r) ==
  /\ cnt[r] > 0
  /\ idx[r][a] >= 0
  /\ idx[r][a] # cnt[r] - 1 => acc[r][cnt[r] - 1] # NoOne

RemoveFirst(s, x) ==
  IF \E i \in DOMAIN s : s[i] = x
  THEN LET p == CHOOSE i \in DOMAIN s : s[i] = x /\ \A j \in 1..(i - 1) : s[j] # x
       IN SubSeq(s, 1, p - 1) \o SubSeq(s, p + 1, Len(s))
  ELSE s

\* remove_from_role_enumeration followed by the callers' removal of HasRole(a, r)
RemoveEnum(a, r) ==
  LET ri   == idx[r][a]
      li   == cnt[r] - 1
      last == acc[r][li]
      acc1 == IF ri # li THEN [acc EXCEPT ![r][ri] = last] ELSE acc
      idx1 == IF ri # li /\ BUG # "stale_index" THEN [idx EXCEPT ![r][last] = ri] ELSE idx
  IN /\ acc' = [acc1 EXCEPT ![r][li] = NoOne]
     /\ idx' = [idx1 EXCEPT ![r][a] = -1]
     /\ cnt' = [cnt EXCEPT ![r] = li]
     /\ existing' = IF li = 0 THEN RemoveFirst(existing, r) ELSE existing

\* ensure_if_admin_or_admin_role
AdminOrAdminRole(x, r) ==
  \/ admin # NoOne /\ x = admin
  \/ IF BUG = "wrong_role" THEN Has(x, r) ELSE radm[r] # NoOne /\ Has(x, radm[r])

AdminAuth(auth) == admin # NoOne /\ admin \in auth              \* enforce_admin_auth
CallerAuth(o) == BUG = "auth_skipped" \/ o.caller \in o.auth    \* caller.require_auth()

(* the entry points, checks in the code's order -------------------------------*)
ImplOk(o) ==
  CASE o.op = "grant"          -> CallerAuth(o) /\ AdminOrAdminRole(o.caller, o.role)
    [] o.op = "revoke"         -> /\ CallerAuth(o) /\ AdminOrAdminRole(o.caller, o.role)
                                  /\ Has(o.acct, o.role) /\ CanRemove(o.acct, o.role)
    [] o.op = "renounce_role"  -> /\ o.caller \in o.auth
                                  /\ Has(o.caller, o.role) /\ CanRemove(o.caller, o.role)
    [] o.op = "set_role_admin" -> AdminAuth(o.auth)
    [] o.op = "transfer"       -> AdminAuth(o.auth)
    [] o.op = "accept"         -> admin # NoOne /\ pend # NoOne /\ pend \in o.auth
    [] o.op = "renounce_admin" -> AdminAuth(o.auth) /\ pend = NoOne
    [] o.op = "admin_fn"       -> AdminAuth(o.auth)
    \* #[only_role]: ensure_role, then require_auth
    [] o.op = "mint"           -> Has(o.caller, "minter") /\ o.caller \in o.auth
    \* #[has_any_role] + require_auth in the body; #[only_any_role]
    [] o.op \in {"multi_role_action", "multi_role_auth_action"}
                               -> (Has(o.caller, "minter") \/ Has(o.caller, "burner")) /\ o.caller \in o.auth
    \* #[has_role] + require_auth inside Base::burn (the harness keeps a token in stock)
    [] o.op = "burn"           -> Has(o.caller, "burner") /\ o.caller \in o.auth

ImplEffect(o) ==
  CASE o.op = "grant"          -> /\ IF Has(o.acct, o.role) THEN UNCHANGED <<cnt, acc, idx, existing>>
                                     ELSE AddEnum(o.acct, o.role)
                                  /\ UNCHANGED <<admin, pend, radm>>
    [] o.op = "revoke"         -> RemoveEnum(o.acct, o.role) /\ UNCHANGED <<admin, pend, radm>>
    [] o.op = "renounce_role"  -> RemoveEnum(o.caller, o.role) /\ UNCHANGED <<admin, pend, radm>>
    [] o.op = "set_role_admin" -> /\ radm' = [radm EXCEPT ![o.role] = o.arole]
                                  /\ UNCHANGED <<admin, pend, cnt, acc, idx, existing>>
    [] o.op = "transfer"       -> pend' = o.acct /\ UNCHANGED <<admin, radm, cnt, acc, idx, existing>>
    [] o.op = "accept"         -> admin' = pend /\ pend' = NoOne /\ UNCHANGED <<radm, cnt, acc, idx, existing>>
    [] o.op = "renounce_admin" -> admin' = NoOne /\ UNCHANGED <<pend, radm, cnt, acc, idx, existing>>
    [] OTHER                   -> UNCHANGED impl

(* what the public getters answer in the state after the call ------------------*)
Obs == [admin   |-> admin',
        radm    |-> radm',
        has     |-> [r \in AllRoles |-> [a \in Acct |-> idx'[r][a]]],
        count   |-> cnt',
        members |-> [r \in AllRoles |-> [i \in 1..cnt'[r] |-> acc'[r][i - 1]]],
        oob     |-> [r \in AllRoles |-> \A i \in cnt'[r]..MaxI : acc'[r][i] = NoOne],
        roles   |-> existing']

(* calls ----------------------------------------------------------------------*)
Mk(k, a, r, ar, c, au) == [op |-> k, acct |-> a, role |-> r, arole |-> ar, caller |-> c, auth |-> au]

AuthsC(c) == CASE AuthMode = "all"  -> SUBSET Acct
               [] AuthMode = "few"  -> {{}, {c}, Acct \ {c}, Acct}
               [] AuthMode = "good" -> {{c}}
\* calls without a caller argument: the principal the code will ask is the admin / pending admin
AuthsP(p) == CASE AuthMode = "all"  -> SUBSET Acct
               [] AuthMode = "few"  -> {{}, Acct} \cup {{x} : x \in Acct}
               [] AuthMode = "good" -> IF p = NoOne THEN {{}} ELSE {{p}}

K(ks) == ks \cap OpKinds

Ops ==
  UNION {{Mk(k, a, r, NoOne, c, au) : au \in AuthsC(c)} :
            k \in K({"grant", "revoke"}), a \in Acct, r \in Role, c \in Callers}
  \cup UNION {{Mk(k, NoOne, r, NoOne, c, au) : au \in AuthsC(c)} : k \in K({"renounce_role"}), r \in Role, c \in Acct}
  \cup {Mk(k, NoOne, r, ar, NoOne, au) : k \in K({"set_role_admin"}), r \in Role, ar \in Role, au \in AuthsP(admin)}
  \cup {Mk(k, a, NoOne, NoOne, NoOne, au) : k \in K({"transfer"}), a \in Acct, au \in AuthsP(admin)}
  \cup {Mk(k, NoOne, NoOne, NoOne, NoOne, au) : k \in K({"accept"}), au \in AuthsP(pend)}
  \cup {Mk(k, NoOne, NoOne, NoOne, NoOne, au) : k \in K({"renounce_admin", "admin_fn"}), au \in AuthsP(admin)}
  \cup UNION {{Mk(k, NoOne, NoOne, NoOne, c, au) : au \in AuthsC(c)} : k \in K(RoleGated), c \in Callers}

(* initial states: one per preset, built by the library's own grant path --------*)
\* the k-th grant of a role lands at index k-1 of that role's list
InitAcc(p) ==
  LET G == PresetGrants(p)
      Of(r) == SelectSeq(G, LAMBDA q : q[2] = r)
  IN [r \in AllRoles |-> [i \in 0..MaxI |-> IF i < Len(Of(r)) THEN Of(r)[i + 1][1] ELSE NoOne]]
InitIdx(p) ==
  LET A == InitAcc(p) IN
  [r \in AllRoles |-> [a \in Acct |-> IF \E i \in 0..MaxI : A[r][i] = a
                                      THEN CHOOSE i \in 0..MaxI : A[r][i] = a ELSE -1]]
InitCnt(p) == [r \in AllRoles |-> Len(SelectSeq(PresetGrants(p), LAMBDA q : q[2] = r))]
RECURSIVE FirstRoles(_, _)
FirstRoles(G, seen) ==
  IF G = <<>> THEN <<>>
  ELSE IF Head(G)[2] \in seen THEN FirstRoles(Tail(G), seen)
       ELSE <<Head(G)[2]>> \o FirstRoles(Tail(G), seen \cup {Head(G)[2]})
InitRadm(p) == [r \in AllRoles |-> IF \E q \in PresetRadm(p) : q[1] = r
                                   THEN (CHOOSE q \in PresetRadm(p) : q[1] = r)[2] ELSE NoOne]

Init == /\ preset \in Presets
        /\ admin = "a" /\ pend = NoOne
        /\ radm = InitRadm(preset)
        /\ cnt = InitCnt(preset) /\ acc = InitAcc(preset) /\ idx = InitIdx(preset)
        /\ existing = FirstRoles(PresetGrants(preset), {})
        /\ g = GInit("a", preset) /\ viol = {} /\ hist = <<>>

Step(o) ==
  LET ok == ImplOk(o)
      ev == [op |-> o, res |-> IF ok THEN "ok" ELSE "fail", obs |-> Obs]
  IN /\ IF ok THEN ImplEffect(o) ELSE UNCHANGED impl
     /\ UNCHANGED preset
     /\ g' = GNext(g, ev)
     /\ viol' = viol \cup {<<m, Key(m, g, ev)>> : m \in Failing(g, ev)}
     /\ hist' = Append(hist, [op |-> o.op, acct |-> o.acct, role |-> o.role, arole |-> o.arole,
                              caller |-> o.caller, auth |-> o.auth, exp |-> ev.res])

Next == Len(hist) < Depth /\ \E o \in Ops : Step(o)

Spec == Init /\ [][Next]_vars

Bound == Len(hist) <= Depth

\* one behaviour per generated transition: the configuration and the calls leading to it
EmitReplay == Emit => PrintT(<<"REPLAY", ToJson([cfg |-> [preset |-> preset], ops |-> hist'])>>)

(* what TLC checks ----------------------------------------------------------------*)
NoViolation == viol = {}

\* the implementation-shaped state is the enumeration of the ghost state
NoDup(s) == \A i, j \in DOMAIN s : i # j => s[i] # s[j]
Refines ==
  /\ g.admin = admin /\ g.pend = pend /\ g.gone = (admin = NoOne)
  /\ \A r \in AllRoles :
       LET S == Mem(g, r) IN
       /\ RAdm(g, r) = radm[r]
       /\ cnt[r] = Cardinality(S)
       \* index -> account is a bijection 0..count-1 <-> members, nothing is stored beyond
       /\ \A i \in 0..MaxI : IF i < cnt[r] THEN acc[r][i] \in S ELSE acc[r][i] = NoOne
       /\ \A a \in Acct : IF a \in S THEN idx[r][a] \in 0..(cnt[r] - 1) /\ acc[r][idx[r][a]] = a
                                     ELSE idx[r][a] = -1
  /\ NoDup(existing)
  /\ SeqToSet(existing) = {r \in AllRoles : cnt[r] > 0}
  /\ {p[2] : p \in g.members} \subseteq AllRoles
=============================================================================
