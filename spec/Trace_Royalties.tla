-------------------------- MODULE Trace_Royalties --------------------------
(* Trace validation for Royalties.tla (conventions: see Trace_RoleTransfer). *)
EXTENDS Royalties, TLC, Json, IOUtils
Rec == ndJsonDeserialize(IOEnv.TRACE)
VARIABLES l, g, dead, cnt
vars == <<l, g, dead, cnt>>
ToSet(s) == {s[i] : i \in DOMAIN s}
Norm(ev) == [ev EXCEPT !.op = [op |-> ev.op.op, tok |-> ev.op.tok, recv |-> ev.op.recv, bps |-> ev.op.bps,
                                who |-> ev.op.who, auth |-> ToSet(ev.op.auth)]]
Init == l = 1 /\ g = [admin |-> "none"] /\ dead = FALSE /\ cnt = [m \in Monitors |-> 0]
Report(ev, m) == PrintT(<<"VIOL", ToJson([run |-> ev.run, i |-> ev.i, line |-> l, mon |-> m,
                                          prop |-> PropOf(m), key |-> Key(m, g, ev)])>>)
Next ==
  /\ l <= Len(Rec)
  /\ l' = l + 1
  /\ LET raw == Rec[l] IN
     IF raw.op.op = "reset"
     THEN g' = GInit(raw.op.admin, raw.op.manager, "self", raw.obs) /\ dead' = FALSE /\ UNCHANGED cnt
     ELSE IF dead THEN UNCHANGED <<g, dead, cnt>>
     ELSE LET ev == Norm(raw)  f == Failing(g, ev) IN
          /\ \A m \in f : Report(ev, m)
          /\ dead' = (f # {})
          /\ g' = GNext(g, ev)
          /\ cnt' = [m \in Monitors |-> cnt[m] + IF Ante(m, g, ev) THEN 1 ELSE 0]
  /\ (l = Len(Rec) => PrintT(<<"DONE", l, ToJson(cnt')>>))
Spec == Init /\ [][Next]_vars
=============================================================================
