--------------------------- MODULE Trace_Verifiers ---------------------------
(***************************************************************************)
(* Trace validation for Verifiers.tla: every recorded call of the real     *)
(* webauthn-verifier / ed25519-verifier contracts and of the real          *)
(* base64_url_encode is judged on its own (there is no ghost state):       *)
(* Accept is computed from the logged description of how the assertion was *)
(* produced, the RFC 4648 section 5 encoding is computed arithmetically    *)
(* from the logged input bytes.  Violations are collected as VIOL lines;   *)
(* cnt counts, per monitor, the steps on which its antecedent held, and    *)
(* per coverage class the steps that fall into it.                         *)
(***************************************************************************)
EXTENDS Verifiers, Json, IOUtils

Rec == ndJsonDeserialize(IOEnv.TRACE)

VARIABLES l, cnt
vars == <<l, cnt>>

ToSet(s) == {s[i] : i \in DOMAIN s}
Keys == Monitors \cup AllClasses

Init == l = 1 /\ cnt = [k \in Keys |-> 0]

\* JSON arrays arrive as sequences: the flag set becomes a set, byte strings stay sequences
EvOf(raw) == [op  |-> [raw.op EXCEPT !.flags = ToSet(raw.op.flags)],
              res |-> raw.res,
              out |-> raw.obs.out]

Report(raw, ev, m) == PrintT(<<"VIOL", ToJson([run |-> raw.run, i |-> raw.i, line |-> l, mon |-> m,
                                               prop |-> PropOf(m), key |-> Key(m, ev)])>>)

Next ==
  /\ l <= Len(Rec)
  /\ l' = l + 1
  /\ LET raw == Rec[l] IN
     IF raw.op.op = "reset" THEN UNCHANGED cnt
     ELSE LET ev == EvOf(raw)
              f  == Failing(ev)
              cl == ClassesOf(ev)
          IN /\ \A m \in f : Report(raw, ev, m)
             /\ cnt' = [k \in Keys |-> cnt[k] + IF k \in cl \/ (k \in Monitors /\ Ante(k, ev)) THEN 1 ELSE 0]
  /\ (l = Len(Rec) => PrintT(<<"DONE", l, ToJson(cnt')>>))

Spec == Init /\ [][Next]_vars
=============================================================================
