--------------------------- MODULE MerkleVoting ---------------------------
(***************************************************************************)
(* Beyond the listed properties (X04): the Merkle-proof voting example      *)
(* (examples/merkle-voting over contract-utils merkle_distributor, SHA-256).*)
(*   X04  a vote is counted only for a (index, account, voting_power) leaf  *)
(*   that is in the tree with the configured root, at most once per index,  *)
(*   adding exactly that leaf's voting power to exactly the chosen side;    *)
(*   get_vote_results always equals the sums over the counted votes;        *)
(*   has_voted(index) is true exactly for counted indices; a failed vote    *)
(*   changes nothing; AND a vote is cast only with the authorization of the *)
(*   account named in the leaf (the voter decides which side its power      *)
(*   goes to).  Converse, stated narrowly (a voting contract must let its   *)
(*   voters vote): a genuine leaf with a correct proof, not yet counted,    *)
(*   of positive power, authorized by its account, whose addition fits      *)
(*   i128, is accepted.                                                     *)
(*                                                                         *)
(* Event: op = [op, k, mut, idx, acct, pow, proof, approve, auth]           *)
(*   (idx, acct, pow) = the VoteData really submitted; k / mut / proof say  *)
(*   how the harness derived data and proof from tree leaf k;               *)
(*   pvalid = the submitted proof folds the submitted leaf to the root      *)
(*   (computed by the harness with its own SHA-256 fold, not by the code);  *)
(*   obs = [pro, con, exact, ids, voted]: get_vote_results in units of the  *)
(*   run's amount scale (exact = both tallies are whole multiples of it),   *)
(*   and the subset of the queried indices `ids` with has_voted true.       *)
(* Ghost: the tree's leaves, the counted indices and the two sums.          *)
(***************************************************************************)
EXTENDS Integers, Sequences, FiniteSets

GInit(leaves, max) == [leaves |-> leaves, max |-> max, pro |-> 0, con |-> 0, counted |-> {}]

Leaf(o) == [idx |-> o.idx, acct |-> o.acct, pow |-> o.pow]
InTree(g, o) == Leaf(o) \in g.leaves
Fits(g, x) == x <= g.max /\ x >= -g.max - 1          \* g.max models i128::MAX in units of the amount scale
Side(g, o) == IF o.approve THEN g.pro ELSE g.con

GNext(g, ev) ==
  LET o == ev.op IN
  IF ev.res # "ok" \/ o.op # "vote" THEN g
  ELSE [g EXCEPT !.counted = @ \cup {o.idx},
                 !.pro = IF o.approve THEN @ + o.pow ELSE @,
                 !.con = IF o.approve THEN @ ELSE @ + o.pow]

Monitors == {"X04_member", "X04_once", "X04_tally", "X04_voted", "X04_fail_noop",
             "X04_voter_authorized", "X04_eligible_accepted"}
PropOf(m) == "X04"

Ante(m, g, ev) ==
  LET o == ev.op  ok == ev.res = "ok" IN
  CASE m = "X04_member"           -> ok
    [] m = "X04_once"             -> ok
    [] m = "X04_tally"            -> TRUE
    [] m = "X04_voted"            -> TRUE
    [] m = "X04_fail_noop"        -> ~ok
    [] m = "X04_voter_authorized" -> ok
    [] m = "X04_eligible_accepted" ->
         /\ InTree(g, o) /\ ev.pvalid /\ o.idx \notin g.counted /\ o.acct \in o.auth
         /\ o.pow > 0 /\ Fits(g, Side(g, o) + o.pow)

Cons(m, g, ev) ==
  LET o == ev.op  g2 == GNext(g, ev)  b == ev.obs IN
  CASE m = "X04_member"           -> InTree(g, o)
    [] m = "X04_once"             -> o.idx \notin g.counted
    [] m = "X04_tally"            -> b.exact /\ b.pro = g2.pro /\ b.con = g2.con
    [] m = "X04_voted"            -> b.voted = g2.counted \cap b.ids
    [] m = "X04_fail_noop"        -> b.exact /\ b.pro = g.pro /\ b.con = g.con /\ b.voted = g.counted \cap b.ids
    [] m = "X04_voter_authorized" -> o.acct \in o.auth
    [] m = "X04_eligible_accepted" -> ev.res = "ok"

Holds(m, g, ev) == Ante(m, g, ev) => Cons(m, g, ev)
Key(m, g, ev) == IF m = "X04_voter_authorized" THEN "vote_without_voter_authorization" ELSE "other"
Failing(g, ev) == {m \in Monitors : ~Holds(m, g, ev)}

(* Trace validation never skips the rest of a run (a vote cast without the voter's authorization leaves the  *)
(* bookkeeping intact, and the unchanged tree does that all the time): after any other failure the ghost is  *)
(* re-based on what the getters answered, so that one defect is reported where it happens, not at every     *)
(* later step.                                                                                               *)
GStep(g, ev) ==
  IF Failing(g, ev) \ {"X04_voter_authorized"} = {} THEN GNext(g, ev)
  ELSE [g EXCEPT !.pro = ev.obs.pro, !.con = ev.obs.con,
                 !.counted = (GNext(g, ev).counted \ ev.obs.ids) \cup ev.obs.voted]
=============================================================================
